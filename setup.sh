#!/bin/bash
# Build the static Coq development (full .vo build) and nothing else.  Offline.
set -e
cd "$(dirname "$(readlink -f "$0")")"
/venv/bin/python -c "from vlib import core; ok,log=core.static_build(); print(log[-3000:]); import sys; sys.exit(0 if ok else 1)"
