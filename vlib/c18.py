"""C18 — vector expansion is a faithful renaming to scalars.

S2 theorems over Model/C18_expand.v; S3 generated Modelica models compiled by the real casadi
backend in a child (unexpanded U / expanded E / layout probe P); (a) property oracle `judge`:
names, order, attributes, outputs, delay states, residuals and delay arguments of E against an
independent enumeration of the DECLARED arrays (this file) and U's numbers under the renaming;
(b) correspondence: `check_case` of the Coq model evaluated inside coqc on U's recorded variables
against E's recorded names / attributes / outputs / delay states / substituted-matrix layout.
"""
import itertools
import json
import math

from . import core
from .core import cq_list, cq_nat, cq_str

THEOREMS = ["C18_bijection", "C18_expand_var_names", "C18_one_based", "C18_layout", "C18_attributes",
            "C18_expand_total", "C18_carveout_exact", "C18_no_component_array_total",
            "C18_lowrank_list_refuted", "C18_lowrank_dm_refuted", "C18_attributes_refuted",
            "C18_attributes_refuted_dm", "C18_outputs_in_place", "C18_delay_order",
            "C18_residual", "C18_residual_matrix", "C18_residual_names", "C18_residual_example",
            "C18_metadata_rows_partial", "C18_metadata_rows_own_partial", "C18_metadata_rows_c13_partial",
            "C18_c13_cells", "C18_example"]

GROUPS = ["states", "der_states", "alg_states", "inputs", "parameters", "constants"]
ATTRS = ["value", "min", "max", "start", "fixed", "nominal"]          # CASADI_ATTRIBUTES order
SCALE = 64


# ==========================================================================================
# 1. generated models: a structured description, its Modelica text and its flattened arrays
# ==========================================================================================
def nested(dims, f, pre=()):
    if not dims:
        return f(pre)
    return [nested(dims[1:], f, pre + (i,)) for i in range(dims[0])]


def lit(v):
    if isinstance(v, list):
        return "{" + ", ".join(lit(x) for x in v) + "}"
    if isinstance(v, bool):
        return "true" if v else "false"
    if isinstance(v, int):
        return str(v)
    return repr(float(v))


class Gen:
    """builds one model description from ctx.rng; every random choice goes through self.r"""

    def __init__(self, rng, flavour):
        self.r = rng
        self.flavour = flavour
        self.counter = 0
        self.used = set()
        self.bare = set()

    def num(self, integer=False):
        # distinct numbers (multiples of 1/4 or integers), never reused within a model
        while True:
            k = self.r.randint(1, 400)
            if k not in self.used:
                self.used.add(k)
                return k if integer else (k / 4.0 if self.r.random() < 0.5 else float(k))

    # identifiers of a wider family: every flattened name that starts with d, e, r or ( is sensitive to
    # character-set stripping of "der(" (str.lstrip), names like der3 / dder4 / red5 / e / r / d1 included
    ALT_STEMS = ["d", "e", "r", "dd", "ee", "rr", "der", "dder", "red", "depth", "reservoir", "re", "ed", "rde"]

    def fresh(self, stem):
        self.counter += 1
        if self.r.random() < 0.45:
            stem = self.r.choice(self.ALT_STEMS)
            if stem in ("d", "e", "r") and stem not in self.bare and self.r.random() < 0.5:
                self.bare.add(stem)
                return stem
        return "%s%d" % (stem, self.counter)

    def dims(self, maxrank=2):
        r = self.r
        x = r.random()
        if x < 0.45 or maxrank == 1:
            return [r.choice([1, 2, 2, 3, 3, 4])]
        if x < 0.93 or maxrank == 2:
            return r.choice([[2, 3], [3, 2], [2, 2], [1, 3], [3, 1], [2, 4], [1, 1], [3, 3], [4, 2]])
        return r.choice([[2, 2, 2], [2, 1, 3], [3, 2, 2], [1, 2, 2]])

    def attr_spec(self, dims, typ, allow_sym, allow_fill=True):
        """how one attribute (or the value) is written: each / full list / fill (DM) / list * parameter (MX)"""
        r = self.r
        integer = typ == "Integer"
        if typ == "Boolean":
            if r.random() < 0.5:
                return ["each", r.random() < 0.5]
            return ["full", nested(dims, lambda _: r.random() < 0.5)]
        x = r.random()
        if not dims or x < 0.25:
            return ["each", self.num(integer)]
        if x < 0.75:
            return ["full", nested(dims, lambda _: self.num(integer))]
        if x < 0.87 and allow_fill and len(dims) <= 2:
            return ["fill", self.num(integer)]
        if allow_sym and len(dims) == 1 and not integer:
            return ["scaled", nested(dims, lambda _: self.num(True)), "ka"]
        return ["full", nested(dims, lambda _: self.num(integer))]

    def decl(self, name, typ, prefix, dims, in_class=False, allow_sym=True):
        r = self.r
        d = {"name": name, "type": typ, "prefix": prefix, "dims": dims, "attrs": {}, "value": None}
        cand = ["min", "max", "start", "nominal", "fixed"] if typ == "Real" else ["start"]
        if typ == "Boolean":
            cand = []
        for a in cand:
            if r.random() < (0.45 if dims else 0.2):
                if a == "fixed":
                    d["attrs"][a] = self.attr_spec(dims, "Boolean", False)
                else:
                    d["attrs"][a] = self.attr_spec(dims, typ, allow_sym and not in_class,
                                                   allow_fill=not in_class)
        if prefix in ("parameter", "constant") and (r.random() < 0.8 or prefix == "constant"):
            v = self.attr_spec(dims, typ, allow_sym and prefix == "parameter" and not in_class,
                               allow_fill=not in_class)
            if v[0] == "each" and dims:
                # a declaration equation has no `each`: a constant array is written fill(...) (DM) or as a list
                if typ == "Boolean" or in_class or len(dims) > 2:
                    v = ["full", nested(dims, lambda _: v[1])]
                else:
                    v = ["fill", v[1]]
            d["value"] = v
        return d


def spec_text(name, spec, dims):
    kind = spec[0]
    if kind == "each":
        return ("each " if dims else "") + "%s = %s" % (name, lit(spec[1]))
    if kind == "full":
        return "%s = %s" % (name, lit(spec[1]))
    if kind == "fill":
        return "%s = fill(%s, %s)" % (name, lit(spec[1]), ", ".join(str(d) for d in dims))
    if kind == "scaled":
        return "%s = %s * %s" % (name, lit(spec[1]), spec[2])
    if kind == "symexpr":
        return ("each " if dims else "") + "%s = %s" % (name, symexpr_text(spec))
    if kind == "arrexpr":
        return "%s = %s" % (name, arrexpr_text(spec))
    raise ValueError(kind)


def symexpr_text(spec):
    """scalar expression of ELEMENTS of array parameters: c1 * P[i] + c2 * Q[j,k] + const"""
    t = " + ".join(("%s * %s" % (lit(c), ref) if c != 1 else ref) for c, ref in spec[1])
    return t + (" + %s" % lit(spec[2]) if spec[2] else "")


def arrexpr_text(spec):
    return "-%s" % spec[2] if spec[1] == -1 else "%s * %s" % (lit(spec[1]), spec[2])


def value_text(spec, dims):
    kind = spec[0]
    if kind == "each":
        assert not dims
        return lit(spec[1])
    if kind == "full":
        return lit(spec[1])
    if kind == "fill":
        return "fill(%s, %s)" % (lit(spec[1]), ", ".join(str(d) for d in dims))
    if kind == "scaled":
        return "%s * %s" % (lit(spec[1]), spec[2])
    if kind == "symexpr":
        return symexpr_text(spec)
    if kind == "arrexpr":
        return arrexpr_text(spec)
    raise ValueError(kind)


def decl_text(d):
    parts = [spec_text(a, s, d["dims"]) for a, s in d["attrs"].items()]
    t = (d["prefix"] + " " if d["prefix"] else "") + d["type"] + " " + d["name"]
    if d["dims"]:
        t += "[" + ", ".join(str(x) for x in d["dims"]) + "]"
    if parts:
        t += "(" + ", ".join(parts) + ")"
    if d["value"] is not None:
        t += " = " + value_text(d["value"], d["dims"])
    return t + ";"


def render_model(desc):
    out = []
    for c in desc["classes"]:
        out.append("model %s" % c["name"])
        for d in c["decls"]:
            out.append("  " + decl_text(d))
        for k in c.get("comps", []):
            out.append("  %s %s%s;" % (k["cls"], k["name"],
                                       "[" + ", ".join(map(str, k["dims"])) + "]" if k["dims"] else ""))
        if c["eqs"]:
            out.append("equation")
            out += ["  " + e for e in c["eqs"]]
        out.append("end %s;" % c["name"])
    out.append("model Test")
    for d in desc["decls"]:
        out.append("  " + decl_text(d))
    for k in desc["comps"]:
        mods = ["%s(%s)" % (m["member"], spec_text(m["attr"], m["spec"], m["dims_for_each"]))
                for m in k.get("mods", [])]
        out.append("  %s %s%s%s;" % (k["cls"], k["name"],
                                     "[" + ", ".join(map(str, k["dims"])) + "]" if k["dims"] else "",
                                     "(" + ", ".join(mods) + ")" if mods else ""))
    if desc["eqs"]:
        out.append("equation")
        out += ["  " + e for e in desc["eqs"]]
    if desc["ieqs"]:
        out.append("initial equation")
        out += ["  " + e for e in desc["ieqs"]]
    out.append("end Test;")
    return "\n".join(out) + "\n"


def flatten_desc(desc):
    """the declared variables after flattening: path of (component name, dims) groups, the leaf
    declaration and the attribute sources (spec, rank offset: how many leading index positions the
    spec does NOT cover)"""
    classes = {c["name"]: c for c in desc["classes"]}
    out = []

    def walk(prefix, decls, comps, mods):
        for d in decls:
            path = prefix + [(d["name"], list(d["dims"]))]
            lead = sum(len(g[1]) for g in prefix)
            attrs = {}
            for a, s in d["attrs"].items():
                attrs[a] = (s, lead)
            if d["value"] is not None:
                attrs["value"] = (d["value"], lead)
            for m in mods:
                if m["member"] == d["name"]:
                    attrs[m["attr"]] = (m["spec"], m["lead"])
            out.append({"path": path, "decl": d, "attrs": attrs})
        for k in comps:
            c = classes[k["cls"]]
            walk(prefix + [(k["name"], list(k["dims"]))], c["decls"], c.get("comps", []), k.get("mods", []))

    walk([], desc["decls"], desc["comps"], [])
    return out


def tensor_dims(path):
    return [d for _, g in path for d in g]


def spec_name(path, idx, der=False):
    """THE PROPERTY'S NAMING: every array component carries its own 1-based index group"""
    parts, pos = [], 0
    for n, g in path:
        if g:
            parts.append("%s[%s]" % (n, ",".join(str(idx[pos + k] + 1) for k in range(len(g)))))
            pos += len(g)
        else:
            parts.append(n)
    s = ".".join(parts)
    return "der(%s)" % s if der else s


def row_major(dims):
    return list(itertools.product(*[range(d) for d in dims]))


def spec_attr(spec, lead, idx):
    """THE PROPERTY'S ATTRIBUTE: the matching element of an array attribute, or the scalar"""
    kind = spec[0]
    if kind in ("each", "fill"):
        return float(spec[1])
    if kind == "symexpr":
        return ("sym", spec[1], spec[2])
    if kind == "arrexpr":
        return ("sym", [[spec[1], "%s[%s]" % (spec[2], ",".join(str(i + 1) for i in idx[lead:]))]], 0)
    v = spec[1]
    for i in idx[lead:]:
        v = v[i]
    if kind == "scaled":
        return ("scaled", float(v), spec[2])
    return float(v)


# ---- random model -------------------------------------------------------------------------
def gen_model(rng, flavour):
    """flavour: 'plain' (top-level arrays), 'comp' (arrays of components), 'delay', 'tensor' (3-D),
    'lowrank' (array attribute inside a component array: the recorded defect class)"""
    g = Gen(rng, flavour)
    r = rng
    desc = {"classes": [], "decls": [], "comps": [], "eqs": [], "ieqs": [], "flavour": flavour,
            "delays": []}
    desc["decls"].append({"name": "ka", "type": "Real", "prefix": "parameter", "dims": [], "attrs": {},
                          "value": ["each", g.num()]})
    desc["decls"].append({"name": "dt", "type": "Real", "prefix": "input", "dims": [],
                          "attrs": {"fixed": ["each", True]}, "value": None})
    if flavour == "delay":
        desc["decls"].append({"name": "dtv", "type": "Real", "prefix": "input", "dims": [2],
                              "attrs": {"fixed": ["each", True]}, "value": None})
    real_arrays = []      # (reference text maker, dims, kind) usable in top-level equations

    def add_top(prefix, typ="Real", dims=None, maxrank=2):
        dims = dims if dims is not None else g.dims(maxrank)
        name = g.fresh({"parameter": "p", "constant": "c", "input": "u", "output": "o", "": "x"}[prefix])
        d = g.decl(name, typ, prefix, dims)
        desc["decls"].append(d)
        return d

    n_par = r.randint(1, 3)
    n_alg = r.randint(2, 4)
    pars, algs = [], []
    for _ in range(n_par):
        typ = r.choice(["Real", "Real", "Real", "Integer", "Boolean"]) if flavour != "delay" else "Real"
        pars.append(add_top(r.choice(["parameter", "parameter", "constant"]), typ,
                            maxrank=3 if flavour == "tensor" else 2))
    if flavour == "tensor":
        pars.append(add_top("parameter", "Real", dims=r.choice([[2, 2, 2], [2, 1, 3], [1, 2, 2], [3, 2, 2]])))
    if flavour == "symattr":
        shared = g.dims(2)
        pars.append(add_top("parameter", "Real", dims=list(shared)))
        pars.append(add_top("parameter", "Real", dims=[r.choice([2, 3])]))
        algs.append(add_top(r.choice(["", "output"]), dims=list(shared)))
        desc["decls"].append(g.decl(g.fresh("y"), "Real", r.choice(["", "parameter"]), []))
    for _ in range(n_alg):
        algs.append(add_top(r.choice(["", "", "output", "input"])))
    if r.random() < 0.5:
        desc["decls"].append(g.decl(g.fresh("y"), "Real", r.choice(["", "output"]), []))
    scal = [d for d in desc["decls"] if not d["dims"] and d["type"] == "Real" and d["prefix"] in ("", "output")]

    # ---- component arrays -------------------------------------------------------------------
    if flavour in ("comp", "lowrank"):
        n_cls = r.randint(1, 2)
        for ci in range(n_cls):
            cname = "Sub%d" % (ci + 1)
            cdims = r.choice([[2], [3], [2], [], [2, 2], [1]])
            decls = []
            inner_rank = 2 - len(cdims) if r.random() < 0.85 else 3 - len(cdims)
            for _ in range(r.randint(1, 3)):
                if inner_rank <= 0 or r.random() < 0.3:
                    dd = []
                else:
                    dd = g.dims(1) if inner_rank == 1 or r.random() < 0.5 else g.dims(min(inner_rank, 2))
                prefix = r.choice(["", "", "parameter", "output"])
                d = g.decl(g.fresh("m"), "Real", prefix, dd, in_class=True)
                if cdims and flavour != "lowrank":
                    # inside a component array only scalars / `each` survive in this flavour
                    for a in list(d["attrs"]):
                        if d["attrs"][a][0] != "each":
                            d["attrs"][a] = ["each", d["attrs"][a][1] if not isinstance(d["attrs"][a][1], list)
                                             else g.num()]
                    if d["value"] is not None and d["value"][0] != "each":
                        d["value"] = ["each", g.num()]
                if d["value"] is not None and dd and cdims and flavour != "lowrank":
                    d["value"] = None
                decls.append(d)
            if flavour == "lowrank" and cdims:
                dd = g.dims(1) if len(cdims) == 1 else [2]
                d = {"name": g.fresh("k"), "type": "Real", "prefix": "parameter", "dims": dd, "attrs": {},
                     "value": None}
                how = r.choice(["value", "attr", "dmvalue"])
                if how == "dmvalue":
                    d["dims"] = dd = [r.choice([2, 3])]
                    d["value"] = ["fill", g.num()]
                elif how == "value":
                    d["value"] = ["full", nested(dd, lambda _: g.num())]
                else:
                    d["attrs"][r.choice(["min", "start", "nominal"])] = ["full", nested(dd, lambda _: g.num())]
                decls.append(d)
            eqs = []
            for d in decls:
                total = len(cdims) + len(d["dims"])
                if d["prefix"] in ("", "output") and d["dims"] and total <= 2 and r.random() < 0.6:
                    eqs.append("der(%s) = -%s;" % (d["name"], d["name"]))
            desc["classes"].append({"name": cname, "decls": decls, "eqs": eqs})
            comp = {"name": g.fresh("s"), "cls": cname, "dims": cdims, "mods": []}
            # modifications from outside, covering component dims + member dims (full) or `each`
            for d in decls:
                if r.random() < 0.35 and d["type"] == "Real" and cdims:
                    full_dims = cdims + d["dims"]
                    if len(full_dims) > 3:
                        continue
                    a = r.choice(["start", "min", "max", "nominal"])
                    if a in d["attrs"]:
                        continue
                    if r.random() < 0.7:
                        spec = ["full", nested(full_dims, lambda _: g.num())]
                        comp["mods"].append({"member": d["name"], "attr": a, "spec": spec, "lead": 0,
                                             "dims_for_each": full_dims})
                    else:
                        comp["mods"].append({"member": d["name"], "attr": a, "spec": ["each", g.num()],
                                             "lead": 0, "dims_for_each": full_dims})
            desc["comps"].append(comp)
        if r.random() < 0.4 and flavour == "comp":
            # nesting: B holds a scalar component of Sub-like class A with an array
            desc["classes"].append({"name": "An", "decls": [g.decl(g.fresh("q"), "Real", "", [r.choice([2, 3])],
                                                                  in_class=True, allow_sym=False)], "eqs": []})
            for a in list(desc["classes"][-1]["decls"][0]["attrs"]):
                if desc["classes"][-1]["decls"][0]["attrs"][a][0] != "each":
                    del desc["classes"][-1]["decls"][0]["attrs"][a]
            desc["classes"].append({"name": "Bn", "decls": [], "comps": [{"name": "a", "cls": "An", "dims": []}],
                                    "eqs": []})
            desc["comps"].append({"name": g.fresh("b"), "cls": "Bn", "dims": [r.choice([2, 3])], "mods": []})

    # ---- symbolic attributes that are scalar expressions of ELEMENTS of array parameters -------
    # (broadcast with `each` on arrays, plain on scalars; alone and next to indexed symbolic ones)
    heavy = flavour == "symattr"
    pools = [d for d in desc["decls"] if d["type"] == "Real" and d["prefix"] == "parameter"
             and 1 <= len(d["dims"]) <= 2]

    def sym_expr(exclude):
        cand = [q for q in pools if q is not exclude]
        terms = []
        for _ in range(r.choice([1, 1, 2])):
            if cand:
                q = r.choice(cand)
                terms.append([r.choice([1, 1, 2, 3]),
                              "%s[%s]" % (q["name"], ",".join(str(r.randrange(k) + 1) for k in q["dims"]))])
            else:
                terms.append([r.choice([2, 3]), "ka"])
        return ["symexpr", terms, r.choice([0, 0, r.randint(1, 40) / 4.0])]

    if pools and flavour != "lowrank":
        for d in desc["decls"]:
            if d["type"] != "Real" or d["name"] in ("ka", "dt") or d["prefix"] == "constant" or len(d["dims"]) > 2:
                continue
            if r.random() < (0.7 if heavy else 0.15):
                fa = [a for a in ("min", "max", "nominal", "start") if a not in d["attrs"]]
                for a in r.sample(fa, min(len(fa), r.choice([1, 1, 2]))):
                    d["attrs"][a] = sym_expr(d)
                same_dims = [q for q in pools if q["dims"] == d["dims"] and q is not d]
                fa = [a for a in ("min", "max", "nominal", "start") if a not in d["attrs"]]
                if d["dims"] and same_dims and fa and r.random() < 0.4:
                    d["attrs"][r.choice(fa)] = ["arrexpr", r.choice([-1, 2, 3]), r.choice(same_dims)["name"]]
            if heavy and not d["dims"] and d["prefix"] == "parameter" and d["value"] is None and r.random() < 0.5:
                d["value"] = sym_expr(d)

    # ---- equations over the flattened Real variables of rank <= 2 ---------------------------
    flat = flatten_desc(desc)

    def is_real_var(f):
        return f["decl"]["type"] == "Real" and len(tensor_dims(f["path"])) <= 2

    # every equation is produced as (Modelica text, mexpr AST over the UNEXPANDED symbols); the AST feeds the
    # matrix-level Coq model (Model/C18_matrix.v); None = outside the modelled expression subset (for-loops)
    def uname_of(f):
        return ".".join(n for n, _ in f["path"])

    def elem_ref(f, idx):
        dims = tensor_dims(f["path"])
        if not dims:
            ast = ["sym", uname_of(f)]
        elif len(dims) == 1:
            ast = ["slice", ["var", uname_of(f)], idx[0], 1, 0, 1]
        else:
            ast = ["slice", ["var", uname_of(f)], idx[0], 1, idx[1], 1]
        return spec_name(f["path"], idx), ast

    def whole_ref(f):
        # only when no component on the path is an array: then the dotted name denotes the array
        if any(gd for _, gd in f["path"][:-1]):
            return None
        return uname_of(f), (["var", uname_of(f)] if tensor_dims(f["path"]) else ["sym", uname_of(f)])

    reals = [f for f in flat if is_real_var(f)]
    arrays = [f for f in reals if tensor_dims(f["path"])]
    KA = ("ka", ["sym", "ka"])

    def rand_elem():
        f = r.choice(reals)
        dims = tensor_dims(f["path"])
        return elem_ref(f, [r.randrange(d) for d in dims])

    def small():
        k = r.choice([2, 3, 5, 4, 7, 6])
        return lit(k), ["const", k]

    def scalar_expr():
        x = r.random()
        a, b, c = rand_elem(), rand_elem(), small()
        if x < 0.3:
            return "%s * %s + %s" % (a[0], c[0], b[0]), ["add", ["emul", a[1], c[1]], b[1]]
        if x < 0.6:
            return "%s * %s - %s" % (a[0], b[0], c[0]), ["sub", ["emul", a[1], b[1]], c[1]]
        return "%s + %s * %s" % (c[0], a[0], b[0]), ["add", c[1], ["emul", a[1], b[1]]]

    eq_ast, ieq_ast = [], []
    state_names = set()

    def add_eq(lhs, rhs, initial=False):
        (desc["ieqs"] if initial else desc["eqs"]).append("%s = %s;" % (lhs[0], rhs[0]))
        (ieq_ast if initial else eq_ast).append(None if lhs[1] is None or rhs[1] is None else ["sub", lhs[1], rhs[1]])

    dur_pool = [q for q in pools if q["name"] != "dtv"]

    def duration():
        """delay duration: scalar fixed input, element of an array parameter / fixed array input, or an expression"""
        def pel():
            q = r.choice(dur_pool)
            return "%s[%s]" % (q["name"], ",".join(str(r.randrange(k) + 1) for k in q["dims"]))
        x = r.random()
        if x < 0.25 or (not dur_pool and x < 0.5):
            return "dt"
        if x < 0.5 and dur_pool:
            return pel()
        if x < 0.7:
            return "dtv[%d]" % r.randint(1, 2)
        if dur_pool:
            return r.choice(["dtv[%d] + %s" % (r.randint(1, 2), pel()), "2 * %s" % pel()])
        return "dtv[1] + dt"

    def new_delay(shape):
        k = len(desc["delays"])
        desc["delays"].append(shape)
        return ["var", "_pymoca_delay_%d" % k]

    unknowns = [f for f in flat if is_real_var(f) and f["decl"]["prefix"] in ("", "output")
                and len(f["path"]) == 1]
    for f in unknowns:
        d = f["decl"]
        dims = d["dims"]
        name = d["name"]
        me = whole_ref(f)
        same = [w for w in arrays if tensor_dims(w["path"]) == dims and whole_ref(w) and w is not f]
        x = r.random()
        if not dims:
            e = scalar_expr()
            if flavour == "delay" and r.random() < 0.6:
                add_eq(me, ("delay(%s, %s)" % (e[0], duration()), new_delay([1, 1])))
            else:
                add_eq(me, e)
            continue
        if flavour == "delay" and same and x < 0.6:
            w, c = whole_ref(r.choice(same)), small()
            add_eq(me, ("delay(%s * %s * ka, %s)" % (c[0], w[0], duration()),
                        new_delay(dims + [1] if len(dims) == 1 else dims)))
        elif same and x < 0.25:
            c, w1, w2 = small(), whole_ref(r.choice(same)), whole_ref(r.choice(same))
            add_eq(me, ("%s * %s + %s" % (c[0], w1[0], w2[0]), ["add", ["scale", c[1], w1[1]], w2[1]]))
        elif same and x < 0.4:
            w = whole_ref(r.choice(same))
            state_names.add(name)
            add_eq(("der(%s)" % name, ["var", "der(%s)" % name]),
                   ("%s - %s * ka" % (w[0], name), ["sub", w[1], ["scale", KA[1], me[1]]]))
        elif len(dims) == 1 and x < 0.55:
            mats = [w for w in arrays if len(tensor_dims(w["path"])) == 2 and whole_ref(w)
                    and tensor_dims(w["path"])[0] == dims[0]]
            vecs = [w for w in arrays if len(tensor_dims(w["path"])) == 1 and whole_ref(w) and w is not f]
            pair = [(m, v) for m in mats for v in vecs if tensor_dims(m["path"])[1] == tensor_dims(v["path"])[0]]
            if pair:
                m, v = r.choice(pair)
                m, v = whole_ref(m), whole_ref(v)
                add_eq(me, ("%s * %s" % (m[0], v[0]), ["mtimes", m[1], v[1]]))
            else:
                for i in range(dims[0]):
                    add_eq(elem_ref(f, [i]), scalar_expr())
        elif len(dims) == 2 and x < 0.55:
            tr = [w for w in arrays if tensor_dims(w["path"]) == dims[::-1] and whole_ref(w) and w is not f]
            if tr:
                w, c = whole_ref(r.choice(tr)), small()
                add_eq(me, ("transpose(%s) * %s" % (w[0], c[0]), ["scale", c[1], ["trans", w[1]]]))
            else:
                for idx in row_major(dims):
                    add_eq(elem_ref(f, idx), scalar_expr())
        elif len(dims) == 1 and x < 0.7 and dims[0] >= 2:
            vecs = [w for w in arrays if tensor_dims(w["path"]) == dims and whole_ref(w) and w is not f]
            c = small()
            if vecs:
                desc["eqs"].append("for i in 1:%d loop %s[i] = %s * %s[i] + ka; end for;"
                                   % (dims[0], name, c[0], whole_ref(r.choice(vecs))[0]))
            else:
                desc["eqs"].append("for i in 1:%d loop %s[i] = %s * i + ka; end for;" % (dims[0], name, c[0]))
            eq_ast.append(None)
        else:
            for idx in row_major(dims):
                add_eq(elem_ref(f, idx), scalar_expr())
        if r.random() < 0.25:
            idx = [r.randrange(k) for k in dims]
            add_eq(elem_ref(f, idx), scalar_expr(), initial=True)
        # vector- / matrix-valued initial equations: whole array, slices, der(..) = zeros(..)
        if r.random() < 0.3:
            y = r.random()
            if name in state_names and y < 0.3:
                desc["ieqs"].append("der(%s) = zeros(%s);" % (name, ", ".join(str(k) for k in dims)))
            elif same and y < 0.65:
                desc["ieqs"].append("%s = %s * %s;" % (name, small()[0], whole_ref(r.choice(same))[0]))
            elif same and len(dims) == 2:
                j = r.randrange(dims[1]) + 1
                desc["ieqs"].append("%s[:,%d] = %s[:,%d];" % (name, j, whole_ref(r.choice(same))[0], j))
            elif same and len(dims) == 1 and dims[0] >= 2:
                k = r.randint(2, dims[0])
                desc["ieqs"].append("%s[1:%d] = %s[%d:%d];" % (name, k, whole_ref(r.choice(same))[0],
                                                             dims[0] - k + 1, dims[0]))
    # the flattened model lists the equations of component classes as well (order not predicted here)
    if all(a is not None for a in eq_ast) and not any(c["eqs"] for c in desc["classes"]):
        desc["eq_ast"] = eq_ast
    return desc


# ---- what the parent prescribes to the child ------------------------------------------------
def expectations(desc, rng):
    """expected scalar names per unexpanded symbol, the renaming tables and distinct integer values"""
    flat = flatten_desc(desc)
    exp = {}
    for f in flat:
        dims = tensor_dims(f["path"])
        uname = ".".join(n for n, _ in f["path"])
        for der in (False, True):
            un = "der(%s)" % uname if der else uname
            names = [spec_name(f["path"], idx, der) for idx in row_major(dims)]
            exp[un] = {"dims": dims, "names": names, "idx": row_major(dims), "flat": f, "der": der}
    for k, shp in enumerate(desc["delays"]):
        un = "_pymoca_delay_%d" % k
        exp[un] = {"dims": shp, "names": ["%s[%d,%d]" % (un, i + 1, j + 1) for i, j in row_major(shp)],
                   "idx": row_major(shp), "flat": None, "der": False, "delay": True}
    all_names = []
    for un, e in exp.items():
        all_names += e["names"]
    ks = list(range(1, 8 * len(all_names) + 8))
    rng.shuffle(ks)
    vals = {n: float(ks[i]) for i, n in enumerate(sorted(set(all_names)))}   # distinct integers (exact in binary64)
    umap = {}
    for un, e in exp.items():
        dims = e["dims"]
        if e.get("delay"):
            umap[un] = {"rows": [[e["names"][i * dims[1] + j] for j in range(dims[1])] for i in range(dims[0])]}
        elif len(dims) == 0:
            continue
        elif len(dims) == 1:
            umap[un] = {"rows": [[n] for n in e["names"]]}
        elif len(dims) == 2:
            umap[un] = {"rows": [[e["names"][i * dims[1] + j] for j in range(dims[1])] for i in range(dims[0])]}
        else:
            umap[un] = {"flat": e["names"]}
    return exp, vals, umap


def make_case(desc, rng):
    exp, vals, umap = expectations(desc, rng)
    return {"src": render_model(desc), "cls": "Test", "genopt": {"expand_vectors": True},
            "vals": vals, "umap": umap, "desc": desc, "time": 0.5}


# ==========================================================================================
# 2. property oracle on the implementation's observations
# ==========================================================================================
def fnum(x):
    if x == "nan":
        return float("nan")
    if x == "inf":
        return float("inf")
    if x == "-inf":
        return float("-inf")
    return float(x)


def same(a, b):
    a, b = fnum(a), fnum(b)
    if math.isnan(a) or math.isnan(b):
        return math.isnan(a) and math.isnan(b)
    if math.isinf(a) or math.isinf(b):
        return a == b
    return abs(a - b) <= 1e-9 * (1.0 + abs(a) + abs(b))


def attr_rank(enc):
    if enc["k"] == "list":
        d, v = 0, enc["v"]
        while isinstance(v, list):
            d += 1
            v = v[0] if v else None
        return d
    return None


def defect_tag(res):
    """narrow tag for the recorded defect class: an expansion exception while some variable inside
    a component ARRAY carries an array attribute of lower rank than its index (list / DM / MX)"""
    kinds = set()
    for g in GROUPS:
        for v in res["U"][g]:
            ms = v["mshape"]
            if not ms or not all(isinstance(x, list) for x in ms) or len(ms) < 2:
                continue
            outer = [d for grp in ms[:-1] for d in grp if d is not None]
            full = [d for grp in ms for d in grp if d is not None]
            if not outer:
                continue
            for a in ATTRS:
                e = v["attrs"][a]
                if e["k"] == "list" and attr_rank(e) < len(full):
                    kinds.add("list")
                # DM / MX array of the member's OWN shape (n -> n x 1, n x m -> n x m) and not of the full shape:
                # attribute rank < index rank, exactly `lowrank_in_component_array` of Proofs/C18_total.v
                own = [d for d in ms[-1] if d is not None]
                own_shape = [own[0], 1] if len(own) == 1 else (own if len(own) == 2 else None)
                full_shape = [full[0], 1] if len(full) == 1 else (full if len(full) == 2 else None)
                if e["k"] in ("dm", "mx") and not (e["k"] == "mx" and e["shape"] == [1, 1]) \
                        and own_shape is not None and e["shape"] == own_shape and e["shape"] != full_shape:
                    kinds.add(e["k"])
    if len(kinds) == 1:
        return "%s-attribute-in-component-array" % kinds.pop()
    if kinds:
        return "list-attribute-in-component-array" if "list" in kinds else None
    return None


def _prod(l):
    p = 1
    for x in l:
        p *= x
    return p


def judge(case, res):
    """Returns None (property holds on this model), ("skip", why) when the model did not compile
    at all (not a C18 verdict), or (tag, description)."""
    if "U" not in res:
        return ("skip", "generate failed: %s" % (res.get("exc") or res.get("crash")))
    desc = case["desc"]
    exp, vals, umap = expectations_cached(case)
    if "E_exc" in res:
        tag = defect_tag(res) or "expand-exception"
        return (tag, "simplify({'expand_vectors': True}) raised %s: %s" % (res["E_exc"]["exc"], res["E_exc"]["msg"]))
    # ---- names, order and attributes per category -----------------------------------------
    delay_u = res["U_delay_states"]
    meta_want = {}
    for g in GROUPS:
        want = []
        for v in res["U"][g]:
            un = v["name"]
            if un in exp and (exp[un]["dims"] or exp[un].get("delay")):
                e = exp[un]
                for nm, idx in zip(e["names"], e["idx"]):
                    want.append((nm, v, e, idx))
            elif un in exp and not exp[un]["dims"]:
                want.append((un, v, exp[un], ()))             # declared scalar: its declared attributes are judged too
            elif _prod(v["shape"]) == 1:
                want.append((un, v, None, None))
            else:
                return ("oracle-unknown-variable", "unexpanded model has %s which the generator did not declare" % un)
        got = res["E"][g]
        if [w[0] for w in want] != [x["name"] for x in got]:
            return ("names", "%s: expanded names %s, declared arrays give %s"
                    % (g, [x["name"] for x in got][:12], [w[0] for w in want][:12]))
        meta_want[g] = []
        for (nm, uv, e, idx), ev in zip(want, got):
            meta_want[g].append((nm, {}))
            if ev["shape"] != [1, 1] and e is not None:
                return ("names", "%s is not a scalar symbol (%s)" % (nm, ev["shape"]))
            if ev["ptype"] != uv["ptype"]:
                return ("attributes", "%s python_type %s, array has %s" % (nm, ev["ptype"], uv["ptype"]))
            for a in ATTRS:
                w = expected_attr(e, idx, a, uv, vals)
                o = ev["attrs"][a]
                if o.get("free"):
                    return ("attributes", "%s.%s = %s still refers to %s, which is not a variable of the expanded "
                            "model" % (nm, a, o.get("repr"), ", ".join(o["free"])))
                if w is None:
                    continue
                meta_want[g][-1][1][a] = w
                src = uv["attrs"][a]["k"]
                if e is not None and e.get("dims") and (src == "list" or (src == "dm" and uv["ptype"] in ("float", "int"))) \
                        and o["k"] != "s":
                    return ("attributes", "%s.%s is a %s %s after expansion, the element of a %s attribute of a %s array "
                            "must be a plain Python number (value %s)" % (nm, a, o["k"], o.get("shape", ""), src,
                                                                          uv["ptype"], w))
                if o["k"] not in ("s", "mx", "dm") or (o["k"] != "s" and o["shape"] != [1, 1]):
                    return ("attributes", "%s.%s is not a scalar after expansion: %s" % (nm, a, o))
                ov = o["v"] if o["k"] == "s" else (o["rows"][0][0] if o["rows"] else None)
                if ov is None or not same(ov, w):
                    return ("attributes", "%s.%s = %s, matching element of the declared attribute is %s"
                            % (nm, a, ov, w))
    # ---- the real variable_metadata_function of the expanded model, at the parameter valuation -----
    em = res.get("E_meta")
    if em is not None:
        if "err" in em:
            return ("metadata-function", "variable_metadata_function of the expanded model cannot be built / "
                    "evaluated from the expanded parameters: %s" % em["err"])
        for g in ("states", "alg_states", "inputs", "parameters", "constants"):
            rows = em["groups"].get(g, [])
            if len(rows) != len(meta_want[g]) and (rows or meta_want[g]):
                return ("metadata-function", "%s: %d metadata rows for %d scalars" % (g, len(rows), len(meta_want[g])))
            for row, (nm, ws) in zip(rows, meta_want[g]):
                for k, a in enumerate(ATTRS):
                    if a in ws and not same(row[k], ws[a]):
                        return ("metadata-function", "variable_metadata_function gives %s.%s = %s, matching element "
                                "of the declared attribute is %s" % (nm, a, row[k], ws[a]))
    # ---- outputs: renamed in place, in order ------------------------------------------------
    want_out = []
    for o in res["U_outputs"]:
        want_out += exp[o]["names"] if o in exp and exp[o]["dims"] else [o]
    if want_out != res["E_outputs"]:
        return ("outputs", "outputs %s, expected %s" % (res["E_outputs"], want_out))
    # ---- delay states: renamed, order kept ---------------------------------------------------
    want_ds = []
    for d in delay_u:
        if d not in exp:
            return ("oracle-unknown-variable", "delay state %s not predicted" % d)
        want_ds += exp[d]["names"]
    if want_ds != res["E_delay_states"]:
        return ("delay-states", "delay states %s, expected %s" % (res["E_delay_states"], want_ds))
    # ---- residuals under the renaming -----------------------------------------------------------
    if "U_res" in res:
        ur, er = res["U_res"], res.get("E_res", {})
        if "err" in ur:
            return ("oracle-unknown-variable", "cannot evaluate the unexpanded residual: %s" % ur["err"])
        if "err" in er:
            return ("residual" if not er["err"].startswith("missing:") else "names",
                    "residual functions of the expanded model cannot be evaluated from its own variables: %s" % er["err"])
        for key in ("dae", "init"):
            if len(ur[key]) != len(er[key]):
                return ("residual", "%s residual has %d entries expanded, %d unexpanded" % (key, len(er[key]), len(ur[key])))
            for i, (a, b) in enumerate(zip(ur[key], er[key])):
                if not same(a, b):
                    return ("residual", "%s residual entry %d: expanded %s, unexpanded under the renaming %s"
                            % (key, i, b, a))
        ud, ed = res.get("U_delays"), res.get("E_delays")
        if ud is not None and ed is not None:
            flat_u = []
            for d in ud:
                n1, n2 = d["shape"]
                for i in range(n1):
                    for j in range(n2):
                        flat_u.append(("%s[%d,%d]" % (d["state"], i + 1, j + 1), d["expr"][i][j], d["duration"]))
            if len(flat_u) != len(ed):
                return ("delay-states", "%d delay arguments expanded, %d elements unexpanded" % (len(ed), len(flat_u)))
            for (nm, x, dur), e in zip(flat_u, ed):
                if e.get("free"):
                    return ("delay-states", "delay argument of %s (%s) still refers to %s, not a variable of the "
                            "expanded model" % (e["state"], e.get("repr"), ", ".join(e["free"])))
                if e["state"] != nm or e["shape"] != [1, 1] or not same(e["expr"][0][0], x) \
                        or len(e["duration"]) != len(dur) or not all(same(p, q) for p, q in zip(e["duration"], dur)):
                    return ("delay-states", "delay argument of %s: expanded %s/%s, element of the unexpanded "
                            "argument %s/%s" % (nm, e["expr"], e["duration"], x, dur))
    # ---- the real delay_arguments_function of both models at the same point ---------------------------
    uf, ef = res.get("U_delay_fn"), res.get("E_delay_fn")
    if ef is not None and "err" in ef:
        return ("delay-states", "delay_arguments_function of the expanded model cannot be built / evaluated: %s" % ef["err"])
    if uf is not None and ef is not None and "outs" in uf:
        want = []
        for k in range(0, len(uf["outs"]), 2):
            ex, du = uf["outs"][k], uf["outs"][k + 1]
            for row in ex:                      # scalars are enumerated row-major over the delayed expression
                for x in row:
                    want.append((x, du))
        got = [(ef["outs"][k], ef["outs"][k + 1]) for k in range(0, len(ef["outs"]), 2)]
        if len(want) != len(got):
            return ("delay-states", "delay_arguments_function: %d (expr, duration) pairs expanded, %d elements unexpanded"
                    % (len(got), len(want)))
        for i, ((x, du), (ge, gd)) in enumerate(zip(want, got)):
            if ge is None or len(ge) != 1 or len(ge[0]) != 1 or not same(ge[0][0], x) or \
                    [same(a, b) for ra, rb in zip(gd, du) for a, b in zip(ra, rb)].count(False) or \
                    sum(len(r_) for r_ in gd) != sum(len(r_) for r_ in du):
                return ("delay-states", "delay_arguments_function pair %d: expanded %s / %s, unexpanded element %s / %s"
                        % (i, ge, gd, x, du))
    # ---- layout probe: substituted matrix, column-major vec ---------------------------------------
    if res.get("P_err"):
        return ("layout", "probe failed: %s" % res["P_err"])
    for p in res.get("P_layout", []):
        e = exp.get(p["name"])
        if e is None:
            continue
        n1, n2 = p["shape"]
        want = [vals[e["names"][i * n2 + j]] for j in range(n2) for i in range(n1)]
        if len(want) != len(p["vec"]) or not all(same(a, b) for a, b in zip(want, p["vec"])):
            inv = {v: k for k, v in vals.items()}
            return ("layout", "matrix substituted for %s reads (column-major) %s, elements are %s"
                    % (p["name"], [inv.get(fnum(x), "?") for x in p["vec"]],
                       [e["names"][i * n2 + j] for j in range(n2) for i in range(n1)]))
    return None


_EXP_CACHE = {}


def expectations_cached(case):
    key = id(case)
    if key not in _EXP_CACHE:
        exp, _, _ = expectations(case["desc"], __import__("random").Random(0))
        _EXP_CACHE[key] = (exp, case["vals"], case["umap"])
    return _EXP_CACHE[key]


def expected_attr(e, idx, a, uv, vals):
    """the number the expanded scalar's attribute must show; None = not judged"""
    f = e["flat"] if e else None
    if e is not None and e["der"]:
        f = None                                     # derivative symbols carry default attributes
    if f is not None and a in f["attrs"]:
        spec, lead = f["attrs"][a]
        w = spec_attr(spec, lead, idx)
        if isinstance(w, tuple) and w[0] == "sym":
            return sum(c * vals[ref] for c, ref in w[1]) + w[2]
        if isinstance(w, tuple):
            return w[1] * fnum(vals_of_scalar(uv, w[2], vals))
        return w
    # not declared: the array's own (scalar) attribute is carried over unchanged
    u = uv["attrs"][a]
    if u["k"] == "s":
        return u["v"]
    if u["k"] in ("mx", "dm") and u["shape"] == [1, 1] and u["rows"]:
        return u["rows"][0][0]
    return None


def vals_of_scalar(uv, pname, vals):
    return vals[pname]


# ==========================================================================================
# 3. Coq encoding of one case
# ==========================================================================================
def cq_aval(x):
    if isinstance(x, str):
        return {"nan": "ANaN", "inf": "APInf", "-inf": "ANInf"}.get(x, "ANaN")
    z = x * SCALE
    if abs(z - round(z)) > 1e-6:
        z = round(x * SCALE * 1024) * 1.0   # never equal by accident; flagged by the harness below
        raise ValueError("attribute value %r is not a multiple of 1/%d" % (x, SCALE))
    return "(ANum (%d)%%Z)" % int(round(z))


def cq_nlist(v):
    if isinstance(v, list):
        return "(NNode %s)" % cq_list([cq_nlist(x) for x in v])
    return "(NLeaf %s)" % cq_aval(v)


def cq_attr(e):
    k = e["k"]
    if k == "s":
        return "(AtScalar %s)" % cq_aval(e["v"])
    if k == "list":
        return "(AtList %s)" % cq_nlist(e["v"])
    if k in ("dm", "mx"):
        if e["rows"] is None:
            raise ValueError("unevaluated MX attribute")
        return "(AtMat %s %s %s %s)" % ("true" if k == "mx" else "false", cq_nat(e["shape"][0]), cq_nat(e["shape"][1]),
                                      cq_list([cq_list([cq_aval(x) for x in r]) for r in e["rows"]]))
    raise ValueError("attribute kind %s" % k)


def cq_sel(e):
    k = e["k"]
    if k == "s":
        return "(SVal %s)" % cq_aval(e["v"])
    if k == "list":
        return "(SSub %s)" % cq_nlist(e["v"])
    if k in ("dm", "mx") and e["shape"] == [1, 1] and e["rows"]:
        return "(SVal %s)" % cq_aval(e["rows"][0][0])
    return "SErr"


def cq_shape(ms):
    if ms is not None and all(isinstance(x, list) for x in ms):
        return "(Nested %s)" % cq_list([cq_list([cq_nat(d) for d in g if d is not None]) for g in ms])
    return "(Flat %s)" % cq_list([cq_nat(d) for d in (ms or [])])


def encode_case(case, res):
    groups = []
    for g in GROUPS:
        vs = []
        for v in res["U"][g]:
            if v["tensor"]:
                n1, n2 = _prod(v["shape"]), 1
            else:
                n1, n2 = v["shape"]
            vs.append("(mk_uvar %s %s (%s, %s) %s)" % (cq_str(v["name"]), cq_shape(v["mshape"]), cq_nat(n1), cq_nat(n2),
                                                      cq_list([cq_attr(v["attrs"][a]) for a in ATTRS])))
        groups.append(cq_list(vs))
    if "E_exc" in res:
        obs = "ObsExc"
    else:
        og = []
        for g in GROUPS:
            og.append(cq_list(["(%s, %s)" % (cq_str(v["name"]), cq_list([cq_sel(v["attrs"][a]) for a in ATTRS]))
                               for v in res["E"][g]]))
        inv = {v: k for k, v in case["vals"].items()}
        lay = []
        for p in res.get("P_layout", []):
            lay.append("(%s, %s)" % (cq_str(p["name"]), cq_list([cq_str(inv.get(fnum(x), "?")) for x in p["vec"]])))
        obs = "(ObsOk %s %s %s %s)" % (cq_list(og), cq_list([cq_str(s) for s in res["E_outputs"]]),
                                       cq_list([cq_str(s) for s in res["E_delay_states"]]), cq_list(lay))
    return "(%s, %s, %s, %s)" % (cq_list(groups), cq_list([cq_str(s) for s in res["U_outputs"]]),
                                 cq_list([cq_str(s) for s in res["U_delay_states"]]), obs)


def cq_mexpr(a):
    k = a[0]
    if k == "var":
        return "(MVar %s)" % cq_str(a[1])
    if k == "sym":
        return "(MSym %s)" % cq_str(a[1])
    if k == "const":
        return "(MConst (mk_zmat 1%%nat 1%%nat [(%d)%%Z]))" % a[1]
    if k in ("add", "sub", "emul", "mtimes", "scale"):
        return "(%s %s %s)" % ({"add": "MAdd", "sub": "MSub", "emul": "MEmul", "mtimes": "MMtimes",
                                "scale": "MScale"}[k], cq_mexpr(a[1]), cq_mexpr(a[2]))
    if k in ("trans", "neg"):
        return "(%s %s)" % ({"trans": "MTrans", "neg": "MNeg"}[k], cq_mexpr(a[1]))
    if k == "slice":
        return "(MSlice %s %s %s %s %s)" % (cq_mexpr(a[1]), cq_nat(a[2]), cq_nat(a[3]), cq_nat(a[4]), cq_nat(a[5]))
    raise ValueError(k)


def as_int(x):
    x = fnum(x)
    if x != x or abs(x) == float("inf") or abs(x - round(x)) > 1e-6 or abs(x) > 2 ** 52:
        raise ValueError("residual entry %r is not an exact integer" % x)
    return int(round(x))


def encode_residual_case(case, res):
    """matrix-model tie: the unexpanded point, the equations as mexpr, both real dae residuals"""
    asts = case["desc"].get("eq_ast")
    if not asts or "U_res" not in res or "E_res" not in res or "dae" not in res["U_res"] or "dae" not in res["E_res"]:
        return None
    vals, umap = case["vals"], case["umap"]
    vs, sc = [], []
    for g in GROUPS:
        for v in res["U"][g]:
            if v["tensor"]:
                return None
            n1, n2 = v["shape"]
            if v["name"] in umap and "rows" in umap[v["name"]]:
                rows = umap[v["name"]]["rows"]
                data = [as_int(vals[rows[i][j]]) for j in range(n2) for i in range(n1)]
                vs.append("(%s, %s, (%s, %s), %s)" % (cq_str(v["name"]), cq_shape(v["mshape"]), cq_nat(n1), cq_nat(n2),
                                                     cq_list(["(%d)%%Z" % z for z in data])))
            else:
                sc.append("(%s, (%d)%%Z)" % (cq_str(v["name"]), as_int(vals[v["name"]])))
    return "(%s, %s, %s, %s, %s)" % (
        cq_list(vs), cq_list(sc), cq_list([cq_mexpr(a) for a in asts]),
        cq_list(["(%d)%%Z" % as_int(x) for x in res["U_res"]["dae"]]),
        cq_list(["(%d)%%Z" % as_int(x) for x in res["E_res"]["dae"]]))


PREAMBLE_RES = ("From Coq Require Import String List ZArith.\nFrom PV Require Import Model.C18_expand Model.C18_matrix.\n"
                "Import ListNotations.\nOpen Scope string_scope.\n")
RES_TYPE = "list (string * vshape * (nat * nat) * list Z) * list (string * Z) * list mexpr * list Z * list Z"

PREAMBLE = ("From Coq Require Import String List ZArith.\nFrom PV Require Import Model.C18_expand.\n"
            "Import ListNotations.\nOpen Scope string_scope.\n")
CASE_TYPE = "list (list uvar) * list string * list string * obs"


# ==========================================================================================
# 4. fixed corpus (mechanisms named by the property and the tests of the repository)
# ==========================================================================================
def corpus():
    out = []

    def add(desc):
        desc.setdefault("classes", [])
        desc.setdefault("comps", [])
        desc.setdefault("ieqs", [])
        desc.setdefault("delays", [])
        desc.setdefault("flavour", "corpus")
        out.append(desc)

    ka = {"name": "ka", "type": "Real", "prefix": "parameter", "dims": [], "attrs": {}, "value": ["each", 3.0]}
    dt = {"name": "dt", "type": "Real", "prefix": "input", "dims": [], "attrs": {"fixed": ["each", True]}, "value": None}

    def D(name, dims, prefix="", typ="Real", attrs=None, value=None):
        return {"name": name, "type": typ, "prefix": prefix, "dims": dims, "attrs": attrs or {}, "value": value}

    # 2-D with distinct attribute elements, 2-D parameter, matrix-vector product, transpose, element refs
    add({"decls": [ka, dt,
                   D("p", [2, 3], "parameter", value=["full", [[1, 2, 3], [4, 5, 6]]]),
                   D("m", [2, 3], attrs={"min": ["full", [[11, 12, 13], [14, 15, 16]]], "max": ["each", 99.0],
                                         "start": ["full", [[1.5, 2.5, 3.5], [4.5, 5.5, 6.5]]]}),
                   D("t", [3, 2], "output"), D("v", [3], "input", attrs={"nominal": ["full", [7, 8, 9]]}),
                   D("w", [2], "output", attrs={"min": ["scaled", [1, 2], "ka"]}), D("y", [], "output")],
         "eqs": ["m = 2 * p + p;", "t = transpose(m) * 3;", "w = m * v;", "y = m[1,3] * t[3,1] + v[2];"],
         "ieqs": ["m[2,1] = p[1,2];"]})
    # symbolic attributes that are scalar expressions of elements of array parameters: broadcast on arrays,
    # on scalars, alone and next to an indexed symbolic attribute (min = -w)
    add({"decls": [ka, dt, D("lim", [3], "parameter", value=["full", [10, 20, 30]]),
                   D("w", [2, 2], "parameter", value=["full", [[1, 2], [3, 4]]]),
                   D("x", [3], attrs={"max": ["symexpr", [[1, "lim[2]"]], 0]}),
                   D("z", [2, 2], attrs={"nominal": ["symexpr", [[1, "w[2,1]"], [2, "lim[3]"]], 0.5],
                                         "min": ["arrexpr", -1, "w"]}),
                   D("y", [], "output", attrs={"max": ["symexpr", [[1, "lim[2]"]], 0]}),
                   D("tot", [], "parameter", value=["symexpr", [[2, "lim[1]"], [1, "lim[3]"]], 0]),
                   D("v", [2], "input", attrs={"start": ["symexpr", [[3, "w[1,2]"]], 0], "max": ["scaled", [5, 6], "ka"]})],
         "eqs": ["x = {1, 2, 3} * ka;", "z = w * 2;", "y = x[1] * tot + v[2];"]})
    # vector- and matrix-valued initial equations next to several DAE equations; delay durations that are elements /
    # expressions of an array parameter and of a fixed array input; delayed expressions of array elements
    add({"decls": [ka, dt, D("tau", [2], "parameter", value=["full", [1.5, 2.5]]),
                   D("q", [2, 2], "parameter", value=["full", [[1, 2], [3, 4]]]),
                   D("dtv", [2], "input", attrs={"fixed": ["each", True]}),
                   D("x", [3]), D("x0", [3]), D("M", [2, 2]), D("N", [2, 2]), D("y", []), D("z", [3]), D("w", [])],
         "eqs": ["der(x) = -x;", "x0 = {1, 2, 3} * tau[1];", "der(M) = N;", "N = q;",
                 "y = delay(x[2] * 2 + M[1,2], tau[2]);", "z = delay(x * tau[1], dtv[2] + q[2,1]);",
                 "w = delay(x[1] + x[3], 2 * tau[1]);"],
         "ieqs": ["x = x0;", "M = q * 2;", "x[1:2] = x0[2:3];", "N[:,1] = q[:,2];", "der(M) = zeros(2, 2);"],
         "delays": [[1, 1], [3, 1], [1, 1]]})
    # derivatives of arrays, outputs between scalars, for loop
    add({"decls": [ka, dt, D("a", [], "output"), D("x", [3], "output", attrs={"start": ["full", [1, 2, 3]]}),
                   D("b", [], "output"), D("z", [3], "input"), D("q", [3, 1]), D("r", [1, 3]), D("e", [1]), D("f", [1, 1])],
         "eqs": ["der(x) = z - x * ka;", "a = x[1] + x[3] * 2;", "b = a * 2;",
                 "for i in 1:3 loop q[i,1] = 2 * z[i] + ka; end for;",
                 "r[1,1] = q[1,1]; r[1,2] = q[2,1] * 3; r[1,3] = q[3,1] * 5;", "e[1] = r[1,2];", "f[1,1] = e[1] * 2;"]})
    # delay of array states and of a scalar (DelayForLoop.mo like)
    add({"decls": [ka, dt, D("x", [3]), D("y", [3]), D("m", [2, 2]), D("n", [2, 2]), D("s", [])],
         "eqs": ["x = {1, 2, 3} * ka;", "y = delay(3 * x * ka, dt);", "m[1,1] = x[1]; m[1,2] = x[2]; m[2,1] = x[3]; m[2,2] = s;",
                 "n = delay(m, dt);", "s = delay(x[2] * 2, dt);"],
         "delays": [[3, 1], [2, 2], [1, 1]]})
    # arrays of components holding scalars and arrays, modification covering component + member dims
    sub = {"name": "Sub1", "decls": [D("x", [2]), D("w", []), D("c", [], "parameter", value=["each", 5.0])],
           "eqs": ["der(x) = -x;"]}
    add({"classes": [sub], "decls": [ka, dt, D("y", [], "output")],
         "comps": [{"name": "s", "cls": "Sub1", "dims": [2],
                    "mods": [{"member": "x", "attr": "start", "spec": ["full", [[1, 2], [3, 4]]], "lead": 0,
                              "dims_for_each": [2, 2]},
                             {"member": "w", "attr": "min", "spec": ["full", [21, 22]], "lead": 0, "dims_for_each": [2]}]},
                   {"name": "t", "cls": "Sub1", "dims": [], "mods": []}],
         "eqs": ["y = s[1].w + s[2].x[2] * 3 + t.x[2];", "s[1].w = 1;", "s[2].w = s[1].x[2];", "t.w = s[2].x[1] * 2;"]})
    # nested components  c.b[2].a.x[3]  (test_nested_indices_simple)
    add({"classes": [{"name": "An", "decls": [D("x", [3])], "eqs": []},
                     {"name": "Bn", "decls": [], "comps": [{"name": "a", "cls": "An", "dims": []}], "eqs": []},
                     {"name": "Cn", "decls": [], "comps": [{"name": "b", "cls": "Bn", "dims": [2]}], "eqs": []}],
         "decls": [ka, dt], "comps": [{"name": "c", "cls": "Cn", "dims": [], "mods": []}],
         "eqs": ["c.b[1].a.x[1] = 1;", "c.b[2].a.x[3] = c.b[1].a.x[2] * 2;"]})
    # 3-D parameter, Integer / Boolean / DM-valued arrays (Array3D.mo, ArrayExpand.mo, test_unit_type_array)
    add({"decls": [ka, dt, D("t3", [2, 2, 3], "parameter", value=["full", nested([2, 2, 3], lambda p: 100 + 9 * p[0] + 4 * p[1] + p[2])]),
                   D("n", [2, 2], "parameter", "Integer", value=["full", [[1, 2], [3, 4]]]),
                   D("f", [2, 3], "parameter", value=["fill", 2.5]),
                   D("bb", [2], "parameter", "Boolean", value=["full", [True, False]]),
                   D("g", [2, 2], "parameter", attrs={"min": ["fill", 1.25]}, value=["full", [[5, 6], [7, 8]]])],
         "eqs": []})
    return out


KNOWN_LOWRANK = {
    "classes": [{"name": "Sub", "decls": [{"name": "k", "type": "Real", "prefix": "parameter", "dims": [2],
                                            "attrs": {}, "value": ["full", [3, 4]]}], "eqs": []}],
    "decls": [], "comps": [{"name": "s", "cls": "Sub", "dims": [2], "mods": []}], "eqs": [], "ieqs": [],
    "delays": [], "flavour": "known",
}


# ==========================================================================================
# 5. run / replay
# ==========================================================================================
def strip(case):
    return {k: v for k, v in case.items()}


def run(ctx):
    core.check_props(ctx, "C18.v", THEOREMS)
    fp1, _ = core.fingerprint(core.REPO + "/src/pymoca/backends/casadi/model.py", {"Model._expand_vectors"})
    fp2, _ = core.fingerprint(core.REPO + "/src/pymoca/backends/casadi/generator.py",
                              {"Generator.get_symbol", "Generator.get_shape"})
    ctx.notes["source_fingerprint"] = {"model.py:_expand_vectors": fp1, "generator.py:get_symbol/get_shape": fp2}

    descs = corpus()
    n_corpus = len(descs)
    mix = (["plain"] * 3 + ["symattr"] * 2 + ["comp"] * 2 + ["delay"] * 3 + ["tensor"] + ["lowrank"])
    n_rand = ctx.scaled(60, 1800)
    for i in range(n_rand):
        descs.append(gen_model(ctx.rng, mix[i % len(mix)]))
    # the listed known findings ride along in the same child (S4 without extra start-ups)
    known_at = {}
    for e in core.load_known(ctx.pid):
        if e.get("replay", {}).get("desc"):
            known_at[e["tag"]] = len(descs)
            d = json.loads(json.dumps(e["replay"]["desc"]))
            d["flavour"] = "known"
            descs.append(d)
    cases = [make_case(d, ctx.rng) for d in descs]
    import time as _t
    t0 = _t.time()
    results = core.run_child(ctx, "c18", [{k: v for k, v in c.items() if k != "desc"} for c in cases], timeout=1500)

    ctx.notes["phase_s"] = {"child": round(_t.time() - t0, 1)}
    skipped, verdicts = [], []
    dist = {"flavour": {}, "verdict": {}, "expanded_variables": 0, "scalars": 0, "rank": {}, "with_delay": 0,
            "component_arrays": 0, "der_arrays": 0, "array_attributes": 0, "residual_entries": 0,
            "symbolic_element_attributes": 0, "indexed_symbolic_attributes": 0, "metadata_functions_evaluated": 0,
            "array_valued_initial_equations": 0, "array_element_delay_durations": 0, "delay_functions_evaluated": 0}
    nontrivial = set()
    enc, enc_idx = [], []
    for i, (c, r) in enumerate(zip(cases, results)):
        fl = c["desc"]["flavour"]
        dist["flavour"][fl] = dist["flavour"].get(fl, 0) + 1
        try:
            v = judge(c, r)
        except Exception as ex:  # noqa - a harness fault must not pass silently
            v = ("oracle-error", "judge raised %r" % (ex,))
        if v and v[0] == "skip":
            skipped.append((i, v[1]))
            dist["verdict"]["skip"] = dist["verdict"].get("skip", 0) + 1
            continue
        dist["verdict"][v[0] if v else "holds"] = dist["verdict"].get(v[0] if v else "holds", 0) + 1
        if v:
            core.report(ctx, v[0], v[1], {"input": {"src": c["src"], "desc": c["desc"]}, "why": v[1],
                                          "observed": summarise(r)})
        # statistics
        for g in GROUPS:
            for uv in r["U"][g]:
                ms = uv["mshape"] or []
                full = [d for grp in ms for d in (grp if isinstance(grp, list) else [grp]) if d is not None]
                if full:
                    dist["expanded_variables"] += 1
                    dist["rank"][str(len(full))] = dist["rank"].get(str(len(full)), 0) + 1
                    if g == "der_states":
                        dist["der_arrays"] += 1
                    if len(ms) > 1 and isinstance(ms[0], list) and any(d is not None for grp in ms[:-1] for d in grp):
                        dist["component_arrays"] += 1
                    dist["array_attributes"] += sum(1 for a in ATTRS if uv["attrs"][a]["k"] != "s")
        if r.get("U_delay_states"):
            dist["with_delay"] += 1
        for d in c["desc"]["decls"]:
            for sp in list(d["attrs"].values()) + ([d["value"]] if d["value"] else []):
                dist["symbolic_element_attributes"] += sp[0] == "symexpr"
                dist["indexed_symbolic_attributes"] += sp[0] in ("arrexpr", "scaled")
        import re as _re
        for q in c["desc"]["ieqs"]:
            dist["array_valued_initial_equations"] += bool(_re.match(r"^(der\()?\w+\)? =|^\w+\[[^\]]*:", q))
        for q in c["desc"]["eqs"]:
            m_ = _re.search(r"delay\(.*, ([^,]*)\);$", q)
            dist["array_element_delay_durations"] += bool(m_ and "[" in m_.group(1))
        if "outs" in (r.get("E_delay_fn") or {}):
            dist["delay_functions_evaluated"] += 1
        if "groups" in (r.get("E_meta") or {}):
            dist["metadata_functions_evaluated"] += 1
        if "E" in r:
            dist["scalars"] += sum(len(r["E"][g]) for g in GROUPS)
            if "E_res" in r and "dae" in r["E_res"]:
                dist["residual_entries"] += len(r["E_res"]["dae"]) + len(r["E_res"]["init"])
            if dist_nontrivial(r):
                nontrivial.add(json.dumps([[(v["name"], v["mshape"]) for v in r["U"][g]] for g in GROUPS]))
        try:
            enc.append(encode_case(c, r))
            enc_idx.append(i)
        except ValueError as ex:
            ctx.notes.setdefault("not_encoded", []).append("%d: %s" % (i, ex))
    ctx.oblige("generator:models-compile", len(skipped) * 10 <= len(cases),
               "skipped %d of %d generated models (first: %s)" % (len(skipped), len(cases), skipped[:2]))
    ctx.oblige("correspondence:all-cases-encoded", len(ctx.notes.get("not_encoded", [])) * 20 <= len(cases),
               str(ctx.notes.get("not_encoded", [])[:3]))
    t1 = _t.time()
    bad = core.coq_eval_cases(ctx, "exp", PREAMBLE, CASE_TYPE, enc, "check_case", shard=ctx.scaled(10, 30))
    ctx.notes["phase_s"]["coq_correspondence"] = round(_t.time() - t1, 1)
    mism = None if bad is None else [enc_idx[j] for j in bad]
    ctx.oblige("correspondence:model-vs-_expand_vectors", mism == [],
               "mismatching cases: %s" % (mism if mism is None else mism[:10]))
    if mism and not ctx.violations:
        i = mism[0]
        core.violation(ctx, "correspondence-broken",
                       {"correspondence": "Model/C18_expand.v check_case vs Model._expand_vectors",
                        "input": {"src": cases[i]["src"], "desc": cases[i]["desc"]},
                        "observed": summarise(results[i])}, no_input=True)

    # matrix-model tie: Model/C18_matrix.v must reproduce both real dae residuals from the equations
    enc_r, idx_r = [], []
    for i, (c, r) in enumerate(zip(cases, results)):
        try:
            e = encode_residual_case(c, r) if "U" in r else None
        except (ValueError, KeyError) as ex:
            ctx.notes.setdefault("residual_not_encoded", []).append("%d: %s" % (i, ex))
            e = None
        if e is not None:
            enc_r.append(e)
            idx_r.append(i)
    dist["residual_model_cases"] = len(enc_r)
    t2 = _t.time()
    bad_r = core.coq_eval_cases(ctx, "res", PREAMBLE_RES, RES_TYPE, enc_r, "check_residual", shard=ctx.scaled(12, 60)) \
        if enc_r else []
    ctx.notes["phase_s"]["coq_residual"] = round(_t.time() - t2, 1)
    mism_r = None if bad_r is None else [idx_r[j] for j in bad_r]
    ctx.oblige("correspondence:matrix-model-vs-dae-residuals", mism_r == [] and len(enc_r) * 5 >= len(cases) - len(skipped) - 40,
               "mismatching cases: %s; encoded %d of %d" % (mism_r if mism_r is None else mism_r[:10], len(enc_r), len(cases)))
    if mism_r and not ctx.violations:
        i = mism_r[0]
        core.violation(ctx, "correspondence-broken",
                       {"correspondence": "Model/C18_matrix.v check_residual vs dae_residual_function (unexpanded and expanded)",
                        "input": {"src": cases[i]["src"], "desc": cases[i]["desc"]},
                        "observed": {"U_dae": results[i]["U_res"]["dae"], "E_dae": results[i]["E_res"]["dae"]}},
                       no_input=True)

    def still_fails(e):
        i = known_at.get(e["tag"])
        if i is None:
            return None
        v = judge(cases[i], results[i])
        return bool(v) and v[0] == e["tag"]
    core.replay_known(ctx, still_fails)

    ctx.cov["evaluations"] = len(cases) - len(skipped)
    ctx.cov["distinct_nontrivial"] = len(nontrivial)
    ctx.cov["rule"] = ("%d corpus models + %d generated models (flavours plain/comp/delay/tensor/lowrank); each compiled "
                       "three times by the real backend (unexpanded, expanded, layout probe); non-trivial = expands at "
                       "least one array of rank >= 2 or inside a component array, distinct by the list of (name, "
                       "_modelica_shape) per category" % (n_corpus, n_rand))
    ctx.cov["samples"] = [cases[0]["src"][:600], cases[n_corpus]["src"][:600] if len(cases) > n_corpus else ""]
    ctx.notes["input_distribution"] = dist
    ctx.notes["skipped_models"] = skipped[:5]
    ctx.assumptions += [
        "the unexpanded model's MX layout (tensor dims = concatenated component dims; 1-D = column) and the "
        "`_pymoca_delay_<k>` numbering are taken from the generator's contract when the renaming tables are built; "
        "a mismatch is reported (oracle-unknown-variable), never ignored",
        "attributes are compared as numbers (python int 1 for a Real element is accepted, C13/C25 own typing); MX "
        "attributes are evaluated at the same prescribed point in both models",
        "3-D arrays (_MTensor): names, order and attributes are checked; they cannot occur in equations of the "
        "supported subset, so no residual is compared for those models",
        "C18_residual is proved for the matrix expression language of Model/C18_matrix.v (element-wise + - .*, scalar x "
        "array, mtimes, transpose, slices, reshape/vec/vertsplit) over integers; that model is tied to CasADi by "
        "check_residual on the generated models whose equations lie in the subset (no for-loop, no class equations); "
        "for-loop map nodes, if_else and function calls are covered by the numeric residual oracle only",
    ]


def dist_nontrivial(r):
    for g in GROUPS:
        for uv in r["U"][g]:
            ms = uv["mshape"] or []
            if not all(isinstance(x, list) for x in ms):
                continue
            full = [d for grp in ms for d in grp if d is not None]
            if len(full) >= 2:
                return True
    return False


def summarise(r):
    out = {}
    for k in ("E_exc", "U_outputs", "E_outputs", "U_delay_states", "E_delay_states", "P_err", "exc", "msg", "crash"):
        if k in r:
            out[k] = r[k]
    for side in ("U", "E"):
        if side in r:
            out[side + "_names"] = {g: [v["name"] for v in r[side][g]] for g in GROUPS if r[side][g]}
    return out


def replay(ctx, path):
    rec = json.load(open(path))
    desc = rec["input"]["desc"]
    c = make_case(desc, __import__("random").Random(1))
    r = core.run_child(ctx, "c18", [{k: v for k, v in c.items() if k != "desc"}])[0]
    v = judge(c, r)
    print("replay:", ("%s: %s" % v) if v else "property holds on this model")
    return 1 if v and v[0] != "skip" else 0
