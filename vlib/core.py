"""Shared harness for the /verif checks (see DESIGN.md section 2).

One check run = S0 environment, S1 regenerate tables, S2 prove (static build +
tie side conditions + Print Assumptions), S3 correspondence, S4 known findings,
S5 decide, S6 evidence.
"""
import fcntl
import hashlib
import json
import os
import random
import re
import shutil
import subprocess
import sys
import tempfile
import time

VERIF = os.path.dirname(os.path.dirname(os.path.abspath(__file__)))
REPO = os.environ.get("VERIF_REPO", "/repo")
COQ = os.path.join(VERIF, "coq")
PY = "/venv/bin/python"
GUARD = "PYMOCA_VERIF"

FORBIDDEN = re.compile(
    r"\b(Admitted|admit|Axiom|Axioms|Parameter|Parameters|Conjecture|Admit Obligations|"
    r"Unset Guard Checking|Unset Positivity Checking|Unset Universe Checking|bypass_check|"
    r"type-in-type|impredicative-set)\b"
)


class Fail(Exception):
    pass


def child_env(extra=None, cache_home=None):
    env = dict(os.environ)
    env["PYTHONPATH"] = "%s/src:%s:%s/tools:%s" % (REPO, REPO, REPO, VERIF)
    env["PYTHONHASHSEED"] = "0"
    env[GUARD] = "1"
    env["PIP_NO_INDEX"] = "1"
    if cache_home:
        env["XDG_CACHE_HOME"] = cache_home
    if extra:
        env.update(extra)
    return env


class Ctx:
    def __init__(self, pid, tier, seed):
        self.pid = pid
        self.tier = tier
        self.seed = seed
        self.rng = random.Random("%s-%d" % (pid, seed))
        self.t0 = time.time()
        self.tmp = tempfile.mkdtemp(prefix="verif_%s_" % pid)
        self.cache_home = os.path.join(self.tmp, "xdg")
        os.makedirs(self.cache_home)
        # one run directory per invocation, so that a --replay or a second check of the same
        # property started meanwhile cannot wipe the generated .v files of this one
        base = os.path.join(VERIF, "coqrun", pid)   # outside the -Q coq PV tree: coqdep never scans it
        os.makedirs(base, exist_ok=True)
        for old in os.listdir(base):
            op = os.path.join(base, old)
            try:
                if time.time() - os.path.getmtime(op) > 6 * 3600:
                    shutil.rmtree(op, ignore_errors=True) if os.path.isdir(op) else os.unlink(op)
            except OSError:
                pass
        self.rundir = tempfile.mkdtemp(prefix="r%d_" % os.getpid(), dir=base)
        # results
        self.obligations = []  # (name, ok, detail)
        self.trusted = []
        self.assumptions = []
        self.violations = []  # dicts written as replay files
        self.known_hits = []
        self.cov = {
            "evaluations": 0,
            "distinct_nontrivial": 0,
            "rule": "",
            "samples": [],
        }
        self.notes = {}
        self.broken = []  # names of broken proof obligations / correspondences

    # ---- bookkeeping -------------------------------------------------
    def oblige(self, name, ok, detail=""):
        self.obligations.append((name, bool(ok), detail))
        if not ok:
            self.broken.append(name)

    def scaled(self, quick, thorough):
        return thorough if self.tier == "thorough" else quick

    def cleanup(self):
        shutil.rmtree(self.tmp, ignore_errors=True)
        if not self.violations:
            shutil.rmtree(self.rundir, ignore_errors=True)


# ---------------------------------------------------------------------------
# Coq
# ---------------------------------------------------------------------------

def static_build(ctx=None, timeout=1800, target=None):
    """(Re)build the static development (or only `target`, e.g. 'Props/C17.vo', and what it
    depends on); normally a no-op.  Serialised by flock."""
    lock = open(os.path.join(VERIF, ".build.lock"), "w")
    fcntl.flock(lock, fcntl.LOCK_EX)
    try:
        if not os.path.exists(os.path.join(COQ, "Makefile")) or _coqproject_stale():
            _write_coqproject()
            subprocess.run(
                ["coq_makefile", "-f", "_CoqProject", "-o", "Makefile"],
                cwd=COQ, check=True, capture_output=True,
            )
        cmd = ["timeout", str(timeout), "make", "-j16"]
        if target:
            cmd.append(target)
        p = subprocess.run(cmd, cwd=COQ, capture_output=True, text=True)
        return p.returncode == 0, (p.stdout + p.stderr)[-4000:]
    finally:
        fcntl.flock(lock, fcntl.LOCK_UN)
        lock.close()


def _static_files():
    out = []
    for d in ("Lib", "Model", "Proofs", "Props"):
        dd = os.path.join(COQ, d)
        if os.path.isdir(dd):
            for f in sorted(os.listdir(dd)):
                if f.endswith(".v"):
                    out.append("%s/%s" % (d, f))
    return out


def _coqproject_text():
    head = (
        "-Q . PV\n"
        "-arg -w -arg -notation-overridden,-deprecated-hint-without-locality,"
        "-deprecated-instance-without-locality,-ambiguous-paths,-deprecated-hint-rewrite-without-locality\n"
    )
    return head + "\n".join(_static_files()) + "\n"


def _coqproject_stale():
    p = os.path.join(COQ, "_CoqProject")
    try:
        return open(p).read() != _coqproject_text()
    except OSError:
        return True


def _write_coqproject():
    open(os.path.join(COQ, "_CoqProject"), "w").write(_coqproject_text())


def cone(props_rel):
    """Static .v files (relative to coq/) that `props_rel` transitively Requires from PV."""
    seen, todo = [], [props_rel]
    while todo:
        f = todo.pop()
        if f in seen or not os.path.exists(os.path.join(COQ, f)):
            continue
        seen.append(f)
        txt = re.sub(r"\(\*.*?\*\)", "", open(os.path.join(COQ, f)).read(), flags=re.S)
        for m in re.finditer(r"From\s+PV\s+Require\s+(?:Import|Export)?\s*([^.]*(?:\.[A-Za-z_][^.]*)*)\.\s", txt):
            for mod in m.group(1).split():
                todo.append(mod.replace(".", "/") + ".v")
        for m in re.finditer(r"\bPV\.([A-Za-z_0-9]+)\.([A-Za-z_0-9]+)", txt):
            todo.append("%s/%s.v" % (m.group(1), m.group(2)))
    return seen


def forbidden_scan(props_rel=None):
    """grep for declared axioms / admits / disabled checks in the development (the cone of one
    property file, or everything)."""
    hits = []
    if props_rel:
        files = [os.path.join(COQ, f) for f in cone(props_rel)]
    else:
        files = []
        for root, _, fs in os.walk(COQ):
            if os.sep + "run" in root:
                continue
            files += [os.path.join(root, f) for f in fs if f.endswith(".v")]
    for path in files:
        txt = open(path).read()
        txt = re.sub(r"\(\*.*?\*\)", "", txt, flags=re.S)
        for m in FORBIDDEN.finditer(txt):
            hits.append("%s: %s" % (path, m.group(0)))
    return hits


def coqc(path, cwd=None, timeout=600, extra_q=()):
    """Compile one file.  Returns (ok, stdout, stderr)."""
    cmd = ["timeout", str(timeout), "coqc", "-Q", COQ, "PV",
           "-w", "-notation-overridden,-deprecated-hint-without-locality,-deprecated-instance-without-locality,-ambiguous-paths"]
    for d, n in extra_q:
        cmd += ["-Q", d, n]
    cmd.append(path)
    p = subprocess.run(cmd, cwd=cwd or COQ, capture_output=True, text=True)
    return p.returncode == 0, p.stdout, p.stderr


def check_props(ctx, props_file, theorems, allowed_axioms=()):
    """Recompile Props/<file>.v, capture Print Assumptions, record obligations."""
    path = os.path.join(COQ, "Props", props_file)
    src = open(path).read()
    ok, out, err = coqc(path)
    if not ok:
        for t in theorems:
            ctx.oblige("theorem:" + t, False, err[-1500:])
        return False
    # Print Assumptions output blocks
    closed = out.count("Closed under the global context")
    axioms = re.findall(r"^([A-Za-z_][\w.']*)\s*:", out, flags=re.M)
    axioms = [a for a in axioms if a not in allowed_axioms]
    n_pa = len(re.findall(r"Print Assumptions", src))
    all_ok = True
    for t in theorems:
        present = re.search(r"\b(Theorem|Lemma|Example|Corollary)\s+%s\b" % re.escape(t), src) is not None
        pa = re.search(r"Print Assumptions\s+%s\s*\." % re.escape(t), src) is not None
        good = present and pa and not axioms
        ctx.oblige("theorem:" + t, good,
                   "" if good else "present=%s print_assumptions=%s extra_axioms=%s" % (present, pa, axioms))
        all_ok = all_ok and good
    ctx.trusted.append(
        "Print Assumptions (%s): %d statement(s) 'Closed under the global context'%s"
        % (props_file, closed, "" if not allowed_axioms else "; allowed axioms: " + ", ".join(allowed_axioms))
    )
    if axioms:
        ctx.trusted.append("UNEXPECTED axioms: " + ", ".join(axioms))
    ctx.notes.setdefault("print_assumptions", {})[props_file] = out.strip()[-3000:]
    if closed + (1 if allowed_axioms else 0) < 1 or n_pa < len(theorems):
        all_ok = False
    return all_ok


def coq_run(ctx, name, text, timeout=900):
    """Write run/<pid>/<name>.v, compile it, return (ok, stdout, stderr)."""
    path = os.path.join(ctx.rundir, name + ".v")
    open(path, "w").write(text)
    ok, out, err = coqc(path, cwd=ctx.rundir, timeout=timeout,
                        extra_q=[(ctx.rundir, "Run" + ctx.pid)])
    return ok, out, err


def coq_run_many(ctx, items, timeout=900, workers=8):
    """items: list of (name, text).  Compiles them in parallel; returns list of (ok, out, err)."""
    from concurrent.futures import ThreadPoolExecutor
    with ThreadPoolExecutor(max_workers=workers) as ex:
        return list(ex.map(lambda it: coq_run(ctx, it[0], it[1], timeout=timeout), items))


def coq_eval_cases(ctx, label, preamble, type_str, encoded, check_fn, shard=200, timeout=900):
    """Correspondence helper.  `encoded` is a list of Gallina terms (strings) of type `type_str`;
    `check_fn` : type -> bool is a Gallina function available after `preamble`.
    Returns the list of indices i for which `check_fn (encoded[i])` is not `true`, or None when a
    shard failed to compile (recorded as a broken obligation)."""
    items = []
    parts = []
    for s0 in range(0, len(encoded), shard):
        part = list(range(s0, min(len(encoded), s0 + shard)))
        parts.append(part)
        text = (HEADER + "From Coq Require Import List.\n"
                "Fixpoint pv_bad {A} (f : A -> bool) (l : list A) (i : nat) : list nat :=\n"
                "  match l with nil => nil | cons x l' => (if f x then nil else cons i nil) ++ pv_bad f l' (S i) end.\n"
                + preamble + "\nDefinition pv_cases : list (%s) :=\n [ %s ].\n"
                "Eval vm_compute in (pv_bad (%s) pv_cases 0).\n"
                % (type_str, ";\n   ".join(encoded[i] for i in part), check_fn))
        items.append(("cases_%s_%d" % (label, s0), text))
    bad = []
    for part, (ok, out, err) in zip(parts, coq_run_many(ctx, items, timeout=timeout)):
        if not ok:
            ctx.oblige("correspondence:%s:coqc" % label, False, err[-1200:])
            return None
        vals = coq_results(out)
        bad += [part[j] for j in parse_nat_list(vals[-1])]
    return bad


def coq_results(out):
    """Parse the results of 'Eval vm_compute in ...' printed with a huge Printing Width.
    Returns the list of raw '= ... : type' payload strings in order."""
    res = []
    cur = None
    for line in out.splitlines():
        if line.lstrip().startswith("= "):
            if cur is not None:
                res.append(cur)
            cur = line.lstrip()[2:]
        elif cur is not None:
            if line.strip() == "":
                res.append(cur)
                cur = None
            else:
                cur += " " + line.strip()
    if cur is not None:
        res.append(cur)
    cleaned = []
    for r in res:
        # drop trailing ': type'
        i = r.rfind(" : ")
        cleaned.append(r[:i].strip() if i >= 0 else r.strip())
    return cleaned


def parse_nat_list(s):
    return [int(x) for x in re.findall(r"\d+", s)]


# ---- Coq literal emitters ---------------------------------------------------

def cq_bool(b):
    return "true" if b else "false"


def cq_Z(n):
    return "(%d)%%Z" % n


def cq_nat(n):
    return "%d%%nat" % n


def cq_pos(n):
    assert n >= 1
    return "%d%%positive" % n


def cq_list(items):
    return "[" + "; ".join(items) + "]"


def cq_opt(x):
    return "None" if x is None else "(Some %s)" % x


def cq_str(s):
    return '"' + s.replace('"', '""') + '"%string'


def cq_Q(fr):
    """fractions.Fraction -> Coq Q literal (num # den)."""
    return "(%d # %d)%%Q" % (fr.numerator, fr.denominator)


HEADER = "Set Printing Width 1000000.\nSet Printing Depth 1000000.\n"


# ---------------------------------------------------------------------------
# Implementation side: always in a child process
# ---------------------------------------------------------------------------

def run_child(ctx, module, cases, timeout=600, extra_env=None, per_case_restart=True):
    """Run `python -m vlib.impl.<module>` on a list of JSON cases.
    The child reads cases from a file and appends one JSON line per case to the
    output file.  If the child dies (segfault) the case it was working on is
    recorded as {"crash": <signal>} and a new child continues after it."""
    results = []
    start = 0
    n = len(cases)
    inp = os.path.join(ctx.tmp, "cases_%s_%d.json" % (module, random.getrandbits(32)))
    json.dump(cases, open(inp, "w"))
    stalled = 0     # consecutive time-outs without a single finished case
    while start < n:
        outp = inp + ".out.%d.%d" % (start, stalled)
        open(outp, "w").close()
        cache = tempfile.mkdtemp(prefix="xdg_", dir=ctx.tmp)
        # The deadline covers a whole batch of cases: scale it with the machine load.  A case is blamed for a
        # time-out only when it made no progress in two consecutive windows (a real hang: the second window
        # starts at that case and is short); a batch that is merely slow just continues in a new child.
        try:
            load = max(1.0, os.getloadavg()[0] / (os.cpu_count() or 1))
        except OSError:
            load = 1.0
        try:
            p = subprocess.run(
                [PY, "-m", "vlib.impl." + module, inp, outp, str(start)],
                cwd=ctx.tmp, env=child_env(extra_env, cache_home=cache),
                capture_output=True, text=True, timeout=(min(timeout, 300) if stalled else timeout) * min(load, 4.0),
            )
            rc = p.returncode
            err = p.stderr[-2000:]
        except subprocess.TimeoutExpired:
            rc = -999
            err = "timeout"
        got = []
        for line in open(outp):
            line = line.strip()
            if line:
                got.append(json.loads(line))
        results.extend(got)
        start += len(got)
        shutil.rmtree(cache, ignore_errors=True)
        if rc == -999 and start < n:
            if got:
                stalled = 0
                continue            # slow, not stuck: go on with the remaining cases in a fresh child
            if stalled == 0:
                stalled = 1
                continue            # give the case in progress a second, longer window
        stalled = 0
        if start < n:
            # child died on case `start`
            if rc == 0:
                raise Fail("child %s stopped early without error: %s" % (module, err))
            results.append({"crash": rc, "stderr": err[-500:]})
            start += 1
            if not per_case_restart:
                raise Fail("child %s crashed: rc=%s %s" % (module, rc, err))
    return results


def child_main(handler):
    """Entry point used by vlib.impl.* modules: handler(case) -> json-able result."""
    inp, outp, start = sys.argv[1], sys.argv[2], int(sys.argv[3])
    cases = json.load(open(inp))
    with open(outp, "a") as f:
        for c in cases[start:]:
            try:
                r = handler(c)
            except BaseException as e:  # noqa - the exception class is an outcome
                if isinstance(e, (KeyboardInterrupt, SystemExit)):
                    raise
                r = {"exc": type(e).__name__, "msg": str(e)[:300]}
            f.write(json.dumps(r) + "\n")
            f.flush()


# ---------------------------------------------------------------------------
# Known findings, violations, evidence
# ---------------------------------------------------------------------------

def load_known(pid):
    """Entries of findings/known_findings.json for this property with status 'known'.
    The file is read-only at run time.  Each entry: {property, status, tag, what, replay?}.
    `tag` names the specific failing input class / call site; a violation is absorbed only
    when the check computes exactly that tag for the failing input."""
    out, tags = [], set()
    srcs = []
    try:
        srcs.append(json.load(open(os.path.join(VERIF, "findings", "known_findings.json"))).get("findings", []))
    except OSError:
        pass
    try:
        srcs.append(json.load(open(os.path.join(VERIF, "findings", "known.d", pid + ".json"))))
    except OSError:
        pass
    for lst in srcs:
        for e in lst:
            if e.get("property") == pid and e.get("status") == "known" and e.get("tag") not in tags:
                tags.add(e.get("tag"))
                out.append(e)
    return out


def report(ctx, tag, what, payload, kind="impl-violation"):
    """A concrete failing input was found on the implementation.  If a known finding with
    exactly this tag is listed, print it as KNOWN-FINDING (once per tag); else a VIOLATION."""
    for e in load_known(ctx.pid):
        if e.get("tag") == tag:
            line = "%s [%s]" % (e.get("what", what), tag)
            if line not in ctx.known_hits:
                ctx.known_hits.append(line)
            ctx.notes.setdefault("known_finding_inputs", {}).setdefault(tag, [])
            if len(ctx.notes["known_finding_inputs"][tag]) < 3:
                ctx.notes["known_finding_inputs"][tag].append(payload)
            return False
    payload = dict(payload)
    payload["tag"] = tag
    payload["what"] = what
    violation(ctx, kind, payload)
    return True


def write_replay(ctx, kind, payload):
    d = os.path.join(VERIF, "replays")
    os.makedirs(d, exist_ok=True)
    blob = json.dumps(payload, sort_keys=True, default=str)
    h = hashlib.sha1(blob.encode()).hexdigest()[:10]
    path = os.path.join(d, "%s_%s_%s.json" % (ctx.pid, kind, h))
    rec = {"property": ctx.pid, "kind": kind, "seed": ctx.seed, "tier": ctx.tier}
    rec.update(payload)
    json.dump(rec, open(path, "w"), indent=1, default=str)
    return path


def replay_known(ctx, still_fails):
    """S4: replay every listed known finding of this property on the implementation.
    still_fails(entry) -> True / False / None (None = this module cannot replay the entry)."""
    for e in load_known(ctx.pid):
        try:
            r = still_fails(e)
        except Exception as ex:  # noqa
            r = None
            ctx.notes.setdefault("known_replay_errors", []).append("%s: %r" % (e.get("tag"), ex))
        line = "%s [%s]" % (e.get("what", ""), e.get("tag"))
        if r:
            if line not in ctx.known_hits:
                ctx.known_hits.append(line)
        else:
            print("note: known finding %s of %s %s" % (e.get("tag"), ctx.pid,
                  "no longer reproduces" if r is False else "could not be replayed"))
            ctx.notes.setdefault("known_not_reproduced", []).append(e.get("tag"))


MAX_REPLAYS = 5


def violation(ctx, kind, payload, no_input=False):
    if len([v for v in ctx.violations if not v["no_input"]]) >= MAX_REPLAYS and not no_input:
        ctx.notes["violations_not_written"] = ctx.notes.get("violations_not_written", 0) + 1
        return None
    path = write_replay(ctx, kind, payload)
    ctx.violations.append({"kind": kind, "replay": path, "no_input": no_input})
    return path


def finish(ctx, level="proof", checker_cmd=None):
    """S5 + S6.  Prints KNOWN-FINDING / VIOLATION lines, writes evidence, returns exit code."""
    # broken obligations without a concrete failing input still are violations
    concrete = [v for v in ctx.violations if not v["no_input"]]
    if ctx.broken and not concrete:
        path = write_replay(ctx, "proof-or-correspondence-broken",
                            {"broken": ctx.broken,
                             "details": [o for o in ctx.obligations if not o[1]][:20]})
        ctx.violations.append({"kind": "broken", "replay": path, "no_input": True})
    for k in ctx.known_hits:
        print("KNOWN-FINDING: property=%s %s" % (ctx.pid, k))
    seen = set()
    rc = 0
    for v in ctx.violations:
        if v["replay"] in seen:
            continue
        seen.add(v["replay"])
        rc = 1
        if v["no_input"]:
            print("VIOLATION property=%s replay=%s no-failing-input-found" % (ctx.pid, v["replay"]))
        else:
            print("VIOLATION property=%s replay=%s" % (ctx.pid, v["replay"]))
    n_obl = len(ctx.obligations)
    n_ok = sum(1 for o in ctx.obligations if o[1])
    cov = dict(ctx.cov)
    cov.update({
        "obligations": n_obl,
        "discharged": n_ok,
        "obligation_names": [o[0] for o in ctx.obligations],
        "failed_obligations": [[o[0], o[2][-400:]] for o in ctx.obligations if not o[1]],
        "checker_cmd": checker_cmd or ("cd /verif/coq && coq_makefile -f _CoqProject -o Makefile && make -j16 "
                                       "&& coqc -Q . PV Props/%s.v  (Coq 8.16.1; then run/%s/*.v by coqc)" % (ctx.pid, ctx.pid)),
        "trusted_base": ctx.trusted,
    })
    cov.update(ctx.notes)
    if not cov["samples"]:
        cov["samples"] = ["(no samples recorded)"]
    ev = {
        "property_id": ctx.pid,
        "tier": ctx.tier,
        "seed": ctx.seed,
        "level": level,
        "coverage": cov,
        "assumptions": ctx.assumptions,
        "wall_s": round(time.time() - ctx.t0, 2),
        "violations": len(seen),
        "known_findings_reported": ctx.known_hits,
    }
    os.makedirs(os.path.join(VERIF, "evidence"), exist_ok=True)
    json.dump(ev, open(os.path.join(VERIF, "evidence", ctx.pid + ".json"), "w"), indent=1, default=str)
    print("%s: tier=%s seed=%d obligations=%d/%d evaluations=%d violations=%d known=%d wall=%.1fs"
          % (ctx.pid, ctx.tier, ctx.seed, n_ok, n_obl, cov["evaluations"], len(seen), len(ctx.known_hits),
             time.time() - ctx.t0))
    ctx.cleanup()
    return rc


def fingerprint(path, names):
    """SHA-256 of the position-free ast.dump of the named top-level functions/classes of a source file."""
    import ast as pyast
    tree = pyast.parse(open(path).read())
    parts = []

    def visit(body, prefix=""):
        for node in body:
            if isinstance(node, (pyast.FunctionDef, pyast.ClassDef)):
                q = prefix + node.name
                if q in names or node.name in names:
                    parts.append(q + ":" + pyast.dump(node, include_attributes=False))
                if isinstance(node, pyast.ClassDef):
                    visit(node.body, q + ".")
    visit(tree.body)
    return hashlib.sha256("\n".join(parts).encode()).hexdigest()[:16], len(parts)
