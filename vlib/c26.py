"""C26 — compiler CLI exit status counts exactly the errors (tools/compiler.py main)."""
import ast as pyast
import hashlib
import json
import os

from . import core
from .core import cq_bool, cq_list, cq_nat

THEOREMS = ["C26_count", "C26_count_total", "C26_count_head", "C26_narrow_parse_handler_escapes", "C26_every_file_bad", "C26_zero_iff_success",
            "C26_argument_errors", "C26_independent", "C26_example"]
KNOWN_TAG = "parse-file-undecodable-escapes"

# ---------------------------------------------------------------------------
# Modelica material for the temp trees.  name -> text; the file is <name>.mo
# ---------------------------------------------------------------------------
TEMPLATES = {
    "A": "model A\n  Real x(start=1);\n  parameter Real k = 2;\nequation\n  der(x) = -k*x;\nend A;\n",
    "B": "model B\n  Real u;\n  Real y;\n  parameter Real g = 0.5;\nequation\n  u = 3;\n  y = g*u + 1;\nend B;\n",
    "P": ("package P\n  model M\n    Real x(start=1);\n    parameter Real k = 2;\n  equation\n    der(x) = -k*x;\n"
          "  end M;\n  model N\n    extends M(k=3);\n    Real y;\n  equation\n    y = 2*x;\n  end N;\nend P;\n"),
    # needs A.mo among the parsed files
    "C": "model C\n  A a;\n  Real z;\nequation\n  z = a.x + 1;\nend C;\n",
    # flattens, but neither the SymPy nor the CasADi generator accepts it
    "W": ("model W\n  Real x(start=0);\n  Real v[3];\n  String s = \"q\";\nequation\n"
          "  der(x) = if x > 1 then 0 else 1;\n  for i in 1:3 loop\n    v[i] = i*x;\n  end for;\nend W;\n"),
    # flattens and transfers to CasADi, SymPy generator fails
    "F": ("model F\n  function f\n    input Real a;\n    output Real b;\n  algorithm\n    b := a*2;\n  end f;\n"
          "  Real x;\nequation\n  x = f(3.0);\nend F;\n"),
    # parse fine, fail to flatten
    "Bx": "model Bx\n  extends Nope;\n  Real y;\nequation\n  y = 1;\nend Bx;\n",
    "Cx": "model Cx\n  Missing m;\n  Real z;\nequation\n  z = 1;\nend Cx;\n",
    "Empty": "",
}
BROKEN = {
    "Bad1": "model Bad1\n  Real x\nequation\n  x = ;\nend Bad1;\n",
    "Bad2": "this is not modelica {{{\n",
    "Bad3": "model Bad3\n  Real x;\nequation\n  x = 1;\nend Wrong\n",
}
UNDECODABLE_HEX = "model U\n Real x;\nequation\n x=1; // ".encode().hex() + "fffe" + "\nend U;\n".encode().hex()
DEEP = "model Deep\n Real x;\nequation\n x = " + "(" * 400 + "1" + ")" * 400 + ";\nend Deep;\n"   # RecursionError
GOOD = ["A", "B", "P", "C", "W", "F", "Bx", "Cx", "Empty"]
MODEL_NAMES = ["A", "B", "P.M", "P.N", "P", "C", "W", "F", "Bx", "Cx", "Empty", "Zed", "P.Q", "A.x"]
OPTS_OK = ["detect_aliases=True", "expand_vectors=true", "foo=bar", "check_balanced=False", "x="]
OPTS_BAD = ["novalue", "a=b=c", "=="]


# ---------------------------------------------------------------------------
# Generator
# ---------------------------------------------------------------------------
def gen_case(rng, scenario=None, target=None):
    if scenario is None:
        x = rng.random()
        scenario = ("usage" if x < 0.22 else "parse" if x < 0.44 else "models")
    if target is None:
        x = rng.random()
        target = None if x < 0.42 else "sympy" if x < 0.84 else "casadi"
    tree = {"dirs": ["lib", "more", "out"], "files": {}, "bin": {}}
    # place files
    dirs = ["lib", "lib/sub", "more"]
    n_files = rng.randint(1, 6)
    names = rng.sample(GOOD, min(n_files, len(GOOD)))
    if scenario == "models" and rng.random() < 0.7 and "A" not in names:
        names.append("A")
    placed = []
    for n in names:
        d = rng.choice(dirs)
        tree["files"]["%s/%s.mo" % (d, n)] = TEMPLATES[n]
        placed.append("%s/%s.mo" % (d, n))
    if rng.random() < 0.12 and placed:   # same stem in a second directory
        p = rng.choice(placed)
        d2 = rng.choice([d for d in dirs if d != os.path.dirname(p)])
        tree["files"]["%s/%s" % (d2, os.path.basename(p))] = tree["files"][p]
        placed.append("%s/%s" % (d2, os.path.basename(p)))
    tree["files"]["lib/notes.txt"] = "not modelica\n"
    tree["dirs"].append("emptydir")
    n_bad = 0
    if scenario == "parse" or rng.random() < 0.04:
        kind = rng.random()
        if kind < 0.72:
            n_bad = rng.randint(1, 3)
            for n in rng.sample(sorted(BROKEN), n_bad):
                d = rng.choice(dirs)
                tree["files"]["%s/%s.mo" % (d, n)] = BROKEN[n]
                placed.append("%s/%s.mo" % (d, n))
        elif kind < 0.84:
            tree["dirs"].append("lib/Dir.mo")          # a directory that looks like a file
        # else: "no Modelica files" variant chosen below
    # paths
    if scenario == "parse" and n_bad == 0 and "lib/Dir.mo" not in tree["dirs"]:
        paths = rng.choice([["emptydir"], ["lib/notes.txt"], ["emptydir", "lib/notes.txt"], ["out"]])
    else:
        paths = []
        for d in ["lib", "more"]:
            if rng.random() < 0.6:
                paths.append(d)
        for p in placed:
            if rng.random() < 0.25 and not any(p.startswith(d + "/") for d in paths):
                paths.append(p)
        if rng.random() < 0.1:
            paths.append("lib/notes.txt")
        if not paths:
            paths = ["lib"] if rng.random() < 0.5 else [rng.choice(placed)]
        rng.shuffle(paths)
    # models
    models = []
    if scenario == "models" or rng.random() < 0.5:
        k = rng.choice([1, 1, 2, 2, 3, 4])
        pool = MODEL_NAMES if target != "casadi" else ["A", "B", "P", "C", "W", "F", "Bx", "Cx", "Empty", "Zed", "Nope"]
        present = [os.path.basename(p)[:-3] for p in placed]
        for _ in range(k):
            if rng.random() < 0.7 and present:
                s = rng.choice(present)
                models.append(rng.choice(["P.M", "P.N", "P"]) if s == "P" and target != "casadi" else s)
            else:
                models.append(rng.choice(pool))
    if target and not models and scenario != "argparse":
        models = [rng.choice(["A", "Zed"])]
    # outdir
    outdir = rng.choice([None, "out", "out", "more"])
    options = []
    if rng.random() < 0.3:
        options = [rng.choice(OPTS_OK) for _ in range(rng.randint(1, 2))]
    if scenario == "usage":
        what = rng.sample(["outdir", "path", "opt"], rng.randint(1, 3))
        if "outdir" in what:
            outdir = rng.choice(["nonexistent_out", "lib/notes.txt", "out/deeper"])
        if "path" in what:
            for _ in range(rng.randint(1, 3)):
                paths.insert(rng.randint(0, len(paths)), rng.choice(["nope", "lib/Nope.mo", "more/none/x.mo", "zz.mo"]))
        if "opt" in what:
            for _ in range(rng.randint(1, 2)):
                options.insert(rng.randint(0, len(options)), rng.choice(OPTS_BAD))
    if target == "sympy" and models and scenario == "models" and rng.random() < 0.15:
        # the output file cannot be written: a directory is in its place
        tree["dirs"].append("%s/%s.py" % (outdir or ".", rng.choice(models)))
    verbose = rng.choice(["", "", "", "-v", "-vv"])
    return assemble(rng, tree, paths, outdir, target, models, options, verbose, scenario)


def assemble(rng, tree, paths, outdir, target, models, options, verbose, scenario, argparse="ok"):
    """argv = pre + [-m …]* + post with the PATH arguments contiguous (argparse cannot split a
    nargs='+' positional); a one-model re-invocation is pre + [-m, m] + post."""
    opt = []
    long = rng.random() < 0.25
    if target:
        opt += (["--target", target] if long else ["-t", target])
    if outdir is not None:
        opt += (["--outdir", outdir] if long else ["-o", outdir])
    for o in options:
        opt += (["--option", o] if long else ["-O", o])
    if verbose:
        opt.append(verbose)
    mod = []
    for m in models:
        mod += (["--model", m] if long else ["-m", m])
    if rng.random() < 0.6:
        pre, post = list(paths) + opt, []
    else:
        pre, post = [], opt + list(paths)
    return {"tree": tree, "argv": pre + mod + post, "argv_pre": pre, "argv_post": post, "paths": list(paths),
            "outdir": outdir, "target": target, "models": list(models), "options": list(options),
            "argparse": argparse, "scenario": scenario, "solo": False}


def gen_argparse_case(rng):
    """Invocations argparse itself rejects (exit 2) or answers (--version / -h, exit 0), and
    -t without -m (argp.error)."""
    c = gen_case(rng, scenario="models", target=rng.choice([None, "sympy", "casadi"]))
    argv = list(c["argv"])
    nopath = [a for a in argv if a not in c["paths"]]
    kind = rng.choice(["nopath", "unknown", "badtarget", "dangling-m", "dangling-o", "t-without-m",
                       "version", "help", "split-path"])
    c["scenario"] = "argparse:" + kind
    c["argparse"] = "error"
    if kind == "nopath":
        argv = nopath
    elif kind == "unknown":
        argv = argv + ["--frobnicate"]
    elif kind == "badtarget":
        argv = list(c["paths"]) + nopath + ["-t", "fortran"]
    elif kind == "dangling-m":
        argv = list(c["paths"]) + nopath + ["-m"]
    elif kind == "dangling-o":
        argv = list(c["paths"]) + nopath + ["-o"]
    elif kind == "t-without-m":
        t = c["target"] or "sympy"
        argv = list(c["paths"]) + ["-t", t]
        c.update({"argparse": "ok", "target": t, "models": [], "options": [], "outdir": None})
    elif kind == "version":
        argv = argv + ["--version"]
        c["argparse"] = "exit0"
    elif kind == "help":
        argv = ["-h"] + argv
        c["argparse"] = "exit0"
    elif kind == "split-path":
        argv = ["lib", "-v", "more"]
    c["argv"] = argv
    c["solo"] = False
    return c


def gen_undecodable(rng):
    """A .mo file that is not UTF-8 among the parsed files (known finding: escapes parse_file)."""
    c = gen_case(rng, scenario="models", target=rng.choice([None, "sympy"]))
    c["tree"]["bin"]["lib/U.mo"] = UNDECODABLE_HEX
    if "lib" not in c["paths"]:
        i = max(c["argv"].index(p) for p in c["paths"])
        c["argv"].insert(i + 1, "lib/U.mo")
        c["paths"].append("lib/U.mo")
    c["scenario"] = "undecodable"
    c["solo"] = False
    return c


def gen_casadi_mult(rng):
    """-t casadi with requested models whose .mo stem occurs 0..5 times among the collected files:
    through several directories holding the same file name, and/or through PATH arguments that
    reach the same file more than once (directory + explicit file, or the file repeated).  On
    correct code only the stems occurring exactly once are compiled, so these are cheap."""
    alld = ["lib", "lib/sub", "more", "more/deep", "extra"]
    tree = {"dirs": ["lib", "more", "extra", "out"], "files": {"lib/notes.txt": "not modelica\n"}, "bin": {}}
    stems = rng.sample(["A", "B", "F", "C", "Bx"], rng.randint(1, 3))
    dir_paths, file_paths, models = set(), [], []
    for st in stems:
        cnt = rng.choice([0, 1, 2, 3, 3, 3, 4, 5])
        mode = rng.choice(["dirs", "repeat", "mixed"]) if cnt >= 2 else "dirs"
        models.append(st)
        if cnt == 0:
            continue
        if mode == "dirs":
            for d in rng.sample(alld, cnt):
                tree["files"]["%s/%s.mo" % (d, st)] = TEMPLATES[st]
                dir_paths.add(d.split("/")[0])
        elif mode == "repeat":
            d = rng.choice(alld)
            tree["files"]["%s/%s.mo" % (d, st)] = TEMPLATES[st]
            file_paths += ["%s/%s.mo" % (d, st)] * cnt
        else:   # one occurrence through its directory, the others as explicit arguments
            d = rng.choice(alld)
            tree["files"]["%s/%s.mo" % (d, st)] = TEMPLATES[st]
            dir_paths.add(d.split("/")[0])
            file_paths += ["%s/%s.mo" % (d, st)] * (cnt - 1)
    if rng.random() < 0.3:
        models.append(rng.choice(["Zed", "Nope"]))
    if rng.random() < 0.3:
        models.append(rng.choice(models))
    rng.shuffle(models)
    paths = sorted(dir_paths) + file_paths
    rng.shuffle(paths)
    if not paths:
        paths = ["extra"]
    return assemble(rng, tree, paths, None, "casadi", models, [], "", "casadi-mult")


def gen_all_bad(rng):
    """Every collected .mo file has a parse error (2-4 of them: syntax errors, not UTF-8, too deeply
    nested), given as files or through a directory holding nothing else; alone, with -m, with
    -t sympy.  The exit status must be the number of files, not the 1 of 'No Modelica files'."""
    pool = ["Bad1", "Bad2", "Bad3", "U"] + (["Deep"] if rng.random() < 0.2 else [])   # Deep costs ~1 s per parse
    kinds = rng.sample(pool, rng.randint(2, 4))
    tree = {"dirs": ["bad", "bad/sub", "out", "lib"], "files": {"lib/A.mo": TEMPLATES["A"],
            "bad/readme.txt": "no modelica here\n"}, "bin": {}}
    rels = []
    for k in kinds:
        rel = "%s/%s.mo" % (rng.choice(["bad", "bad/sub"]), k)
        if k == "U":
            tree["bin"][rel] = UNDECODABLE_HEX
        else:
            tree["files"][rel] = DEEP if k == "Deep" else BROKEN[k]
        rels.append(rel)
    paths = ["bad"] if rng.random() < 0.5 else rels
    target = rng.choice([None, None, "sympy"])
    models = [rng.choice(["A", "Bad1", "Zed"]) for _ in range(rng.randint(0, 2))]
    if target and not models:
        models = ["A"]
    return assemble(rng, tree, paths, rng.choice([None, "out"]), target, models, [], rng.choice(["", "", "-v"]),
                    "all-bad")


def gen_combo_case(rng):
    """-t without -m (argp.error, exit status 2) together with 0-3 counted usage errors: the invalid
    combination is reported first, whatever else is wrong with the call."""
    tree = {"dirs": ["lib", "out"], "files": {"lib/A.mo": TEMPLATES["A"], "lib/notes.txt": "x\n"}, "bin": {}}
    paths, outdir, options = ["lib"], rng.choice([None, "out"]), []
    for what in rng.sample(["path", "outdir", "opt"], rng.randint(0, 3)):
        if what == "path":
            for _ in range(rng.randint(1, 2)):
                paths.insert(rng.randint(0, len(paths)), rng.choice(["nope", "lib/Nope.mo", "zz.mo"]))
        elif what == "outdir":
            outdir = rng.choice(["nonexistent_out", "lib/notes.txt"])
        else:
            options = [rng.choice(OPTS_BAD) for _ in range(rng.randint(1, 2))]
    return assemble(rng, tree, paths, outdir, rng.choice(["sympy", "casadi"]), [], options,
                    rng.choice(["", "-v"]), "t-without-m+usage")


SEQ_LIB = {"lib/A.mo": TEMPLATES["A"], "lib/C.mo": TEMPLATES["C"], "lib/P.mo": TEMPLATES["P"],
           "src/Base.mo": "model Base\n  Real b(start=1);\nequation\n  der(b) = -b;\nend Base;\n",
           "src/Derived.mo": "model Derived\n  extends Base;\n  Real d;\nequation\n  d = 2*b;\nend Derived;\n"}


def gen_sequence(rng, variant=None):
    """Two or three invocations sharing one -o directory: the earlier ones succeed and leave their
    outputs; then a source is deleted / the PATH changes / a foreign .py lies in the directory.  Every
    invocation is judged by the count alone, whatever the directory held before."""
    variant = variant or rng.choice(["delete", "delete3", "path", "foreign", "delete-none"])
    tree = {"dirs": ["lib", "src", "out"], "files": dict(SEQ_LIB), "bin": {}}
    target = None if variant == "delete-none" else "sympy"
    t = (["-t", "sympy"] if target else []) + ["-o", "out"]
    pre, delete = [], []
    if variant in ("delete", "delete-none"):
        if rng.random() < 0.5:
            paths, models, delete = ["lib"], ["C", "A"], ["lib/A.mo"]
        else:
            paths, models, delete = ["src", "lib"], ["Derived", "P.N"], ["src/Base.mo"]
        pre = [paths + t + [x for m in models for x in ("-m", m)]]
    elif variant == "delete3":
        paths, models, delete = ["lib", "src"], ["C", "Derived", "A"], ["lib/A.mo", "src/Base.mo"]
        pre = [paths + t + ["-m", "C", "-m", "Derived"], paths + t + ["-m", "A"]]
    elif variant == "path":
        models = ["Derived"] if rng.random() < 0.5 else ["C"]
        full = ["src"] if models == ["Derived"] else ["lib"]
        paths = ["src/Derived.mo"] if models == ["Derived"] else ["lib/C.mo", "lib/P.mo"]
        pre = [full + t + ["-m", models[0]]]
    else:   # a <Model>.py that some other tool / project left in the directory (written after the sources)
        paths, models = ["lib"], ["Zed", "A"]
        tree["files"]["out/Zed.py"] = "# not generated from these sources\n"
    pre_ = list(paths) + t
    return {"tree": tree, "argv": pre_ + [x for m in models for x in ("-m", m)], "argv_pre": pre_, "argv_post": [],
            "paths": paths, "outdir": "out", "target": target, "models": models, "options": [], "argparse": "ok",
            "scenario": "sequence:" + variant, "solo": False, "pre": pre, "delete": delete}


def corpus():
    """Fixed invocations: one per mechanism, so every seed exercises every `errors +=` site."""
    T = TEMPLATES
    base = {"dirs": ["lib", "more", "out", "emptydir"], "bin": {}}

    def tree(files, dirs=()):
        t = dict(base)
        t["dirs"] = base["dirs"] + list(dirs)
        t["files"] = dict(files)
        return t
    lib_ok = {"lib/A.mo": T["A"], "lib/P.mo": T["P"], "lib/C.mo": T["C"], "lib/W.mo": T["W"], "lib/Bx.mo": T["Bx"],
              "lib/F.mo": T["F"]}
    out = []

    def add(tr, paths, outdir, target, models, options=(), verbose="", solo=False):
        opt = (["-t", target] if target else []) + (["-o", outdir] if outdir is not None else [])
        for o in options:
            opt += ["-O", o]
        if verbose:
            opt.append(verbose)
        pre = list(paths) + opt
        out.append({"tree": tr, "argv": pre + [x for m in models for x in ("-m", m)], "argv_pre": pre,
                    "argv_post": [], "paths": list(paths), "outdir": outdir, "target": target,
                    "models": list(models), "options": list(options), "argparse": "ok", "scenario": "corpus",
                    "solo": solo})
    # flatten only
    add(tree(lib_ok), ["lib"], None, None, [])
    add(tree(lib_ok), ["lib"], None, None, ["A", "Bx", "P.N", "Zed", "C"], solo=True)
    add(tree(lib_ok), ["lib/C.mo"], None, None, ["C"])                       # C without A.mo fails
    add(tree(lib_ok), ["lib"], None, None, ["Bx", "A", "Bx"], verbose="-vv", solo=True)
    # sympy
    add(tree(lib_ok), ["lib"], "out", "sympy", ["A", "Bx", "P.M", "W"], solo=True)
    add(tree(lib_ok), ["lib"], "out", "sympy", ["Zed"])
    add(tree(lib_ok), ["lib"], "out", "sympy", ["F", "A"], verbose="-v", solo=True)
    add(tree(lib_ok, dirs=["out/A.py"]), ["lib"], "out", "sympy", ["A", "P.N"], solo=True)   # cannot write A.py
    # casadi
    lib_c = {"lib/A.mo": T["A"], "lib/B.mo": T["B"], "more/W.mo": T["W"], "more/A.mo": T["A"], "lib/sub/F.mo": T["F"]}
    add(tree(lib_c), ["lib", "more"], None, "casadi", ["B", "A", "Zed", "W", "F"])
    add(tree(lib_c), ["lib"], None, "casadi", ["A", "Zed"], solo=True)
    add(tree(lib_c), ["lib", "more"], None, "casadi", ["A"])                 # ambiguous only
    add(tree(lib_c), ["emptydir"], None, "casadi", ["A"])
    add(tree({"lib/A.mo": T["A"], "lib/Bad1.mo": BROKEN["Bad1"]}), ["lib"], None, "casadi", ["A"])
    # a stem occurring 3 / 4 times (several directories; the same file reached repeatedly)
    lib_m = {"lib/A.mo": T["A"], "more/A.mo": T["A"], "extra/A.mo": T["A"], "lib/B.mo": T["B"],
             "lib/F.mo": T["F"], "lib/sub/F.mo": T["F"], "more/F.mo": T["F"], "extra/F.mo": T["F"]}
    add(tree(lib_m, dirs=["extra"]), ["lib", "more", "extra"], None, "casadi", ["A"])
    add(tree(lib_m, dirs=["extra"]), ["lib", "more", "extra"], None, "casadi", ["B", "A", "F", "Zed"])
    add(tree(lib_c), ["lib", "lib/B.mo", "lib/B.mo"], None, "casadi", ["B"])
    add(tree(lib_c), ["lib/B.mo", "lib/B.mo", "lib/B.mo", "lib/A.mo"], None, "casadi", ["A", "B"], solo=True)
    # every collected file is bad: the count is the number of files, not "No Modelica files"
    allbad = {"bad/Bad1.mo": BROKEN["Bad1"], "bad/Bad2.mo": BROKEN["Bad2"], "bad/sub/Bad3.mo": BROKEN["Bad3"],
              "lib/A.mo": T["A"]}
    add(tree(allbad), ["bad/Bad1.mo", "bad/Bad2.mo"], None, None, [])
    add(tree(allbad), ["bad"], None, None, ["A", "Zed"])
    tu = tree(allbad)
    tu["bin"] = {"bad/U.mo": UNDECODABLE_HEX}
    tu["files"]["bad/Deep.mo"] = DEEP
    add(tu, ["bad/Bad2.mo", "bad/U.mo", "bad/sub/Bad3.mo", "bad/Deep.mo"], "out", "sympy", ["A"])
    add(tree(allbad), ["bad/Bad1.mo"], None, None, [])
    # usage errors
    add(tree(lib_ok), ["lib", "nope", "zz.mo"], "nonexistent_out", None, ["A"], options=["a=b=c", "ok=1", "novalue"])
    add(tree(lib_ok), ["lib"], "lib/A.mo", "sympy", ["A"])
    add(tree(lib_ok), ["nope"], None, None, [])
    add(tree(lib_ok), ["lib"], None, None, ["A"], options=["novalue"])
    # parse stage
    bad = dict(lib_ok)
    bad.update({"lib/Bad1.mo": BROKEN["Bad1"], "more/Bad2.mo": BROKEN["Bad2"], "lib/sub/Bad3.mo": BROKEN["Bad3"]})
    add(tree(bad), ["lib", "more"], None, None, ["A", "Bx"])
    add(tree(bad), ["lib/A.mo", "more/Bad2.mo"], "out", "sympy", ["A"])
    add(tree(bad), ["lib/A.mo", "lib/P.mo"], "out", "sympy", ["A"])
    add(tree(lib_ok), ["emptydir"], None, None, ["A"])
    add(tree(lib_ok), ["lib/notes.txt", "out"], None, "sympy", ["A"])
    add(tree(lib_ok, dirs=["lib/Dir.mo"]), ["lib"], None, None, ["A"])
    for c in out:
        c["tree"]["files"].setdefault("lib/notes.txt", "not modelica\n")
    return out


# ---------------------------------------------------------------------------
# Independent reference: the property's sentence, in Python, over the measured facts
# ---------------------------------------------------------------------------
def model_fails(target, m):
    if target == "casadi" and sum(m["match"]) != 1:
        return True
    return m["res"] != "ok"


def expected_exit(case, facts):
    """None when the reference says the invocation hits the recorded undecodable-file defect class
    (then the property demands an exit status equal to the count with that file as a parse error)."""
    if case["argparse"] == "error":
        return 2
    if case["argparse"] == "exit0":
        return 0
    if case["target"] and not case["models"]:
        return 2
    usage = (0 if facts["outdir_ok"] else 1) + facts["paths"].count(False) + facts["opts"].count(False)
    if usage:
        return usage
    if not facts["files"]:
        return 1
    if case["target"] != "casadi":
        nbad = sum(1 for f in facts["files"] if f["parse"] != "ok")
        if nbad:
            return nbad
    return sum(1 for m in facts["models"] if model_fails(case["target"], m))


def judge(case, res):
    """(tag, why) or None."""
    if "observed" not in res:
        return ("child-failure", "the child could not run the case: %s" % json.dumps(res)[:300])
    ob, facts = res["observed"], res["facts"]
    want = expected_exit(case, facts)
    if "raises" in ob:
        tag = "main-raises"
        if (ob.get("cls") == "UnicodeDecodeError" and facts and case["target"] != "casadi"
                and any(f.get("cls") == "UnicodeDecodeError" for f in facts["files"])):
            tag = KNOWN_TAG
        return (tag, "main(%s) raised %s (%s); the property demands exit status %d"
                % (case["argv"], ob.get("cls"), ob.get("msg", "")[:80], want))
    for i, po in enumerate(res.get("pre_observed") or []):
        if po.get("exit") != 0:
            return ("sequence-earlier-run", "earlier invocation %s of the sequence gave %s, expected exit status 0"
                    % (case["pre"][i], po))
    if ob["exit"] != want:
        return ("wrong-exit", "main(%s) exit status %d, the count of usage errors / unparsable files / failing "
                "models is %d" % (case["argv"], ob["exit"], want))
    if res.get("solo"):
        for m, mf, so in zip(case["models"], facts["models"], res["solo"]):
            w = 1 if model_fails(case["target"], mf) else 0
            if so.get("exit") != w:
                return ("solo-differs", "model %s requested alone gives %s, but it %s on its own (joint exit %d)"
                        % (m, so, "fails" if w else "succeeds", ob["exit"]))
    return None


# ---------------------------------------------------------------------------
# T11 / T7: error-accounting skeleton of tools/compiler.py
# ---------------------------------------------------------------------------
KNOWN_HCLS = {"Exception": "HException", "BaseException": "HBaseException", "KeyError": "HKeyError",
              "AttributeError": "HAttributeError", "OSError": "HOSError", "ValueError": "HValueError"}
# normalised-shape hashes of the functions at the repaired HEAD (logging calls, docstrings, the
# `errors += …` statements and the except-clause class expressions are abstracted away)
REF_SHAPES = {
    "main": None, "translate": None, "parse_file": None, "parse_all": None,
    "flatten_class": None, "list_modelica_files": None,
}
REF_SLOTS = {}      # filled below (block path in the normalised main -> slot)
REF_HANDLERS = {}   # (function, handler path) -> table field


class Unrecognised(Exception):
    pass


def _is_log_or_doc(s):
    if isinstance(s, pyast.Expr):
        v = s.value
        if isinstance(v, pyast.Constant) and isinstance(v.value, str):
            return True
        if (isinstance(v, pyast.Call) and isinstance(v.func, pyast.Attribute)
                and isinstance(v.func.value, pyast.Name) and v.func.value.id == "log"):
            return True
    return False


def _norm_block(stmts, path, slots, handlers):
    out = []
    for s in stmts:
        if _is_log_or_doc(s):
            continue
        if (isinstance(s, pyast.AugAssign) and isinstance(s.target, pyast.Name) and s.target.id == "errors"
                and isinstance(s.op, pyast.Add)):
            slots.setdefault(path, []).append(s.value)
            continue
        p = "%s/%d" % (path, len(out))
        for field in ("body", "orelse", "finalbody"):
            if isinstance(getattr(s, field, None), list) and not isinstance(s, pyast.IfExp):
                setattr(s, field, _norm_block(getattr(s, field), p + "." + field, slots, handlers))
        if isinstance(s, pyast.Try):
            for i, h in enumerate(s.handlers):
                hp = "%s.h%d" % (p, i)
                handlers[hp] = h.type
                h.type = pyast.Name(id="H", ctx=pyast.Load())
                h.name = None
                h.body = _norm_block(h.body, hp, slots, handlers)
        out.append(s)
    return out


def shape_of(fn):
    slots, handlers = {}, {}
    fn.body = _norm_block(fn.body, fn.name, slots, handlers)
    fn.returns = None
    for a in fn.args.args + fn.args.kwonlyargs:
        a.annotation = None
    dump = pyast.dump(fn, include_attributes=False)
    # type comments / annotations on assignments do not matter
    return hashlib.sha256(dump.encode()).hexdigest()[:16], slots, handlers


def _hcls(t):
    if t is None:
        return ["HBaseException"]
    elts = t.elts if isinstance(t, pyast.Tuple) else [t]
    out = []
    for e in elts:
        if not isinstance(e, pyast.Name) or e.id not in KNOWN_HCLS:
            raise Unrecognised("except class %s" % pyast.dump(e))
        out.append(KNOWN_HCLS[e.id])
    return out


def extract_skeleton(path):
    """-> (gallina_term, info) or raises Unrecognised."""
    try:
        mod = pyast.parse(open(path).read())
    except (OSError, SyntaxError) as e:
        raise Unrecognised("cannot parse %s: %s" % (path, e))
    fns = {n.name: n for n in mod.body if isinstance(n, pyast.FunctionDef)}
    got = {}
    for name in REF_SHAPES:
        if name not in fns:
            raise Unrecognised("function %s missing" % name)
        got[name] = shape_of(fns[name])
        if got[name][0] != REF_SHAPES[name]:
            raise Unrecognised("shape of %s is %s, expected %s" % (name, got[name][0], REF_SHAPES[name]))
    table = {"k_outdir": 0, "k_path": 0, "k_opt": 0, "k_nofiles_s": 0, "k_parse": "IConst 0%nat", "k_translate": 0,
             "k_flatten": 0, "k_nofiles_c": 0, "k_ambig": 0, "k_nodir": 0, "k_transfer": 0}
    for name in REF_SHAPES:
        _, slots, _ = got[name]
        for bp, vals in slots.items():
            slot = REF_SLOTS.get(bp)
            if slot is None:
                raise Unrecognised("errors += at an unknown place: %s" % bp)
            if len(vals) != 1:
                raise Unrecognised("%d increments in block %s" % (len(vals), bp))
            v = vals[0]
            if isinstance(v, pyast.Constant) and type(v.value) is int and 0 <= v.value < 100:
                table[slot] = ("IConst %d%%nat" % v.value) if slot == "k_parse" else v.value
            elif slot == "k_parse" and pyast.dump(v) == pyast.dump(pyast.parse("len(error_files)", mode="eval").body):
                table[slot] = "ILenErr"
            else:
                raise Unrecognised("increment %s at %s" % (pyast.dump(v), bp))
    hs = {}
    for name in REF_SHAPES:
        for hp, t in got[name][2].items():
            field = REF_HANDLERS.get(hp)
            if field is None:
                raise Unrecognised("handler at an unknown place: %s" % hp)
            hs.setdefault(field, []).append((hp, _hcls(t)))
    for field in ("h_parse", "h_flatten", "h_transfer"):
        if len(hs.get(field, [])) != 1:
            raise Unrecognised("handlers of %s: %s" % (field, hs.get(field)))
    if len(hs.get("h_translate", [])) != 2:
        raise Unrecognised("handlers of translate: %s" % hs.get("h_translate"))
    tr = [c for _, c in sorted(hs["h_translate"])]

    def L(xs):
        return "[" + "; ".join(xs) + "]"
    if order_probe(path) is not True:
        raise Unrecognised("position of the argp.error(-t without -m) block")
    term = ("(Skel true %d%%nat %d%%nat %d%%nat %d%%nat (%s) %d%%nat %d%%nat %d%%nat %d%%nat %d%%nat %d%%nat %s %s %s %s)"
            % (table["k_outdir"], table["k_path"], table["k_opt"], table["k_nofiles_s"], table["k_parse"],
               table["k_translate"], table["k_flatten"], table["k_nofiles_c"], table["k_ambig"], table["k_nodir"],
               table["k_transfer"], L(hs["h_parse"][0][1]), L([L(c) for c in tr]), L(hs["h_flatten"][0][1]),
               L(hs["h_transfer"][0][1])))
    info = dict(table)
    info.update({"h_parse": hs["h_parse"][0][1], "h_translate": tr, "h_flatten": hs["h_flatten"][0][1],
                 "h_transfer": hs["h_transfer"][0][1]})
    return term, info


def order_probe(path):
    """Where does `argp.error(...)` for -t without -m stand relative to `if errors: return errors` in main?
    True = before (the invalid combination wins over counted usage errors), False = after, None = not found."""
    try:
        mod = pyast.parse(open(path).read())
    except (OSError, SyntaxError):
        return None
    fn = [n for n in mod.body if isinstance(n, pyast.FunctionDef) and n.name == "main"]
    if not fn:
        return None
    i_err = i_ret = None
    for i, st in enumerate(fn[0].body):
        if not isinstance(st, pyast.If):
            continue
        src = pyast.unparse(st.test)
        if i_err is None and "args.target" in src and "args.model" in src and any(
                isinstance(x, pyast.Expr) and isinstance(x.value, pyast.Call)
                and pyast.unparse(x.value.func) == "argp.error" for x in st.body):
            i_err = i
        if i_ret is None and src == "errors" and any(isinstance(x, pyast.Return) for x in st.body):
            i_ret = i
    if i_err is None or i_ret is None:
        return None
    return i_err < i_ret


def _dump_reference(path="/repo/tools/compiler.py"):
    """Maintenance helper: print shapes / slot paths / handler paths of a source file."""
    mod = pyast.parse(open(path).read())
    for n in mod.body:
        if isinstance(n, pyast.FunctionDef) and n.name in REF_SHAPES:
            h, slots, handlers = shape_of(n)
            print(n.name, h)
            for k, v in slots.items():
                print("   slot", k, [pyast.unparse(x) for x in v])
            for k, v in handlers.items():
                print("   handler", k, pyast.unparse(v) if v is not None else None)


REF_SHAPES.update({
    "list_modelica_files": "6e163b6fa99115da", "parse_file": "d012d871aef56024", "parse_all": "3b9b37ebbb787004",
    "flatten_class": "b3e95216e512726e", "translate": "98ecf638f2b82fa5", "main": "0901ca57756a146f",
})
_M = "main/22."
REF_SLOTS.update({
    "main/14.body": "k_outdir",
    "main/15.body/0.body": "k_path",
    "main/17.body/0.body/1.orelse": "k_opt",
    _M + "body/2.body": "k_nofiles_s",
    _M + "body/2.orelse/0.body": "k_parse",
    _M + "body/3.body/0.body/0.body/0.body": "k_translate",
    _M + "body/3.body/0.body/0.orelse/0.body/0.h0": "k_flatten",
    _M + "orelse/0.body/2.body": "k_nofiles_c",
    _M + "orelse/0.body/2.orelse/0.body/1.body/0.body/0.body": "k_ambig",   # empty at HEAD
    _M + "orelse/0.body/2.orelse/0.body/2.body": "k_nodir",
    _M + "orelse/0.body/2.orelse/0.body/2.orelse/0.h0": "k_transfer",
})
REF_HANDLERS.update({
    "parse_file/2.h0": "h_parse",
    "translate/1.body/1.h0": "h_translate",
    "translate/1.body/1.h1": "h_translate",
    _M + "body/3.body/0.body/0.orelse/0.body/0.h0": "h_flatten",
    _M + "orelse/0.body/2.orelse/0.body/2.orelse/0.h0": "h_transfer",
})

PREAMBLE = ("From Coq Require Import List Arith Bool.\nImport ListNotations.\n"
            "From PV Require Import Model.C26_cli.\n")


def tie(ctx):
    """S1: regenerate the table, check its side condition by vm_compute.  Returns the Gallina term of
    the table the correspondence uses."""
    src = core.REPO + "/tools/compiler.py"
    order = order_probe(src)
    ctx.notes["tie_argp_error_before_counted_errors"] = order
    ctx.oblige("tie:argp.error(-t without -m) stands before `if errors: return errors` (model: Exit 2 first)",
               order is not False, "the invalid-combination check comes after the early return on counted errors")
    try:
        term, info = extract_skeleton(src)
    except Unrecognised as e:
        ctx.notes["tie_T11"] = "shape not recognised (%s): behavioural correspondence only, against head_skel" % e
        ctx.assumptions.append("T11/T7 translator did not recognise tools/compiler.py (%s); the theorems are tied to "
                               "the code by the behavioural correspondence with the hand-written table only" % e)
        return "head_skel"
    # one file: the two evaluations first (printed even when the lemma below fails), then the side
    # condition as a lemma and C26_count instantiated at the regenerated table
    text = (core.HEADER + PREAMBLE + "From PV Require Import Proofs.C26_cli.\n"
            "Definition gen_skel : skel := %s.\n" % term +
            "Eval vm_compute in (skel_ok gen_skel).\nEval vm_compute in (parse_broad gen_skel).\n"
            "Lemma tie_ok : skel_ok gen_skel = true. Proof. vm_compute. reflexivity. Qed.\n"
            "Theorem C26_count_code (f : facts) : parse_caught gen_skel f -> main_with gen_skel f = Exit (count f).\n"
            "Proof. exact (count_correct gen_skel f tie_ok). Qed.\nPrint Assumptions C26_count_code.\n")
    ok, out, err = core.coq_run(ctx, "Tie_C26", text, timeout=120)
    vals = core.coq_results(out)
    good = len(vals) >= 2 and vals[0] == "true"
    ctx.oblige("tie:T11-skeleton-side-condition(skel_ok gen_skel)", good,
               "" if good else "table from %s: %s ; coq: %s %s" % (src, json.dumps(info), vals[:2], err[-600:]))
    ctx.notes["tie_T11"] = {"table": info, "skel_ok": vals[0] if vals else None,
                            "parse_file_catches_Exception": vals[1] if len(vals) > 1 else None}
    if good:
        ctx.oblige("tie:C26_count instantiated at the regenerated table",
                   ok and "Closed under the global context" in out, err[-600:])
    return "(%s)" % term


# ---------------------------------------------------------------------------
# Coq encoding of a case
# ---------------------------------------------------------------------------
def enc_exc(e):
    assert e in ("EKey", "EAttr", "EOS", "EValue", "EOther"), e
    return e


def encode(case, res):
    facts, ob = res["facts"], res["observed"]
    arg = {"ok": "AOk", "error": "AError", "exit0": "AExit0"}[case["argparse"]]
    tgt = {None: "TNone", "sympy": "TSympy", "casadi": "TCasadi"}[case["target"]]
    if facts is None:
        f = "(Facts %s %s true [] [] [] [])" % (arg, tgt)
    else:
        files = []
        for r in facts["files"]:
            files.append("POk" if r["parse"] == "ok" else "PNone" if r["parse"] == "none"
                         else "(PExc %s)" % enc_exc(r["parse"]))
        ms = []
        for m in facts["models"]:
            r = "MOk" if m["res"] == "ok" else "(MExc %s)" % enc_exc(m["res"])
            ms.append("(MF %s %s)" % (r, cq_list([cq_bool(b) for b in m["match"]])))
        f = "(Facts %s %s %s %s %s %s %s)" % (
            arg, tgt, cq_bool(facts["outdir_ok"]), cq_list([cq_bool(b) for b in facts["paths"]]),
            cq_list([cq_bool(b) for b in facts["opts"]]), cq_list(files), cq_list(ms))
    if "raises" in ob:
        o = "(Raises %s)" % enc_exc(ob["raises"])
    else:
        o = "(Exit %s)" % cq_nat(ob["exit"])
    return "(%s, %s)" % (f, o)


def encodable(res):
    if "observed" not in res:
        return False
    ob = res["observed"]
    if "raises" in ob:
        return ob["raises"] != "BASE"
    if not (0 <= ob["exit"] < 5000):
        return False
    for r in (res["facts"] or {}).get("files", []):
        if r["parse"] == "BASE":
            return False
    for m in (res["facts"] or {}).get("models", []):
        if m["res"] == "BASE":
            return False
    return True


# ---------------------------------------------------------------------------
def signature(case, res):
    """What makes two evaluations 'the same' for the coverage count."""
    f = res.get("facts") or {}
    return json.dumps([case["argparse"], case["target"], f.get("outdir_ok"), f.get("paths"), f.get("opts"),
                       [r["parse"] for r in f.get("files", [])],
                       [[m["res"], sum(m["match"])] for m in f.get("models", [])], res.get("observed", {}).get("exit")])


def make_cases(ctx, casadi_bias=False):
    cases = corpus()
    n_corpus = len(cases)
    n_rand = ctx.scaled(34, 1800)
    n_casadi = ctx.scaled(6, 120)
    n_arg = ctx.scaled(9, 60)
    n_und = ctx.scaled(2, 12)
    for _ in range(n_rand):
        cases.append(gen_case(ctx.rng, target=ctx.rng.choice([None, None, "sympy", "sympy"])
                              if ctx.rng.random() < 0.95 else None))
    for _ in range(n_casadi):
        cases.append(gen_case(ctx.rng, scenario=ctx.rng.choice(["models", "models", "usage", "parse"]), target="casadi"))
    # stems occurring 0..5 times; many more when the casadi skeleton could not be read off the source
    for _ in range(ctx.scaled(8, 150) + (ctx.scaled(40, 300) if casadi_bias else 0)):
        cases.append(gen_casadi_mult(ctx.rng))
    # only unparsable files; more of them when the source shape (parse_all included) is not recognised
    for _ in range(ctx.scaled(5, 80) + (ctx.scaled(15, 100) if casadi_bias else 0)):
        cases.append(gen_all_bad(ctx.rng))
    for v in ("delete", "delete3", "path", "foreign", "delete-none"):
        cases.append(gen_sequence(ctx.rng, v))
    for _ in range(ctx.scaled(3, 60) + (ctx.scaled(10, 60) if casadi_bias else 0)):
        cases.append(gen_sequence(ctx.rng))
    for _ in range(ctx.scaled(8, 80) + (ctx.scaled(12, 80) if casadi_bias else 0)):
        cases.append(gen_combo_case(ctx.rng))
    for _ in range(n_arg):
        cases.append(gen_argparse_case(ctx.rng))
    for _ in range(n_und):
        cases.append(gen_undecodable(ctx.rng))
    # solo (one -m at a time) runs for a share of the multi-model invocations
    for c in cases[n_corpus:]:
        if len(c["models"]) >= 2 and c["argparse"] == "ok" and c["scenario"] in ("models", "casadi-mult"):
            c["solo"] = ctx.rng.random() < (0.5 if c["target"] != "casadi" else 0.2)
    return cases, n_corpus


def run(ctx):
    core.check_props(ctx, "C26.v", THEOREMS)
    fp, _ = core.fingerprint(core.REPO + "/tools/compiler.py",
                             {"main", "translate", "parse_all", "parse_file", "list_modelica_files", "flatten_class"})
    ctx.notes["source_fingerprint"] = {"tools/compiler.py": fp}
    skel_term = tie(ctx)
    cases, n_corpus = make_cases(ctx, casadi_bias=(skel_term == "head_skel"))
    # the children are independent: 4 chunks in parallel
    from concurrent.futures import ThreadPoolExecutor
    k = 4
    chunks = [cases[i::k] for i in range(k)]
    with ThreadPoolExecutor(max_workers=k) as ex:
        parts = list(ex.map(lambda ch: core.run_child(ctx, "c26", ch, timeout=ctx.scaled(600, 3000)), chunks))
    results = [None] * len(cases)
    for i in range(k):
        for j, r in enumerate(parts[i]):
            results[i + j * k] = r
    # (a) property oracle
    dist = {}
    sigs = set()
    nontrivial = set()
    for c, r in zip(cases, results):
        key = "%s/%s" % (c["scenario"].split(":")[0], c["target"])
        dist[key] = dist.get(key, 0) + 1
        v = judge(c, r)
        if v:
            core.report(ctx, v[0], v[1], {"input": {k2: c[k2] for k2 in c}, "observed": r.get("observed"),
                                          "facts": r.get("facts"), "solo": r.get("solo")})
        if "observed" in r:
            s = signature(c, r)
            sigs.add(s)
            if r.get("facts") and (r["facts"].get("reaches_models") or r["observed"].get("exit", 0) > 0):
                nontrivial.add(s)
    # (b) correspondence
    idx = [i for i, r in enumerate(results) if encodable(r)]
    pre = PREAMBLE + "Definition the_skel : skel := %s.\n" % skel_term
    bad = core.coq_eval_cases(ctx, "inv", pre, "facts * outcome", [encode(cases[i], results[i]) for i in idx],
                              "check_case the_skel", shard=150)
    mism = None if bad is None else [idx[j] for j in bad]
    ctx.oblige("correspondence:model-vs-compiler.main", mism == [] and len(idx) >= len(cases) - 2,
               "mismatching cases: %s; unencodable: %d" % (mism[:10] if mism else mism, len(cases) - len(idx)))
    if mism and not ctx.violations:
        i = mism[0]
        core.violation(ctx, "correspondence-broken",
                       {"correspondence": "Model/C26_cli.v main_with vs tools/compiler.py main",
                        "input": cases[i], "observed": results[i].get("observed"), "facts": results[i].get("facts")},
                       no_input=True)
    core.replay_known(ctx, lambda e: still_fails(ctx, e))
    ctx.cov["evaluations"] = len(cases) + sum(len(r.get("solo") or []) for r in results)
    ctx.cov["distinct_nontrivial"] = len(nontrivial)
    ctx.cov["rule"] = ("invocations of compiler.main over generated temp trees (%d corpus + %d generated; plus one-model "
                       "re-invocations); distinct by (argparse outcome, target, outdir ok, per-path existence, per-option "
                       "syntax, per-file parse outcome, per-model (solo outcome, #files named like it), exit); "
                       "non-trivial = reaches the model loop or exits non-zero" % (n_corpus, len(cases) - n_corpus))
    ctx.cov["samples"] = [cases[1]["argv"], cases[n_corpus]["argv"], cases[-1]["argv"]]
    ctx.notes["input_distribution"] = {
        "scenario/target": dist,
        "exit_status_histogram": _hist([r.get("observed", {}).get("exit", "raises") for r in results]),
        "models_per_invocation": _hist([len(c["models"]) for c in cases]),
        "model_outcomes": _hist([m["res"] + ("" if c["target"] != "casadi" else "/named=%d" % sum(m["match"]))
                                 for c, r in zip(cases, results) if r.get("facts")
                                 for m in r["facts"]["models"] if m["measured"] or c["target"] == "casadi"]),
        "file_parse_outcomes": _hist([f["parse"] for r in results if r.get("facts") for f in r["facts"]["files"]]),
        "solo_reinvocations": sum(len(r.get("solo") or []) for r in results),
    }
    ctx.assumptions += [
        "exception classes are abstracted to {KeyError, AttributeError, OSError, ValueError, other Exception}; "
        "BaseException-only classes (KeyboardInterrupt, SystemExit from below main) are not modelled",
        "argparse itself is not modelled: whether argv is accepted is a fact (set by the generator's construction "
        "of the malformed argv and confirmed by the observed SystemExit(2))",
        "PATH arguments overlap (a file listed more than once) only in -t casadi invocations, where each listing "
        "counts as a file named like the model; exit status is main's return value / SystemExit code, not the "
        "8-bit process status",
        "ground truth of 'model fails' = that model alone on a fresh copy of the tree with a fresh parse "
        "(tree.flatten / sympy generate+write / casadi transfer_model)",
    ]
    ctx.trusted.append("Python harness: generator, independent fact measurement in the child, T11/T7 translator "
                       "(fail-closed: unrecognised source shape falls back to behaviour only)")


def _hist(xs):
    h = {}
    for x in xs:
        h[str(x)] = h.get(str(x), 0) + 1
    return h


def still_fails(ctx, entry):
    rp = entry.get("replay")
    if not rp:
        return None
    c = rp["input"]
    r = core.run_child(ctx, "c26", [c])[0]
    v = judge(c, r)
    return bool(v and v[0] == entry.get("tag"))


def replay(ctx, path):
    rec = json.load(open(path))
    c = rec["input"]
    r = core.run_child(ctx, "c26", [c])[0]
    v = judge(c, r)
    print("argv:", c["argv"])
    print("observed:", r.get("observed"), " solo:", r.get("solo"))
    print("replay:", ("%s: %s" % v) if v else "property holds on this invocation")
    return 1 if v else 0
