"""C23 — out-of-range array subscripts are rejected, never reinterpreted."""
import itertools
import json

from . import core
from .core import cq_Z, cq_bool, cq_list

THEOREMS = ["C23_scalar", "C23_checked", "C23_checked_exact", "C23_repo_now_two_part",
            "C23_scalar_symbol", "C23_scalar_symbol_refuted", "C23_repo_head", "C23_repo_head_scalar", "C23_multi", "C23_nested", "C23_nested_example", "C23_in_range_partial", "C23_2d_checked", "C23_slice_refuted", "C23_slice_wrap_refuted", "C23_loop_refuted",
            "C23_three_part_refuted", "C23_example"]

PREAMBLE = "From Coq Require Import ZArith List.\nImport ListNotations.\nFrom PV Require Import Model.C23_index.\nOpen Scope Z_scope.\n"

TAG_SLICE = "slice-outside-1..n"
TAG_LOOP = "loop-index-outside-1..n"
TAG_THREE = "three-part-range"
TAG_SCALAR_LOOP = "loop-subscript-on-scalar"


# ---- integer index expressions of the loop variable: ["i"] | ["c",k] | ["add"|"sub"|"mul", e1, e2] ----
def ev(e, i):
    if e[0] == "i":
        return i
    if e[0] == "c":
        return e[1]
    a, b = ev(e[1], i), ev(e[2], i)
    return a + b if e[0] == "add" else a - b if e[0] == "sub" else a * b


def ex_text(e, top=True):
    if e[0] == "i":
        return "i"
    if e[0] == "c":
        return str(e[1]) if e[1] >= 0 else "(0-%d)" % -e[1]
    t = "%s%s%s" % (ex_text(e[1], False), {"add": "+", "sub": "-", "mul": "*"}[e[0]], ex_text(e[2], False))
    return t if top else "(%s)" % t


def ex_coq(e):
    if e[0] == "i":
        return "LVar"
    if e[0] == "c":
        return "(LConst %s)" % cq_Z(e[1])
    return "(%s %s %s)" % ({"add": "LAdd", "sub": "LSub", "mul": "LMul"}[e[0]], ex_coq(e[1]), ex_coq(e[2]))


def bare(u):
    """the subscript is the loop variable itself"""
    return (u[0] in ("loop", "loop3") and u[-1] == 0) or (u[0] in ("loopx", "loopx3") and u[-1] == ["i"])


# ---- independent reference: Modelica subscript semantics (the property's spec) ---------------
def mrange(a, s, b):
    """Modelica a:s:b, inclusive."""
    out, k = [], a
    if s == 0:
        return None
    while (k <= b) if s > 0 else (k >= b):
        out.append(k)
        k += s
    return out


def spec(n, u):
    """-> ('ok', [(element, rhs)]) | ('err', why).  rhs = loop value the element is used with (0 outside loops)."""
    k = u[0]
    if k == "int":
        sel = [(u[1], 0)]
    elif k == "colon":
        sel = [(i, 0) for i in range(1, n + 1)]
    elif k == "sl":
        sel = [(i, 0) for i in mrange(u[1], 1, u[2])]
    elif k == "sl3":
        r = mrange(u[1], u[2], u[3])
        if r is None:
            return ("err", "zero step")
        sel = [(i, 0) for i in r]
    elif k == "loop":
        sel = [(i + u[3], i) for i in mrange(u[1], 1, u[2])]
    elif k == "loop3":
        r = mrange(u[1], u[2], u[3])
        if r is None:
            return ("err", "zero step")
        sel = [(i + u[4], i) for i in r]
    elif k == "loopx":
        sel = [(ev(u[3], i), i) for i in mrange(u[1], 1, u[2])]
    elif k == "loopx3":
        r = mrange(u[1], u[2], u[3])
        if r is None:
            return ("err", "zero step")
        sel = [(ev(u[4], i), i) for i in r]
    else:
        raise ValueError(u)
    bad = [e for e, _ in sel if not 1 <= e <= n]
    if bad:
        return ("err", "element %d outside 1..%d" % (bad[0], n))
    return ("ok", sel)


def is_loop(u):
    return u is not None and u[0] in ("loop", "loop3", "loopx", "loopx3")


def expected(case):
    """-> ('err', why, dim) | ('ok', rows) with rows = list of [r, c, rhs]; ordered for 1-D, sorted for 2-D."""
    if case.get("scalar"):
        return ("err", "subscript on a scalar", 0)
    if case.get("func"):
        sp = spec(case["n"], case["u"])
        if sp[0] == "err":
            return ("err", sp[1], 0)
        return ("ok", sorted([e, 1, 0] for e, _ in sp[1]))
    if case.get("nest"):
        # nested for-equations; the outer loop is non-empty; rows compared as a multiset
        no = len(mrange(case["outer"][0], 1, case["outer"][1]))
        if case["nest"] == "1d":
            sp = spec(case["n"], case["u"])
            if sp[0] == "err":
                return ("err", "inner loop: " + sp[1], 0)
            return ("ok", sorted([e, 1, i] for e, i in sp[1]) * 1 if no == 0 else sorted([[e, 1, i] for e, i in sp[1]] * no))
        s1, s2 = spec(case["n"], ["loop", case["outer"][0], case["outer"][1], 0]), spec(case["m"], case["u"])
        if s1[0] == "err":
            return ("err", "outer loop: " + s1[1], 0)
        if s2[0] == "err":
            return ("err", "inner loop: " + s2[1], 1)
        return ("ok", sorted([e1, e2, i] for e1, _ in s1[1] for e2, i in s2[1]))
    if case.get("multi"):
        # consecutive for-equations: each loop judged on its own; rows in loop order, rhs = i + 30*j
        pos, other = case.get("pos"), case.get("other")
        n = case["n"] if pos in (None, 0) else case["m"]
        rows = []
        for j, u in enumerate(case["multi"]):
            sp = spec(n, u)
            if sp[0] == "err":
                return ("err", "loop %d: %s" % (j + 1, sp[1]), 0)
            for e, i in sp[1]:
                rows.append([e, 1, i + 30 * j] if pos is None else ([e, other, i + 30 * j] if pos == 0 else [other, e, i + 30 * j]))
        return ("ok", rows)
    n, m, u, v = case["n"], case.get("m"), case["u"], case.get("v")
    s1 = spec(n, u)
    if v is None:
        if s1[0] == "err":
            return ("err", s1[1], 0)
        return ("ok", [[e, 1, rhs] for e, rhs in s1[1]])
    s2 = spec(m, v)
    if s1[0] == "err":
        return ("err", s1[1], 0)
    if s2[0] == "err":
        return ("err", s2[1], 1)
    rows = []
    for e2, rhs2 in s2[1]:
        for e1, rhs1 in s1[1]:
            rows.append([e1, e2, rhs1 + rhs2])
    return ("ok", sorted(rows))


def outside(n, u):
    """Does the subscript, as written, mention anything outside 1..n?"""
    k = u[0]
    if k == "sl":
        return not (1 <= u[1] <= n and 1 <= u[2] <= n)
    if k == "loop":
        return any(not 1 <= i + u[3] <= n for i in mrange(u[1], 1, u[2]))
    if k == "loopx":
        return any(not 1 <= ev(u[3], i) <= n for i in mrange(u[1], 1, u[2]))
    if k == "int":
        return not 1 <= u[1] <= n
    return False


def tag_of(case, dim=None):
    if case.get("func"):
        return "for-statement-in-function"
    if case.get("nest"):
        return "nested-loops"
    if case.get("multi"):
        return "consecutive-loops"
    if case.get("scalar"):
        return TAG_SCALAR_LOOP if bare(case["u"]) else "subscript-on-scalar"
    subs = [(case["n"], case["u"])] + ([(case["m"], case["v"])] if case.get("v") is not None else [])
    if any(u[0] in ("sl3", "loop3", "loopx3") for _, u in subs):
        return TAG_THREE
    order = subs if dim is None else [subs[dim]] + subs
    for n, u in order:
        if outside(n, u):
            if u[0] == "sl":
                return TAG_SLICE
            if u[0] in ("loop", "loopx"):
                return TAG_LOOP
            return "scalar-outside-1..n"
    return "wrong-selection"


def judge(case, res):
    """Property oracle on the implementation.  None, or (tag, description)."""
    if "crash" in res or "other" in res:
        return ("harness", "no outcome: %s" % json.dumps(res)[:200])
    exp = expected(case)
    if "exc" in res:
        if exp[0] == "err":
            return None
        if not exp[1]:
            return None  # a legal empty selection may be refused
        if case.get("malformed"):
            return None
        return (TAG_THREE if tag_of(case) == TAG_THREE else "legal-subscript-rejected",
                "legal subscript %s rejected with %s: %s"
                % (show(case), res["exc"], res.get("msg", "")[:120]))
    rows = res["sel"]
    got = sorted(rows) if (case.get("func") or case.get("nest")) else (rows if (case.get("v") is None or case.get("multi")) else sorted(rows))
    if exp[0] == "err":
        return (tag_of(case, exp[2]), "%s is out of range (%s) but generation succeeded and selected %s"
                % (show(case), exp[1], [r[:2] for r in rows] or "nothing (the equation disappears)"))
    if got != exp[1]:
        return (tag_of(case), "%s selects [r,c,loop value] %s, Modelica selects %s" % (show(case), got, exp[1]))
    return None


# ---- rendering -----------------------------------------------------------------------------
def lit(k, params):
    """An integer as Modelica source.  A literal -1 is a unary-minus expression that get_integer cannot
    evaluate (unrelated CasADi error), so negatives are written 0-k or through a parameter."""
    if k >= 0:
        return str(k)
    return "(0-%d)" % -k


def sub_text(u):
    k = u[0]
    if k == "int":
        return lit(u[1], None)
    if k == "colon":
        return ":"
    if k == "sl":
        return "%s:%s" % (lit(u[1], None), lit(u[2], None))
    if k == "sl3":
        return "%s:%s:%s" % (lit(u[1], None), lit(u[2], None), lit(u[3], None))
    if k in ("loopx", "loopx3"):
        return ex_text(u[-1])
    off = u[-1]
    return "i" if off == 0 else ("i+%d" % off if off > 0 else "i-%d" % -off)


def loop_text(u):
    if u[0] in ("loop", "loopx"):
        return "%d:%s" % (u[1], lit(u[2], None))
    return "%d:%d:%s" % (u[1], u[2], lit(u[3], None)) if False else "%d:%s:%s" % (u[1], lit(u[2], None), lit(u[3], None))


SCALAR_FORMS = {
    # form: (classes, declaration, reference with %s for the subscript, flattened name, what it is)
    "plain": ("", "Real x;", "x[%s]", "x", "Real x"),
    "member": ("model A\n  Real x;\n  Real v[3];\nend A;\n", "A a[2];", "a[1].x[%s]", "a.x", "scalar member x of A a[2]"),
    "component": ("model A\n  Real x;\n  Real v[3];\nend A;\n", "A a;", "a[%s].v[1]", "a.v", "scalar component A a"),
}


def render_scalar(case):
    classes, decl, ref, target, _ = SCALAR_FORMS[case["scalar"]]
    u = case["u"]
    ref = ref % sub_text(u)
    if is_loop(u):
        eq = "  for i in %s loop\n    %s = i;\n  end for;" % (loop_text(u), ref)
    else:
        eq = "  %s = 0;" % ref
    return "%smodel M\n  %s\nequation\n%s\nend M;\n" % (classes, decl, eq), [], target


def render_multi(case):
    pos, other = case.get("pos"), case.get("other")
    dims = [case["n"]] if pos is None else [case["n"], case["m"]]
    eqs = []
    for j, u in enumerate(case["multi"]):
        t = sub_text(u)
        ref = "x[%s]" % (t if pos is None else ("%s, %d" % (t, other) if pos == 0 else "%d, %s" % (other, t)))
        eqs.append("  for i in %s loop\n    %s = i%s;\n  end for;" % (loop_text(u), ref, "+%d" % (30 * j) if j else ""))
    return "model M\n  Real x[%s];\nequation\n%s\nend M;\n" % (", ".join(map(str, dims)), "\n".join(eqs)), dims


def render_func(case):
    n, u = case["n"], case["u"]
    txt = ("function f\n  input Real x[%d];\n  output Real s;\nalgorithm\n  s := 0;\n  for i in %s loop\n    s := s + x[%s];\n  end for;\nend f;\n"
           "model M\n  Real x[%d];\n  Real b;\nequation\n  b = f(x);\nend M;\n" % (n, loop_text(u), sub_text(u), n))
    return txt, [n]


def render_nest(case):
    a, b = case["outer"]
    on = case.get("outer_name", "j")
    if case["nest"] == "1d":
        dims, ref = [case["n"]], "x[%s]" % sub_text(case["u"])
    else:
        dims, ref = [case["n"], case["m"]], "x[%s, %s]" % (on, sub_text(case["u"]))
    eq = "  for %s in %d:%s loop\n    for i in %s loop\n      %s = i;\n    end for;\n  end for;" % (on, a, lit(b, None), loop_text(case["u"]), ref)
    return "model M\n  Real x[%s];\nequation\n%s\nend M;\n" % (", ".join(map(str, dims)), eq), dims


def render(case):
    if case.get("scalar"):
        return render_scalar(case)[:2]
    if case.get("func"):
        return render_func(case)
    if case.get("nest"):
        return render_nest(case)
    if case.get("multi"):
        return render_multi(case)
    n, m, u, v = case["n"], case.get("m"), case["u"], case.get("v")
    dims = [n] if v is None else [n, m]
    subs = [u] if v is None else [u, v]
    ref = "x[%s]" % ", ".join(sub_text(s) for s in subs)
    loops = [s for s in subs if is_loop(s)]
    if loops:
        eq = "  for i in %s loop\n    %s = i;\n  end for;" % (loop_text(loops[0]), ref)
    else:
        eq = "  %s = 0;" % ref
    if case.get("via_param"):
        # same subscript, the first integer supplied through a parameter
        pass
    return "model M\n  Real x[%s];\nequation\n%s\nend M;\n" % (", ".join(map(str, dims)), eq), dims


def show(case):
    txt, _ = render(case)
    body = txt.split("equation\n")[1].rsplit("\nend M", 1)[0]
    if case.get("func"):
        return "`function f(Real x[%d]) algorithm %s`" % (case["n"], " ".join(txt.split("s := 0;")[1].split("end f;")[0].split()))
    if case.get("scalar"):
        return "`%s; %s`" % (SCALAR_FORMS[case["scalar"]][4], " ".join(body.split()))
    return "`Real x[%s]; %s`" % (", ".join(str(d) for d in render(case)[1]), " ".join(body.split()))


def child_case(case):
    if case.get("scalar"):
        txt, dims, target = render_scalar(case)
        return {"text": txt, "dims": dims, "params": {}, "target": target}
    txt, dims = render(case)
    if case.get("func"):
        return {"text": txt, "dims": dims, "params": {}, "decode": "powers"}
    return {"text": txt, "dims": dims, "params": {}}


# ---- generators -----------------------------------------------------------------------------
def window_1d(n, w=2):
    lo, hi = -w, n + w
    R = range(lo, hi + 1)
    out = [["int", i] for i in R] + [["colon"]]
    out += [["sl", a, b] for a in R for b in R]
    return out


def loops_1d(n, w=2):
    out = []
    for a in range(0, n + w + 1):
        for b in range(-1, n + w + 1):
            for off in (0, 0, 1, -1, -2, 2, -n, -n - 1):
                out.append(["loop", a, b, off])
    return out


def three_1d(n, w=2):
    out = []
    R = range(-w, n + w + 1)
    for a in R:
        for b in R:
            for c in R:
                out.append(["sl3", a, b, c])
    for a in range(0, n + w + 1):
        for b in range(0, n + w + 1):      # start and step are read as literals (.value): non-negative
            for c in range(0, n + w + 1):
                for off in (0, 0, -1, 1):
                    out.append(["loop3", a, b, c, off])
    return out


def exprs(n):
    """index expressions beyond i+k: k-i, 2*i-k, (i-k)*(i-k)[+1], i*i-k, and the bare variable"""
    i = ["i"]
    out = [i]
    out += [["sub", ["c", k], i] for k in range(0, n + 3)]
    out += [["sub", ["mul", ["c", 2], i], ["c", k]] for k in range(0, 4)]
    for k in range(1, 4):
        d = ["sub", i, ["c", k]]
        out += [["mul", d, d], ["add", ["mul", d, d], ["c", 1]]]
    out += [["sub", ["mul", i, i], ["c", k]] for k in range(0, 3)]
    return out


def loopx_1d(n):
    return [["loopx", a, b, e] for a in range(0, 4) for b in range(a - 1, n + 2) for e in exprs(n)]


def scalar_cases():
    subs = [["int", k] for k in (-1, 0, 1, 2)] + [["colon"]]
    subs += [["sl", a, b] for a in (0, 1, 2) for b in (0, 1, 2)] + [["sl", -1, 1]]
    subs += [["sl3", 1, 1, 1], ["sl3", 1, 1, 2], ["sl3", 0, 1, 1]]
    subs += [["loop", a, b, 0] for a, b in ((1, 1), (1, 2), (0, 0), (1, 0), (0, 1), (2, 2))]
    subs += [["loop", 1, 1, 1], ["loop", 2, 2, -1], ["loop", 1, 0, 1], ["loop3", 1, 1, 1, 0], ["loop3", 1, 1, 1, 1]]
    subs += [["loopx", 1, 1, ["i"]], ["loopx", 1, 1, ["sub", ["c", 2], ["i"]]], ["loopx", 1, 2, ["mul", ["i"], ["i"]]]]
    return [{"scalar": f, "u": u} for f in ("plain", "member", "component") for u in subs]


def dedup(cases):
    seen, out = set(), []
    for c in cases:
        k = json.dumps(c, sort_keys=True)
        if k not in seen:
            seen.add(k)
            out.append(c)
    return out


def is_zero_step(u):
    return u[0] in ("sl3", "loop3", "loopx3") and (u[2] == 0 or u[3] == 0)


def multi_cases(rng, sizes, count, count2d):
    """two or three consecutive for-equations over the same index name with the same subscript expression,
    equal start and iteration count but different steps (and stops)"""
    i = ["i"]
    out = []
    while len(out) < count + count2d:
        n = rng.choice([x for x in sizes if x >= 2] or [3])
        k = rng.choice([2, 2, 3])                      # iterations
        a = rng.choice([0, 1, 1, 2])
        nl = rng.choice([2, 2, 3])
        steps = rng.sample([1, 2, 3], nl)
        if rng.random() < 0.3:
            steps = [steps[0]] * nl                    # same step, different slack in stop
        fam = rng.random()
        c = rng.randint(0, n + 2)
        if fam < 0.35:
            e = ["add", i, ["c", c % 3]] if rng.random() < 0.5 else ["sub", i, ["c", 1 + c % 2]]
        elif fam < 0.7:
            e = ["sub", ["c", c + 1], i]
        else:
            e = ["sub", ["mul", ["c", 2], i], ["c", c % 4]]
        loops = []
        for st in steps:
            stop = a + (k - 1) * st + (rng.randrange(st) if rng.random() < 0.4 else 0)
            loops.append(["loopx", a, stop, e] if st == 1 else ["loopx3", a, st, stop, e])
        case = {"n": n, "multi": loops}
        if len(out) >= count:
            m = rng.choice(sizes)
            pos = rng.randrange(2)
            case = {"n": n if pos == 0 else m, "m": m if pos == 0 else n, "multi": loops, "pos": pos,
                    "other": rng.randint(1, m)}
        out.append(case)
    return out


def func_and_nest_cases(rng, sizes, nf, nn, mod3):
    out = []
    for _ in range(nf):
        n = rng.choice(sizes)
        r = rng.random()
        if r < 0.35:
            u = rng.choice(loops_1d(n))
        elif r < 0.8 or not mod3:
            u = rng.choice(loopx_1d(n))
        else:
            a = rng.randint(1, n + 1)
            u = ["loopx3", a, -rng.choice([1, 2]), rng.randint(0, a), rng.choice(exprs(n))]
        if len(mrange(u[1], u[2] if u[0] == "loopx3" else 1, u[3] if u[0] == "loopx3" else u[2])) > 6:
            continue
        out.append({"func": True, "n": n, "u": u})
    for _ in range(nn):
        n, m = rng.choice(sizes), rng.choice(sizes)
        u = rng.choice(loops_1d(m)) if rng.random() < 0.7 else rng.choice(loopx_1d(m))
        if True:   # the 2-D form x[j, i] is outside the backend's subset (index_expr with a free outer variable)
            a = rng.randint(0, 2)
            c = {"nest": "1d", "n": m, "u": u, "outer": [a, a + rng.randint(0, 2)], "outer_name": rng.choice(["i", "i", "j"])}
        else:
            a = rng.randint(0, 1)
            c = {"nest": "2d", "n": n, "m": m, "u": u, "outer": [a, a + rng.randint(0, n)], "outer_name": "j"}
        out.append(c)
    return out


def neg_step_slices(n):
    return [["sl3", a, st, b] for a in range(-1, n + 3) for st in (-1, -2) for b in range(-2, n + 2)]


def gen_cases(ctx, cfg=None):
    rng = ctx.rng
    cases = []
    sizes = ctx.scaled([1, 2, 3], [1, 2, 3, 4, 5])
    # 1-D: the whole window of scalar subscripts and two-part slices, a sample of loops and three-part ranges
    for n in sizes:
        for u in window_1d(n, ctx.scaled(2, 3)):
            cases.append({"n": n, "u": u})
        L = dedup([{"n": n, "u": u} for u in loops_1d(n)])
        rng.shuffle(L)
        cases += L[:ctx.scaled(40, 400)]
        T = dedup([{"n": n, "u": u} for u in three_1d(n)])
        if cfg and cfg.get("mod3"):
            # start:step:stop with a negative (non-literal) step is evaluated by get_integer in the repaired tree
            T += [{"n": n, "u": ["loop3", a, -st, b, off]} for a in range(0, n + 3) for st in (1, 2, 3)
                  for b in range(-1, n + 2) for off in (0, 0, 1, -1)]
        rng.shuffle(T)
        cases += T[:ctx.scaled(30, 500)]
        X = [{"n": n, "u": u} for u in loopx_1d(n)]
        rng.shuffle(X)
        cases += X[:ctx.scaled(30, 300)]
    # subscripts on scalars (plain, scalar member of a component array, scalar component): all of them
    cases += scalar_cases()
    if cfg and cfg.get("mod3"):
        # descending constant slices start:step:stop incl. stop <= 0 and start > n: the whole window
        for n in ctx.scaled([2, 3], [1, 2, 3, 4]):
            cases += [{"n": n, "u": u} for u in neg_step_slices(n)]
        cases += multi_cases(rng, sizes, ctx.scaled(50, 700), ctx.scaled(16, 200))
    # for-STATEMENTS in a function body called from the model, and NESTED for-equations (inner index may hide the outer one)
    cases += func_and_nest_cases(rng, sizes, ctx.scaled(50, 600), ctx.scaled(50, 600), bool(cfg and cfg.get("mod3")))
    # 2-D without a loop: scalar / colon / slice in both positions
    two = []
    for n, m in itertools.product(ctx.scaled([1, 2, 3], [1, 2, 3, 4]), repeat=2):
        W1 = window_1d(n, 1) + [["int", -2], ["int", n + 2], ["sl", -2, n], ["sl", 1, n + 2]]
        W2 = window_1d(m, 1) + [["int", -2], ["int", m + 2], ["sl", -2, m], ["sl", 1, m + 2]]
        for _ in range(ctx.scaled(22, 300)):
            u, v = rng.choice(W1), rng.choice(W2)
            if rng.random() < 0.08:
                u = rng.choice(three_1d(n, 1)[: (n + 3) ** 3])
            elif cfg and cfg.get("mod3") and rng.random() < 0.2:
                if rng.random() < 0.5:
                    u = rng.choice(neg_step_slices(n))
                else:
                    v = rng.choice(neg_step_slices(m))
            two.append({"n": n, "m": m, "u": u, "v": v})
    # 2-D with the loop variable in one position; the other position a scalar (any), ':' or a
    # non-empty in-range slice (an empty other dimension makes the generator skip the loop mapping
    # altogether, a different mechanism)
    for n, m in itertools.product(ctx.scaled([1, 2, 3], [1, 2, 3, 4]), repeat=2):
        for _ in range(ctx.scaled(24, 250)):
            pos = rng.randrange(2)
            dl, do = (n, m) if pos == 0 else (m, n)
            lp = rng.choice(loops_1d(dl))
            if rng.random() < 0.3:
                lp = rng.choice(loopx_1d(dl))
            elif rng.random() < 0.1:
                lp = ["loop3", rng.randint(0, dl + 1), rng.randint(1, 3), rng.randint(0, dl + 2), rng.choice([0, 0, -1, 1])]
            kind = rng.random()
            if kind < 0.45:
                other = ["int", rng.randint(-1, do + 2)]
            elif kind < 0.7:
                other = ["colon"]
            else:
                a = rng.randint(1, do)
                other = ["sl", a, rng.randint(a, do)]
            c = {"n": n, "m": m}
            c["u"], c["v"] = (lp, other) if pos == 0 else (other, lp)
            two.append(c)
    cases += two
    cases = dedup(cases)
    for c in cases:
        if c.get("multi"):
            continue
        if is_zero_step(c["u"]) or (c.get("v") is not None and is_zero_step(c["v"])):
            c["malformed"] = True
    return cases


# the inputs that decide which repairs the tree under test contains
PROBES = [
    ("chk_slice", {"n": 3, "u": ["sl", 0, 2]}),
    ("chk_slice", {"n": 3, "u": ["sl", -1, 2]}),
    ("chk_loop", {"n": 3, "u": ["loop", 0, 3, 0]}),
    ("chk_loop", {"n": 3, "u": ["loop", 1, 3, -1]}),
    ("mod3", {"n": 3, "u": ["sl3", 1, 3, 2]}),
    ("mod3", {"n": 5, "u": ["loop3", 1, 3, 2, 0]}),
    ("empty_ok", {"n": 3, "u": ["loop", 3, 1, 1]}),
    ("empty_ok", {"n": 2, "u": ["loop", 2, 1, -1]}),
    ("chk_scalar_loop", {"scalar": "plain", "u": ["loop", 1, 1, 0]}),
    ("chk_scalar_loop", {"scalar": "member", "u": ["loop", 1, 1, 0]}),
]


def derive_cfg(ctx):
    res = core.run_child(ctx, "c23", [child_case(c) for _, c in PROBES])
    votes = {"chk_slice": [], "chk_loop": [], "mod3": [], "empty_ok": [], "chk_scalar_loop": []}
    for (flag, c), r in zip(PROBES, res):
        if flag == "empty_ok":
            votes[flag].append(r.get("sel") == [])
        elif flag == "mod3":
            votes[flag].append(r.get("sel") is not None and [x[0] for x in r["sel"]] == [1])
        else:
            votes[flag].append(r.get("exc") == "ValueError")
    # fail closed: a flag is "repaired" only... no: the model of the REPAIRED code is the one the positive
    # theorem is about, so mixed votes select it and the correspondence then shows the disagreement.
    cfg = {k: any(v) for k, v in votes.items()}
    return cfg, votes, res


def cfg_term(cfg):
    return "(Cfg %s)" % " ".join(cq_bool(cfg[k]) for k in ("chk_slice", "chk_loop", "mod3", "empty_ok", "chk_scalar_loop"))


def enc_sub(u):
    k = u[0]
    if k == "int":
        return "(Int %s)" % cq_Z(u[1])
    if k == "colon":
        return "Colon"
    if k == "loopx":
        return "(LoopX %s %s %s)" % (cq_Z(u[1]), cq_Z(u[2]), ex_coq(u[3]))
    if k == "loopx3":
        return "(LoopX3 %s %s %s %s)" % (cq_Z(u[1]), cq_Z(u[2]), cq_Z(u[3]), ex_coq(u[4]))
    name = {"sl": "Sl", "sl3": "Sl3", "loop": "LoopV", "loop3": "LoopV3"}[k]
    return "(%s %s)" % (name, " ".join(cq_Z(x) for x in u[1:]))


def encode(case, res):
    if "exc" in res:
        kind, sel = (1 if res["exc"] == "ValueError" else 2), []
    else:
        kind = 0
        if case.get("func") or case.get("nest"):
            sel = sorted(r[0] for r in res["sel"])
        elif case.get("scalar") or case.get("multi") or case.get("v") is None:
            sel = [r[0] for r in res["sel"]]
        else:
            sel = sorted(r[0] * 100 + r[1] for r in res["sel"])
    if case.get("func"):
        return "(%s, %s, %s, %s)" % (cq_Z(case["n"]), enc_sub(case["u"]), cq_Z(kind), cq_list([cq_Z(x) for x in sel]))
    if case.get("nest"):
        return "(%s, %s, %s, %s, %s, %s, %s)" % (cq_Z(case["n"]), cq_Z(case["outer"][0]), cq_Z(case["outer"][1]), enc_sub(case["u"]),
                                                 cq_bool(case.get("outer_name") == "i"), cq_Z(kind), cq_list([cq_Z(x) for x in sel]))
    if case.get("multi"):
        return "(%s, %s, %s, %s)" % (cq_Z(case["n"]), cq_list([enc_sub(u) for u in case["multi"]]), cq_Z(kind),
                                     cq_list([cq_Z(x) for x in sel]))
    if case.get("scalar"):
        k = {"plain": 1, "member": 1, "component": 3}[case["scalar"]]   # size1() of what the loop variable indexes
        return "(%s, %s, %s, %s)" % (cq_Z(k), enc_sub(case["u"]), cq_Z(kind), cq_list([cq_Z(x) for x in sel]))
    d2 = "None" if case.get("v") is None else "(Some (%s, %s))" % (cq_Z(case["m"]), enc_sub(case["v"]))
    return "(%s, %s, %s, %s, %s)" % (cq_Z(case["n"]), enc_sub(case["u"]), d2, cq_Z(kind), cq_list([cq_Z(x) for x in sel]))


def still_fails_factory(ctx):
    def still_fails(entry):
        case = (entry.get("replay") or {}).get("input")
        if not case:
            return None
        r = core.run_child(ctx, "c23", [child_case(case)])[0]
        why = judge(case, r)
        return bool(why) and why[0] == entry.get("tag")
    return still_fails


def run_children(ctx, ccases, workers=3):
    """core.run_child on `workers` contiguous chunks in parallel (each child is single-threaded)."""
    from concurrent.futures import ThreadPoolExecutor
    k = max(1, (len(ccases) + workers - 1) // workers)
    chunks = [ccases[i:i + k] for i in range(0, len(ccases), k)]
    with ThreadPoolExecutor(max_workers=workers) as ex:
        parts = list(ex.map(lambda ch: core.run_child(ctx, "c23", ch, timeout=1500), chunks))
    return [r for part in parts for r in part]


def run(ctx):
    core.check_props(ctx, "C23.v", THEOREMS)
    fp, nfp = core.fingerprint(core.REPO + "/src/pymoca/backends/casadi/generator.py", {"ForLoop", "get_indexed_symbol", "get_integer"})
    ctx.notes["source_fingerprint"] = {"generator.py:ForLoop+get_indexed_symbol+get_integer": fp}
    cfg, votes, probe_res = derive_cfg(ctx)
    ctx.notes["model_configuration"] = {"cfg": cfg, "probe_votes": votes,
                                        "meaning": "which repairs the tree under test contains, read off its behaviour; "
                                                   "C23_checked_exact applies when chk_slice, chk_loop, empty_ok (and mod3 for three-part ranges) are true"}
    ctx.oblige("configuration:probes-agree", all(len(set(v)) == 1 for v in votes.values()),
               "probe votes %s" % votes)
    cases = []
    try:
        cases += json.load(open(core.VERIF + "/corpus/C23/cases.json"))
    except OSError:
        pass
    n_corpus = len(cases)
    cases += gen_cases(ctx, cfg)
    results = run_children(ctx, [child_case(c) for c in cases])
    # (a) property oracle
    dist = {"int": 0, "colon": 0, "sl": 0, "sl3": 0, "loop": 0, "loop3": 0, "loopx": 0, "two_d": 0, "on_scalar": 0, "expected_error": 0,
            "expected_selection": 0, "impl_ValueError": 0, "impl_other_exception": 0, "impl_selection": 0}
    nontrivial = set()
    harness_bad = []
    for c, r in zip(cases, results):
        for kk in ("func", "nest"):
            if c.get(kk):
                dist[kk] = dist.get(kk, 0) + 1
        if c.get("multi"):
            dist["consecutive_loops"] = dist.get("consecutive_loops", 0) + 1
            c = dict(c, u=c["multi"][0])
        dist[c["u"][0]] = dist.get(c["u"][0], 0) + 1
        if c.get("scalar"):
            dist["on_scalar"] += 1
        if c.get("v") is not None:
            dist[c["v"][0]] += 1
            dist["two_d"] += 1
        e = expected(c)
        dist["expected_error" if e[0] == "err" else "expected_selection"] += 1
        dist["impl_selection" if "sel" in r else ("impl_ValueError" if r.get("exc") == "ValueError" else "impl_other_exception")] += 1
        why = judge(c, r)
        if why:
            if why[0] == "harness":
                harness_bad.append((c, r))
            core.report(ctx, why[0], why[1], {"input": c, "model_source": render(c)[0], "observed": r})
        if e[0] == "err" or len(e[1]) >= 1:
            nontrivial.add(json.dumps([c.get("scalar"), c.get("n"), c.get("m"), c["u"], c.get("v"), c.get("multi"), c.get("pos"), c.get("other")]))
    # (b) correspondence, inside Coq
    idx = [i for i, r in enumerate(results) if ("sel" in r or "exc" in r) and not cases[i].get("scalar") and not cases[i].get("multi")
           and not cases[i].get("func") and not cases[i].get("nest")]
    # function for-statements and nested for-equations go through the model as multisets
    nidx = [i for i, r in enumerate(results) if ("sel" in r or "exc" in r) and cases[i].get("nest") == "1d"]
    fidx = [i for i, r in enumerate(results) if ("sel" in r or "exc" in r) and cases[i].get("func")]
    # consecutive for-equations: 1-D ones go through the model, the 2-D variants are judged by the oracle only
    midx = [i for i, r in enumerate(results) if ("sel" in r or "exc" in r) and cases[i].get("multi") and cases[i].get("pos") is None]
    sidx = [i for i, r in enumerate(results) if ("sel" in r or "exc" in r) and cases[i].get("scalar")]
    bad = core.coq_eval_cases(ctx, "idx", PREAMBLE, "Z * sub * option (Z * sub) * Z * list Z",
                              [encode(cases[i], results[i]) for i in idx], "check_case %s" % cfg_term(cfg), shard=200)
    sbad = core.coq_eval_cases(ctx, "scalar", PREAMBLE, "Z * sub * Z * list Z",
                               [encode(cases[i], results[i]) for i in sidx], "check_scalar %s" % cfg_term(cfg), shard=400)
    mbad = core.coq_eval_cases(ctx, "multi", PREAMBLE, "Z * list sub * Z * list Z",
                               [encode(cases[i], results[i]) for i in midx], "check_multi %s" % cfg_term(cfg), shard=400)
    fbad = core.coq_eval_cases(ctx, "func", PREAMBLE, "Z * sub * Z * list Z",
                               [encode(cases[i], results[i]) for i in fidx], "check_func %s" % cfg_term(cfg), shard=400)
    nbad = core.coq_eval_cases(ctx, "nested", PREAMBLE, "Z * Z * Z * sub * bool * Z * list Z",
                               [encode(cases[i], results[i]) for i in nidx], "check_nested %s" % cfg_term(cfg), shard=400)
    mism = None if None in (bad, sbad, mbad, fbad, nbad) else ([idx[j] for j in bad] + [sidx[j] for j in sbad] + [midx[j] for j in mbad]
                                                               + [fidx[j] for j in fbad] + [nidx[j] for j in nbad])
    ctx.oblige("correspondence:model-vs-get_indexed_symbol+ForLoop", mism == [] and not harness_bad,
               "cfg=%s; mismatching: %s" % (cfg, [(show(cases[i]), results[i]) for i in (mism or [])[:6]]))
    if mism and not [v for v in ctx.violations if not v["no_input"]]:
        i = mism[0]
        core.violation(ctx, "correspondence-broken",
                       {"correspondence": "Model/C23_index.v check_case vs generator.py", "cfg": cfg,
                        "input": cases[i], "model_source": render(cases[i])[0], "observed": results[i],
                        "note": "the implementation's outcome differs from the model (e.g. another exception class than "
                                "the range check's ValueError) but the property oracle found no out-of-range subscript "
                                "that was accepted or reinterpreted"}, no_input=True)
    core.replay_known(ctx, still_fails_factory(ctx))
    ctx.cov["evaluations"] = len(cases)
    ctx.cov["distinct_nontrivial"] = len(nontrivial)
    ctx.cov["rule"] = ("generated Modelica models `Real x[n]` / `Real x[n,m]` with one equation or for-equation whose "
                       "subscripts come from: every scalar and two-part slice with bounds in [-2,n+2] (1-D, exhaustive), "
                       "samples of for-loops with offsets and with non-affine index expressions (k-i, 2*i-k, (i-k)*(i-k), i*i-k), three-part ranges, "
                       "2-D combinations, every subscript form on scalar symbols (plain, member of a component array, component), the whole window of "
                       "descending constant slices a:-1|-2:b, and models with two or three consecutive for-equations sharing the subscript "
                       "expression, start and iteration count but not the step; distinct by "
                       "(n, m, subscripts); non-trivial = expected error or a non-empty selection; corpus %d" % n_corpus)
    ctx.cov["samples"] = [show(cases[n_corpus + 5]), show(cases[len(cases) // 2]), show(cases[-1])]
    ctx.notes["input_distribution"] = dist
    ctx.assumptions += [
        "one dimension at a time: the model gives the selection per dimension and the 2-D selection as the product; the "
        "2-D code paths (s[:, j] then mapping the loop over the column) are covered by the correspondence, not proved",
        "CasADi's slice / index-vector semantics (ca_slice, ca_wrap) and NumPy's arange are modelled from their observed "
        "behaviour (validated on a window n<=4, bounds in [-7,7], steps -2..3) and exercised through generate() on every run",
        "subscripts are integer constants after get_integer(); subscripts depending on variables are out of scope",
        "the model's configuration flags (chk_slice, chk_loop, mod3, empty_ok, chk_scalar_loop) are read off the behaviour of the tree "
        "under test on ten probe inputs; C23_checked_exact / C23_repo_now_two_part apply to (true, true, _, true), three-part ranges need mod3",
    ]


def replay(ctx, path):
    rec = json.load(open(path))
    case = rec.get("input")
    res = core.run_child(ctx, "c23", [child_case(case)])[0]
    why = judge(case, res)
    print("replay:", show(case), "->", json.dumps(res)[:200])
    print("verdict:", ("%s: %s" % why) if why else "property holds on this input")
    return 1 if why else 0
