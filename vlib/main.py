import argparse
import importlib
import os
import sys
import traceback

from . import core


def main():
    ap = argparse.ArgumentParser()
    ap.add_argument("pid")
    ap.add_argument("--tier", default=os.environ.get("VERIF_TIER", "quick"), choices=["quick", "thorough"])
    ap.add_argument("--seed", type=int, default=int(os.environ.get("VERIF_SEED", "1")))
    ap.add_argument("--replay", default=None)
    a = ap.parse_args()
    pid = a.pid.upper()
    mod = importlib.import_module("vlib.%s" % pid.lower())
    ctx = core.Ctx(pid, a.tier, a.seed)
    try:
        if a.replay:
            rc = mod.replay(ctx, a.replay)
            ctx.cleanup()
            sys.exit(rc)
        ok, log = core.static_build(ctx, target="Props/%s.vo" % pid)
        ctx.oblige("static-build:make Props/%s.vo" % pid, ok, log)
        hits = core.forbidden_scan("Props/%s.v" % pid)
        ctx.oblige("no-admit-no-axiom-grep", not hits, "; ".join(hits[:10]))
        ctx.trusted.append("Coq 8.16.1 kernel via coqc (full .vo build), vm_compute for tie side conditions and "
                           "correspondence evaluation; no native_compute")
        mod.run(ctx)
        rc = core.finish(ctx)
    except Exception:
        traceback.print_exc()
        # a harness failure is not a property verdict; report as broken so it is never silently green
        ctx.oblige("harness", False, traceback.format_exc()[-1500:])
        rc = core.finish(ctx)
        rc = rc or 1
    sys.exit(rc)


if __name__ == "__main__":
    main()
