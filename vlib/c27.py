"""C27 - assembling a library from several files is order-independent.

Part 1 of this module is the generator of Modelica package libraries and of their splits into files:
a library is a forest of class nodes (dicts); `render_*` turn it into Modelica text, either as one
unsplit text or as 2-4 files with `within` clauses.  All random choices come from the rng passed in.
Part 2 is the check (oracle on the implementation, correspondence with Model/C27_merge.v, replay)."""
import itertools
import json
from concurrent.futures import ThreadPoolExecutor

from . import core
from .core import cq_bool, cq_nat, cq_pos


def cq_list(items):
    """cons/nil chains: Coq's recursive [a; b] notation is slow to parse on deeply nested literals."""
    out = "nil"
    for x in reversed(items):
        out = "(cons %s %s)" % (x, out)
    return out

PKG_NAMES = ["P", "Q", "R", "S", "Lib", "Util", "Media"]
MODEL_NAMES = ["M", "A", "B", "Base", "Tank", "Sub", "Sys"]
CONST_NAMES = ["k", "c", "g0", "rho", "tau"]
VAR_NAMES = ["x", "y", "z", "u", "w", "h"]
PAR_NAMES = ["a", "b", "g", "p"]


def _pick_name(rng, pool, used):
    free = [n for n in pool if n not in used]
    n = rng.choice(free) if free else "%s%d" % (rng.choice(pool), len(used))
    used.add(n)
    return n


class Lib:
    def __init__(self, rng, maxdepth):
        self.rng = rng
        self.maxdepth = maxdepth
        self.consts = []   # fq tuples
        self.models = []   # dict(path=fq tuple, vars=[...], pars=[...], conn=bool)
        self.funcs = []    # fq tuples
        self.conns = []    # fq tuples
        self.pkgs = []     # fq tuples
        self.nid = 0
        self.budget = rng.randint(5, 12)   # classes still to be created
        self.pkgused = set()               # package names are unique library-wide

    def new(self, kind, name, path):
        self.nid += 1
        return {"id": self.nid, "kind": kind, "name": name, "path": tuple(path) + (name,),
                "comment": "", "enc": False, "partial": False, "final": False,
                "lines": [], "eqs": [], "alg": [], "children": [], "annotation": False}

    # ---- references --------------------------------------------------------------------------
    def ref(self, scope, target, aliases=()):
        """Name of `target` (fq tuple) usable inside a class whose enclosing packages are `scope`:
        fully qualified, or relative from any enclosing package; always at least 2 identifiers when
        `target` has them (pymoca only pulls QUALIFIED constant references into the flat model)."""
        rng = self.rng
        opts = [target]
        for i in range(1, len(target) - 1):
            if tuple(target[:i]) == tuple(scope[:i]):
                opts.append(target[i:])
        for alias, fq in aliases:
            if tuple(target[:len(fq)]) == tuple(fq) and len(target) > len(fq):
                opts.append((alias,) + tuple(target[len(fq):]))
        return ".".join(rng.choice(opts))

    def expr(self, scope, terms, aliases, depth=0):
        rng = self.rng
        x = rng.random()
        if depth >= 2 or x < 0.35:
            y = rng.random()
            if y < 0.35 and self.consts:
                return self.ref(scope, rng.choice(self.consts), aliases)
            if y < 0.75 and terms:
                return rng.choice(terms)
            return "%d.%d" % (rng.randint(0, 9), rng.randint(0, 9))
        if x < 0.45 and self.funcs:
            return "%s(%s)" % (self.ref(scope, rng.choice(self.funcs), aliases),
                               self.expr(scope, terms, aliases, depth + 1))
        op = rng.choice(["+", "-", "*", "*"])
        return "%s %s %s" % (self.expr(scope, terms, aliases, depth + 1), op,
                             self.expr(scope, terms, aliases, depth + 1))

    # ---- classes -----------------------------------------------------------------------------
    def gen_package(self, path, depth, used, aliases=()):
        rng = self.rng
        pname = _pick_name(rng, PKG_NAMES, self.pkgused)
        used.add(pname)
        node = self.new("package", pname, path)
        self.budget -= 1
        me = node["path"]
        if rng.random() < 0.4:
            node["comment"] = "package %s" % ".".join(me)
        node["enc"] = rng.random() < 0.04
        node["partial"] = rng.random() < 0.04
        node["annotation"] = rng.random() < 0.1
        aliases = list(aliases)
        if self.pkgs and rng.random() < 0.3:
            tgt = rng.choice(self.pkgs)
            # (an import whose short name equals the first identifier of its target sends pymoca's
            #  _find_class into unbounded recursion whatever the file order - not generated)
            if rng.random() < 0.5 or len(tgt) < 2:
                alias = "I%d" % node["id"]
                node["lines"].append("import %s = %s;" % (alias, ".".join(tgt)))
            else:
                alias = tgt[-1]
                node["lines"].append("import %s;" % ".".join(tgt))
            aliases.append((alias, tgt))
        if self.pkgs and rng.random() < 0.08:
            node["lines"].append("import %s.*;" % ".".join(rng.choice(self.pkgs)))
        self.pkgs.append(me)
        cused = set()
        inner = set()
        ncons = rng.choice([0, 1, 1, 2, 3]) if depth else rng.choice([1, 1, 2, 3])
        for _ in range(ncons):
            cn = _pick_name(rng, CONST_NAMES, cused)
            val = self.expr(me, [], aliases, 1) if rng.random() < 0.4 else "%d.%d" % (rng.randint(1, 9), rng.randint(0, 9))
            node["lines"].append("constant Real %s = %s;" % (cn, val))
            self.consts.append(me + (cn,))
        inner |= cused
        kinds = []
        if depth < self.maxdepth:
            kinds += ["package"] * rng.choice([1, 1, 2] if depth == 0 else [0, 1, 1, 2])
        kinds += ["model"] * rng.choice([1, 1, 2, 3] if depth else [0, 1, 2])
        if rng.random() < 0.25:
            kinds.append("function")
        if rng.random() < 0.25:
            kinds.append("connector")
        rng.shuffle(kinds)
        for k in kinds:
            if self.budget <= 0 and (node["children"] or k != "model"):
                continue
            if k == "package":
                node["children"].append(self.gen_package(me, depth + 1, inner, aliases))
            elif k == "model":
                node["children"].append(self.gen_model(me, inner, aliases))
            elif k == "function":
                node["children"].append(self.gen_function(me, inner))
            else:
                node["children"].append(self.gen_connector(me, inner))
        return node

    def gen_function(self, path, used):
        node = self.new("function", _pick_name(self.rng, ["f", "sq", "lim"], used), path)
        node["lines"] = ["input Real u;", "output Real v;"]
        node["alg"] = ["v := %d.0 * u + %d.5;" % (self.rng.randint(1, 5), self.rng.randint(0, 3))]
        self.funcs.append(node["path"])
        return node

    def gen_connector(self, path, used):
        node = self.new("connector", _pick_name(self.rng, ["Pin", "Port"], used), path)
        node["lines"] = ["Real e;", "flow Real f;"]
        self.conns.append(node["path"])
        return node

    def gen_model(self, path, used, aliases=()):
        rng = self.rng
        node = self.new(rng.choice(["model", "model", "model", "class", "block"]),
                        _pick_name(rng, MODEL_NAMES, used), path)
        self.budget -= 1
        if rng.random() < 0.25:
            node["comment"] = "model %s" % node["name"]
        info = {"path": node["path"], "vars": [], "pars": [], "conn": None}
        terms = []
        used_local = set()
        # extends
        if self.models and rng.random() < 0.45:
            base = rng.choice(self.models)
            mod = ""
            if base["pars"] and rng.random() < 0.5:
                mod = "(%s = %s)" % (rng.choice(base["pars"]), self.expr(path, [], aliases, 1))
            node["lines"].append("extends %s%s;" % (self.ref(path, base["path"], aliases), mod))
            info["vars"] += base["vars"]
            info["pars"] += base["pars"]
            info["conn"] = base["conn"]
            terms += base["vars"] + base["pars"]
            used_local |= set(base["vars"]) | set(base["pars"])
            if base["conn"]:
                used_local.add("pin")
        for _ in range(rng.choice([0, 1, 1, 2])):
            pn = _pick_name(rng, PAR_NAMES, used_local)
            node["lines"].append("parameter Real %s = %s;" % (pn, self.expr(path, list(info["pars"]), aliases, 1)))
            info["pars"].append(pn)
            terms.append(pn)
        own_vars = []
        for _ in range(rng.choice([1, 1, 2])):
            vn = _pick_name(rng, VAR_NAMES, used_local)
            node["lines"].append("Real %s;" % vn)
            own_vars.append(vn)
            info["vars"].append(vn)
            terms.append(vn)
        comps = []
        for _ in range(rng.choice([0, 0, 1, 1, 2])):
            if not self.models:
                break
            cm = rng.choice(self.models)
            cn = "s%d" % (len(comps) + 1)
            mod = ""
            if cm["pars"] and rng.random() < 0.6:
                mod = "(%s = %s)" % (rng.choice(cm["pars"]), self.expr(path, list(info["pars"]), aliases, 1))
            node["lines"].append("%s %s%s;" % (self.ref(path, cm["path"], aliases), cn, mod))
            comps.append((cn, cm))
            terms += ["%s.%s" % (cn, v) for v in cm["vars"][:2]]
        if self.conns and info["conn"] is None and rng.random() < 0.35:
            cp = rng.choice(self.conns)
            node["lines"].append("%s pin;" % self.ref(path, cp, aliases))
            info["conn"] = cp
            terms.append("pin.e")
        for vn in own_vars:
            lhs = "der(%s)" % vn if rng.random() < 0.3 else vn
            node["eqs"].append("%s = %s;" % (lhs, self.expr(path, terms, aliases)))
        with_pin = [cn for cn, cm in comps if cm["conn"]]
        if len(with_pin) >= 2 and comps[0][1]["conn"] == comps[1][1]["conn"]:
            node["eqs"].append("connect(%s.pin, %s.pin);" % (with_pin[0], with_pin[1]))
        elif with_pin and info["conn"] and info["conn"] == dict(comps)[with_pin[0]]["conn"]:
            node["eqs"].append("connect(pin, %s.pin);" % with_pin[0])
        self.models.append(info)
        return node


def gen_library(rng):
    lib = Lib(rng, rng.choice([1, 1, 2, 2, 3]))
    used = set()
    roots = [lib.gen_package((), 0, used)]
    if rng.random() < 0.25:
        roots.append(lib.gen_package((), 0, used))
    if rng.random() < 0.15:
        roots.append(lib.gen_model((), used))
    return lib, roots


# ---- walking / rendering ---------------------------------------------------------------------
def walk(nodes):
    for n in nodes:
        yield n
        for m in walk(n["children"]):
            yield m


def render_node(n, ind, skip=frozenset(), top=False):
    """Text of class `n`; children whose id is in `skip` are left out (they live in other files)."""
    pad = "  " * ind
    pre = ("final " if top and n["final"] else "") + ("encapsulated " if n["enc"] else "") + ("partial " if n["partial"] else "")
    out = ['%s%s%s %s%s' % (pad, pre, n["kind"], n["name"], ' "%s"' % n["comment"] if n["comment"] else "")]
    for ln in n["lines"]:
        out.append(pad + "  " + ln)
    for c in n["children"]:
        if c["id"] not in skip:
            out.append(render_node(c, ind + 1, skip))
    if n["eqs"]:
        out.append(pad + "equation")
        out += [pad + "  " + e for e in n["eqs"]]
    if n["alg"]:
        out.append(pad + "algorithm")
        out += [pad + "  " + e for e in n["alg"]]
    if n["annotation"]:
        out.append(pad + '  annotation(Documentation(info = "doc of %s"));' % n["name"])
    out.append("%send %s;" % (pad, n["name"]))
    return "\n".join(out)


def render_file(within, nodes, skip, explicit_empty_within=False):
    head = ""
    if within:
        head = "within %s;\n" % ".".join(within)
    elif explicit_empty_within:
        head = "within ;\n"
    return head + "\n".join(render_node(n, 0, skip, top=True) for n in nodes) + "\n"


def model_paths(roots):
    return [".".join(n["path"]) for n in walk(roots) if n["kind"] in ("model", "class", "block")]


def split_library(rng, roots, nfiles=None):
    """Split the library into 2-4 files.  Returns (files, meta): files = list of
    {"within": tuple, "ids": [node ids defined at the top of the file]} and the skip set."""
    cands = [n for n in walk(roots) if len(n["path"]) > 1]
    by_id = {n["id"]: n for n in walk(roots)}
    parent = {}
    for n in walk(roots):
        for c in n["children"]:
            parent[c["id"]] = n
    target = nfiles or rng.choice([2, 3, 3, 4, 4])
    files = []
    # top-level classes: one file each or together
    if len(roots) > 1 and rng.random() < 0.5 and len(roots) < target:
        for r in roots:
            files.append({"within": (), "ids": [r["id"]]})
    else:
        files.append({"within": (), "ids": [r["id"] for r in roots]})
    skip = set()
    mode = rng.random()
    if mode < 0.15 and roots[0]["children"]:
        # "shell": every child of the first top-level package is moved out
        kids = list(roots[0]["children"])
        rng.shuffle(kids)
        room = max(1, target - len(files))
        groups = [kids[i::room] for i in range(room)]
        for g in groups:
            if g:
                files.append({"within": roots[0]["path"], "ids": [k["id"] for k in g]})
                skip |= {k["id"] for k in g}
    rng.shuffle(cands)
    # prefer sub-packages and classes of sub-packages (deeper placeholder chains)
    cands.sort(key=lambda n: (-(n["kind"] == "package") * rng.random(), rng.random()))
    for n in cands:
        if len(files) >= target:
            break
        if n["id"] in skip:
            continue
        w = n["path"][:-1]
        same = [f for f in files if f["within"] == w and w and f is not files[0]]
        if same and rng.random() < 0.3:
            same[0]["ids"].append(n["id"])      # several classes behind one within clause
        else:
            files.append({"within": w, "ids": [n["id"]]})
        skip.add(n["id"])
    texts = []
    for f in files:
        texts.append(render_file(f["within"], [by_id[i] for i in f["ids"]], skip,
                                 explicit_empty_within=(not f["within"] and rng.random() < 0.2)))
    return files, texts, skip


def walk_names(rng, files, by_id):
    """Relative file names for the directory-walk drivers (unique; some in sub-directories)."""
    names, used = [], set()
    for f in files:
        first = by_id[f["ids"][0]]
        style = rng.random()
        if style < 0.3 and first["kind"] == "package":
            rel = "/".join(first["path"]) + "/package.mo"
        elif style < 0.6:
            rel = "/".join(f["within"] + (first["name"] + ".mo",))
        elif style < 0.8:
            rel = "%s.mo" % rng.choice("abcdefghijklmnopqrstuvwxyz")
        else:
            rel = "%s/%s.mo" % (rng.choice(["lib", "src", "zz", "aa"]), first["name"])
        while rel in used:
            rel = rel[:-3] + "_.mo"
        used.add(rel)
        names.append(rel)
    return names


# =============================================================================================
# Part 2 - the check
# =============================================================================================
THEOREMS = ["C27_merge_perm", "C27_split_perm", "C27_lookup_is_fold", "C27_drivers_agree", "C27_compiler_batches",
            "C27_flat_respects_lookup", "C27_flatten_perm", "C27_flatten_split_perm",
            "C27_flatten_perm_partial", "C27_flat_example", "C27_checked_hypotheses_sound",
            "C27_incompatible_is_order_dependent", "C27_example"]

# the probe that found the defect repaired by 68a1661 (package file after a `within` file)
CORPUS_FILES = [
    'package P "the pkg"\n  constant Real k = 2.0;\n  model Base\n    parameter Real a = P.k;\n    Real x;\n'
    '  equation\n    der(x) = -a*x;\n  end Base;\nend P;\n',
    'within P;\nmodel M\n  extends Base;\n  Real y;\n  Q.Sub s(g = 3*P.k);\nequation\n  y = P.k * x + s.z;\nend M;\n',
    'within P;\npackage Q\n  constant Real c = 5;\n  model Sub\n    parameter Real g = 1;\n    Real z;\n'
    '  equation\n    z = g * P.Q.c * P.k;\n  end Sub;\nend Q;\n',
]
CORPUS_MONO = (
    'package P "the pkg"\n  constant Real k = 2.0;\n  model Base\n    parameter Real a = P.k;\n    Real x;\n'
    '  equation\n    der(x) = -a*x;\n  end Base;\n'
    '  model M\n    extends Base;\n    Real y;\n    Q.Sub s(g = 3*P.k);\n  equation\n    y = P.k * x + s.z;\n  end M;\n'
    '  package Q\n    constant Real c = 5;\n    model Sub\n      parameter Real g = 1;\n      Real z;\n'
    '    equation\n      z = g * P.Q.c * P.k;\n    end Sub;\n  end Q;\nend P;\n')
# nothing but placeholders ever defines P and P.Q (two-level within chain), plus a second root file
CORPUS2_FILES = [
    'within P.Q;\nmodel S\n  Real z;\nequation\n  z = 2.0 * R.k;\nend S;\n',
    'within P;\nmodel M\n  Q.S s;\n  Real y;\nequation\n  y = s.z + R.k;\nend M;\n',
    'package R\n  constant Real k = 4.0;\nend R;\n',
]
CORPUS2_MONO = ('package P\n  package Q\n    model S\n      Real z;\n    equation\n      z = 2.0 * R.k;\n    end S;\n  end Q;\n'
                '  model M\n    Q.S s;\n    Real y;\n  equation\n    y = s.z + R.k;\n  end M;\nend P;\n'
                'package R\n  constant Real k = 4.0;\nend R;\n')
# an encapsulated package whose class lives in a `within` file (flags must be or-ed, never reset)
CORPUS3_FILES = [
    'package P\n  constant Real k = 2.0;\n  encapsulated package E\n    constant Real c = 1.0;\n  end E;\nend P;\n',
    'within P.E;\nmodel X\n  Real y;\nequation\n  y = P.k + E.c;\nend X;\n',
]
CORPUS3_MONO = ('package P\n  constant Real k = 2.0;\n  encapsulated package E\n    constant Real c = 1.0;\n'
                '    model X\n      Real y;\n    equation\n      y = P.k + E.c;\n    end X;\n  end E;\nend P;\n')


def all_perms(n):
    return [list(p) for p in itertools.permutations(range(n))]


def compositions(n):
    """All ways to cut a list of n files into >= 2 consecutive non-empty groups (group sizes)."""
    out = []
    for mask in range(1, 2 ** (n - 1)):
        sizes, cur = [], 1
        for b in range(n - 1):
            if mask >> b & 1:
                sizes.append(cur)
                cur = 1
            else:
                cur += 1
        sizes.append(cur)
        out.append(sizes)
    return out


def inc_plan(rng, n):
    """(order, group sizes) pairs for compiler.parse_all called several times on one tree: every partition of
    every permutation when that is at most 24 runs, else one random partition per permutation."""
    perms, comps = all_perms(n), compositions(n)
    if not comps:
        return []
    if len(perms) * len(comps) <= 24:
        return [[o, c] for o in perms for c in comps]
    return [[o, rng.choice(comps)] for o in perms]


def corpus_cases():
    out = []
    for style in ("api", "compiler"):
        out.append({"kind": "corpus", "files": CORPUS_FILES, "orders": all_perms(3), "models": ["P.Base", "P.M", "P.Q.Sub"],
                    "inc": [[o, c] for o in all_perms(3) for c in compositions(3)],
                    "mono": CORPUS_MONO, "walk": ["P/package.mo", "P/M.mo", "P/Q/package.mo"], "style": style,
                    "compat": True})
        out.append({"kind": "corpus", "files": CORPUS2_FILES, "orders": all_perms(3), "models": ["P.M", "P.Q.S"],
                    "inc": [[o, c] for o in all_perms(3) for c in compositions(3)],
                    "mono": CORPUS2_MONO, "walk": ["a/S.mo", "M.mo", "z/R.mo"], "style": style, "compat": True})
        out.append({"kind": "corpus", "files": CORPUS3_FILES, "orders": all_perms(2), "models": ["P.E.X"],
                    "inc": [[o, c] for o in all_perms(2) for c in compositions(2)],
                    "mono": CORPUS3_MONO, "walk": ["P/package.mo", "P/E/X.mo"], "style": style, "compat": True})
    return out


def gen_case(rng):
    """A compatible split of a generated library: every class is defined in exactly one file."""
    lib, roots = gen_library(rng)
    files, texts, skip = split_library(rng, roots)
    by_id = {n["id"]: n for n in walk(roots)}
    n = len(texts)
    orders = all_perms(n)
    extra = [[i] for i in range(n)]                      # single files (file_to_tree alone)
    rep = [rng.randrange(n) for _ in range(n + 1)]       # an order with a repeated file (idempotence)
    extra.append(rep)
    return {"kind": "split", "files": texts, "orders": orders, "extra_orders": extra,
            "models": model_paths(roots), "mono": render_file((), roots, frozenset()),
            "walk": walk_names(rng, files, by_id), "style": rng.choice(["api", "compiler"]), "compat": True,
            "inc": inc_plan(rng, n),
            "meta": {"within_depths": [len(f["within"]) for f in files],
                     "classes_per_file": [len(f["ids"]) for f in files],
                     "packages": sum(1 for x in walk(roots) if x["kind"] == "package")}}


def _rename_root(node, new, prefix=()):
    node["name"] = new if not prefix else node["name"]
    node["path"] = tuple(prefix) + (node["name"],)
    for c in node["children"]:
        _rename_root(c, None, node["path"])


def gen_outside_case(rng):
    """OUTSIDE the property's quantifier (correspondence only, nothing is flattened or judged):
    two libraries that both give contents to the same root package, sometimes plus a file whose
    `within` names a model.  Pins the as-coded behaviour: first non-empty value of an attribute wins."""
    lib1, r1 = gen_library(rng)
    lib2, r2 = gen_library(rng)
    _rename_root(r2[0], r1[0]["name"])
    f1, t1, _ = split_library(rng, r1[:1], nfiles=rng.choice([1, 2]))
    f2, t2, _ = split_library(rng, r2[:1], nfiles=rng.choice([1, 2]))
    texts = t1 + t2
    ms = [n for n in walk(r1[:1]) if n["kind"] in ("model", "class", "block")]
    if ms and rng.random() < 0.4 and len(texts) < 4:
        m = rng.choice(ms)
        texts.append("within %s;\nmodel Inner\n  Real q;\nequation\n  q = 1.0;\nend Inner;\n" % ".".join(m["path"]))
    n = len(texts)
    orders = all_perms(n)
    rng.shuffle(orders)
    return {"kind": "outside", "files": texts, "orders": orders[:8], "extra_orders": [], "models": [],
            "mono": None, "walk": None, "style": rng.choice(["api", "compiler"]), "compat": False, "flatten": False}


# ---- oracle on the implementation ----------------------------------------------------------------
def _nof(d):
    return {k: v for k, v in d.items() if k != "full"}


def judge(case, res):
    """None if the property holds on this library, else (tag, description, detail).
    Reference 1 (the property): the flattened model must be the same for every file order.
    Reference 2 (independent): it must also be what the UNSPLIT library gives (ignoring Symbol.order,
    a per-file declaration counter)."""
    if "crash" in res or "exc" in res:
        return ("child-failure", "the real code crashed on this library: %s" % str(res)[:200], {})
    if "merged" not in res:
        return None  # a generated file did not parse: recorded as a generator obligation, not judged
    nfiles = len(case["files"])
    perms = [(o, r) for o, r in zip(case["orders"], res["merged"]) if sorted(o) == list(range(nfiles))]
    if not perms:
        return None
    mono = (res.get("mono") or {}).get("flat")
    o0, r0 = perms[0]
    for o, r in perms:
        if "exc" in r:
            return ("merge-raises", "Tree.extend raised %s for file order %s" % (r["exc"], o), {"order_a": o})
        if not r.get("parents", True):
            return ("parent-refs", "parent back-pointers wrong after merging in order %s" % o, {"order_a": o})
    for m in case["models"]:
        for o, r in perms:
            if r["flat"][m] != r0["flat"][m]:
                return ("order-dependent-flatten",
                        "flattened %s differs between file orders %s and %s" % (m, o0, o),
                        {"model": m, "order_a": o0, "order_b": o, "flat_a": r0["flat"][m], "flat_b": r["flat"][m]})
        if mono is not None and _nof(r0["flat"][m]) != _nof(mono[m]):
            return ("differs-from-unsplit",
                    "flattened %s from the split library (every order) differs from the unsplit library" % m,
                    {"model": m, "order_a": o0, "flat_a": r0["flat"][m], "flat_unsplit": mono[m]})
    for rec in res.get("inc") or []:
        if "exc" in rec:
            return ("driver-raises", "compiler.parse_all in %d calls (order %s, groups %s) failed: %s"
                    % (len(rec["groups"]), rec["order"], rec["groups"], rec["exc"]), {"order_a": rec["order"]})
        if rec.get("one_nfiles") != nfiles or rec.get("one_nerr"):
            return ("driver-files", "compiler.parse_all parsed %s of %d files (%s errors)"
                    % (rec.get("one_nfiles"), nfiles, rec.get("one_nerr")), {"order_a": rec["order"]})
        for m in case["models"]:
            if "one_flat" in rec and rec["one_flat"][m] != r0["flat"][m]:
                return ("order-dependent-flatten",
                        "flattened %s after ONE compiler.parse_all call with file order %s differs from order %s"
                        % (m, rec["order"], o0),
                        {"model": m, "order_a": o0, "order_b": rec["order"], "driver": "compiler.parse_all",
                         "flat_a": r0["flat"][m], "flat_b": rec["one_flat"][m]})
            if not rec.get("same", True) and rec["inc_flat"][m] != rec["ref_flat"][m]:
                return ("batch-dependent-flatten",
                        "flattened %s differs when the files (order %s) are added by %d successive compiler.parse_all "
                        "calls on one tree (group sizes %s) instead of one call"
                        % (m, rec["order"], len(rec["groups"]), rec["groups"]),
                        {"model": m, "order_a": rec["order"], "groups": rec["groups"], "driver": "compiler.parse_all",
                         "flat_a": rec["ref_flat"][m], "flat_b": rec["inc_flat"][m]})
    w = res.get("walk")
    if case.get("walk") and w is not None:
        if "exc" in w:
            return ("driver-raises", "directory-walk driver failed: %s" % w["exc"], {})
        for d in ("api", "compiler"):
            if sorted(w[d]["order"]) != list(range(nfiles)):
                return ("driver-files", "%s driver parsed files %s of %d" % (d, w[d]["order"], nfiles), {"driver": d})
            for m in case["models"]:
                if w[d]["flat"][m] != r0["flat"][m]:
                    return ("order-dependent-flatten",
                            "flattened %s after the %s driver's directory walk (file order %s) differs from order %s"
                            % (m, d, w[d]["order"], o0),
                            {"model": m, "order_a": o0, "order_b": w[d]["order"], "driver": d,
                             "flat_a": r0["flat"][m], "flat_b": w[d]["flat"][m]})
    return None


# ---- Coq encoding ----------------------------------------------------------------------------------
class Interner:
    def __init__(self, preset=None):
        self.t = dict(preset or {})

    def __call__(self, s):
        if s not in self.t:
            self.t[s] = len(self.t) + 1
        return self.t[s]


class Sharing:
    """Hash-consing of headers and subtrees inside one case term (`let x := ... in`): the merged trees of
    the different file orders share almost all of their subtrees."""
    def __init__(self):
        self.defs = []
        self.seen = {}

    def name(self, prefix, term):
        if term not in self.seen:
            self.seen[term] = "%s%d" % (prefix, len(self.defs))
            self.defs.append((self.seen[term], term))
        return self.seen[term]


def enc_node(d, names, types, toks, sh):
    hdr = sh.name("h", "Hdr %s %s %s" % (cq_pos(types(d["t"])),
                                         cq_list([cq_list([cq_pos(toks(x)) for x in a]) for a in d["a"]]),
                                         cq_list([cq_bool(b) for b in d["f"]])))
    kids = cq_list(["(%s, %s)" % (cq_pos(names(c["n"])), enc_node(c, names, types, toks, sh)) for c in d["c"]])
    return sh.name("n", "Node %s %s" % (hdr, kids))


def enc_path(p, names):
    return cq_list([cq_pos(names(x)) for x in p])


def enc_paths(ps, names):
    return cq_list([enc_path(p, names) for p in ps])


def collect_infos(d, toks, tabs, flags):
    """token id -> decoded content, from the `i` fields of a dumped class (recursively)."""
    for ai, key in ((0, "imp"), (1, "ext"), (2, "sym"), (4, "eq"), (5, "eq"), (6, "eq"), (7, "eq")):
        for tok, info in zip(d["a"][ai], d["i"][ai] or []):
            if key == "imp" and info.get("star"):
                flags["star_import"] = True
                continue
            tabs[key][toks(tok)] = info
    for c in d["c"]:
        collect_infos(c, toks, tabs, flags)


def encode_case(case, res, orders_for_coq):
    names, toks, sh = Interner(), Interner(), Sharing()
    types = Interner({"package": 1, "": 2})
    files, ffiles = [], []
    tabs = {"imp": {}, "ext": {}, "sym": {}, "eq": {}}
    flags = {}
    for f in res["files"]:
        within = [names(x) for w in f["within"] for x in w]
        classes = cq_list(["(%s, %s)" % (cq_pos(names(c["n"])), enc_node(c, names, types, toks, sh)) for c in f["classes"]])
        fterm = "(%s, %s)" % (cq_list([cq_pos(x) for x in within]), classes)
        ffiles.append(fterm)
        files.append("(%s, %s)" % (fterm, enc_node(f["tree"], names, types, toks, sh)))
        collect_infos(f["tree"], toks, tabs, flags)
    obs = []
    for o, r in orders_for_coq:
        obs.append("(%s, %s)" % (cq_list([cq_nat(i) for i in o]), enc_node(r["tree"], names, types, toks, sh)))
    body = "(%s, %s, %s, %s)" % (cq_bool(case["style"] == "compiler"), cq_bool(bool(case.get("compat"))),
                                 cq_list(files), cq_list(obs))
    # ---- the flattening part ----
    denv = "(DEnv %s %s %s %s)" % (
        cq_list(["(%s, SymI %s %s %s %s %s)" % (cq_pos(t), cq_pos(names(i["n"])), enc_path(i["ty"], names),
                                               cq_bool(i["b"]), enc_paths(i["v"], names), enc_paths(i["m"], names))
                 for t, i in sorted(tabs["sym"].items())]),
        cq_list(["(%s, (%s, %s))" % (cq_pos(t), enc_path(i["base"], names), enc_paths(i["m"], names))
                 for t, i in sorted(tabs["ext"].items())]),
        cq_list(["(%s, (%s, %s))" % (cq_pos(t), cq_pos(names(i["k"])), enc_path(i["t"], names))
                 for t, i in sorted(tabs["imp"].items())]),
        cq_list(["(%s, %s)" % (cq_pos(t), enc_paths(i, names)) for t, i in sorted(tabs["eq"].items())]))
    nfiles = len(case["files"])
    perms = [(o, r) for o, r in orders_for_coq if sorted(o) == list(range(nfiles))]
    flats, info = [], {"compared": 0, "real_raises": 0, "unsupported": 0}
    if perms and case.get("flatten", True) and case["models"]:
        ref = perms[0][1].get("flat") or {}
        for m in case["models"]:
            fr = ref.get(m)
            if fr is None:
                continue
            if flags.get("star_import"):
                info["unsupported"] += 1
                continue
            if "vars" not in fr:
                info["real_raises"] += 1
                flats.append("(%s, None)" % enc_path(m.split("."), names))
                continue
            info["compared"] += 1
            vs = cq_list(["(%s, %s, %s)" % (enc_path(v[0].split("."), names), cq_pos(names(v[1])), cq_bool(v[2]))
                          for v in fr["vars"]])
            flats.append("(%s, Some %s)" % (enc_path(m.split("."), names), vs))
    fbody = "(%s, %s, %s, %s, %s)" % (denv, cq_bool(case["style"] == "compiler"), cq_list(ffiles),
                                      cq_list([cq_list([cq_nat(i) for i in o]) for o, _ in perms]) if flats else "nil",
                                      cq_list(flats))
    term = "(" + "".join("let %s := %s in\n    " % d for d in sh.defs) + "(%s, %s))" % (body, fbody)
    return term, info


PREAMBLE = "From Coq Require Import List PArith.\nImport ListNotations.\nFrom PV Require Import Model.C27_merge Model.C27_flat.\n"
CASE_TYPE = "case * flat_case"


def run_children(ctx, cases, workers=4):
    """The real code, in up to 4 child processes working on disjoint slices of the case list."""
    if not cases:
        return []
    k = min(workers, len(cases))
    size = (len(cases) + k - 1) // k
    chunks = [cases[i:i + size] for i in range(0, len(cases), size)]
    with ThreadPoolExecutor(max_workers=k) as ex:
        parts = list(ex.map(lambda ch: core.run_child(ctx, "c27", ch, timeout=1500), chunks))
    return [r for p in parts for r in p]


def child_view(case):
    c = {k: case[k] for k in ("files", "models", "mono", "walk", "style", "inc") if k in case}
    c["orders"] = case["orders"] + case.get("extra_orders", [])
    c["flatten"] = case.get("flatten", True)
    return c


def run(ctx):
    core.check_props(ctx, "C27.v", THEOREMS)
    fps = {}
    for path, nm in (("src/pymoca/ast.py", {"Class._extend", "Tree.extend", "Tree._update_parent_refs"}),
                     ("src/pymoca/parser.py", {"file_to_tree"}),
                     ("src/pymoca/backends/casadi/api.py", {"_compile_model"}),
                     ("tools/compiler.py", {"list_modelica_files", "parse_all"})):
        fps[path] = core.fingerprint("%s/%s" % (core.REPO, path), nm)[0]
    ctx.notes["source_fingerprint"] = fps

    n_split = ctx.scaled(32, 480)
    n_out = ctx.scaled(10, 100)
    cases = corpus_cases()
    n_corpus = len(cases)
    cases += [gen_case(ctx.rng) for _ in range(n_split)]
    cases += [gen_outside_case(ctx.rng) for _ in range(n_out)]
    import time
    t_child = time.time()
    results = run_children(ctx, [child_view(c) for c in cases])
    ctx.notes["timing_s"] = {"children": round(time.time() - t_child, 1)}

    # ---- (a) property oracle on the implementation ----
    stats = {"files": {}, "models_flattened": 0, "models_raising": 0, "permutations_merged": 0,
             "walk_order_sorted": 0, "walk_order_unsorted": 0, "style": {"api": 0, "compiler": 0},
             "within_depth": {}, "several_classes_behind_one_within": 0, "outside_cases": n_out,
             "incremental_parse_all_runs": 0, "incremental_tree_differs_but_flat_equal": 0}
    nontrivial = set()
    unparsed = []
    for i, (c, r) in enumerate(zip(cases, results)):
        if c["kind"] == "outside":
            if "merged" not in r:
                unparsed.append(i)
            continue
        if "merged" not in r and "crash" not in r and "exc" not in r:
            unparsed.append(i)
            continue
        why = judge(c, r)
        if why:
            tag, what, detail = why
            payload = {"case": child_view(c), "why": what}
            payload.update(detail)
            core.report(ctx, tag, what, payload)
            continue
        nf = len(c["files"])
        stats["files"][nf] = stats["files"].get(nf, 0) + 1
        stats["style"][c["style"]] += 1
        stats["permutations_merged"] += len(c["orders"])
        stats["incremental_parse_all_runs"] += len(r.get("inc") or [])
        stats["incremental_tree_differs_but_flat_equal"] += sum(1 for x in (r.get("inc") or []) if not x.get("same", True))
        for d in c.get("meta", {}).get("within_depths", []):
            stats["within_depth"][d] = stats["within_depth"].get(d, 0) + 1
        if any(k > 1 for k in c.get("meta", {}).get("classes_per_file", [])[1:]):
            stats["several_classes_behind_one_within"] += 1
        ok = [m for m in c["models"] if "exc" not in r["merged"][0]["flat"][m]]
        stats["models_flattened"] += len(ok)
        stats["models_raising"] += len(c["models"]) - len(ok)
        w = r.get("walk") or {}
        for d in ("api", "compiler"):
            if d in w:
                stats["walk_order_sorted" if w[d]["order"] == sorted(w[d]["order"]) else "walk_order_unsorted"] += 1
        if nf >= 2 and ok:
            nontrivial.add(json.dumps(c["files"]))
    ctx.oblige("generator:every-generated-file-parses", not unparsed, "cases %s" % unparsed[:5])

    # ---- (b) correspondence model vs Tree.extend / file_to_tree, evaluated inside Coq ----
    enc, idx = [], []
    flat_stats = {"compared": 0, "real_raises": 0, "unsupported": 0}
    for i, (c, r) in enumerate(zip(cases, results)):
        if "merged" not in r:
            continue
        allo = list(zip(c["orders"] + c.get("extra_orders", []), r["merged"]))
        allo = [(o, m) for o, m in allo if "tree" in m]
        nperm = len(c["orders"])
        if nperm > 8:
            keep = set(ctx.rng.sample(range(nperm), 8)) | set(range(nperm, len(allo)))
            allo = [x for j, x in enumerate(allo) if j in keep]
        term, finfo = encode_case(c, r, allo)
        for k, v in finfo.items():
            flat_stats[k] += v
        enc.append(term)
        idx.append(i)
    t_coq = time.time()
    bad = core.coq_eval_cases(ctx, "merge", PREAMBLE, CASE_TYPE, enc, "check_both", shard=10)
    flat_bad = []
    if bad:
        # which half failed?  re-evaluate the failing cases with the merge check alone
        bad2 = core.coq_eval_cases(ctx, "mergeonly", PREAMBLE, CASE_TYPE, [enc[j] for j in bad],
                                   "(fun c => check_case (fst c))", shard=10)
        merge_bad = list(bad) if bad2 is None else [bad[j] for j in bad2]
        flat_bad = [idx[j] for j in bad if j not in merge_bad]
        bad = merge_bad
    ctx.notes["timing_s"]["coq_cases"] = round(time.time() - t_coq, 1)
    mism = list(range(len(cases))) if bad is None else [idx[j] for j in bad]
    ctx.oblige("correspondence:model-vs-Tree.extend+file_to_tree", not mism,
               "mismatching cases: %s" % mism[:10])
    ctx.oblige("correspondence:flat-model-vs-tree.flatten-variable-list", not flat_bad and bad is not None,
               "mismatching cases: %s" % flat_bad[:10])
    stats["flat_model"] = flat_stats
    if flat_bad and not mism:
        mism = flat_bad
    if mism and not ctx.violations:
        # the model no longer describes the code: search harder for a failing input on the implementation
        extra = [gen_case(ctx.rng) for _ in range(ctx.scaled(40, 200))]
        xres = run_children(ctx, [child_view(c) for c in extra])
        for c, r in zip(extra, xres):
            why = judge(c, r)
            if why:
                tag, what, detail = why
                payload = {"case": child_view(c), "why": what}
                payload.update(detail)
                core.report(ctx, tag, what, payload)
                break
    if mism and not ctx.violations:
        j = mism[0]
        core.violation(ctx, "correspondence-broken",
                       {"correspondence": "Model/C27_merge.v check_case vs parser.file_to_tree + ast.Tree.extend; "
                                          "Model/C27_flat.v check_flat vs the variable list of tree.flatten",
                        "case": child_view(cases[j]),
                        "observed_files": results[j].get("files"),
                        "observed_first_merge": (results[j].get("merged") or [None])[0]}, no_input=True)

    core.replay_known(ctx, lambda e: None)
    ctx.cov["evaluations"] = len(cases)
    ctx.cov["distinct_nontrivial"] = len(nontrivial)
    ctx.cov["rule"] = ("generated package libraries (package constants referenced by qualified name, 1-3 levels of nested "
                       "packages, imports, functions, connectors, models extending/instantiating classes of other files) "
                       "split into 2-4 files with within clauses (%d) + corpus (%d): every permutation merged with the real "
                       "parse + Tree.extend, every model flattened after every permutation and after the directory walks of "
                       "api._compile_model and compiler.parse_all, compared with each other and with the unsplit library; "
                       "+ %d libraries outside the property (conflicting definitions) for the correspondence only. "
                       "non-trivial = distinct file texts, >= 2 files, at least one model flattens" % (n_split, n_corpus, n_out))
    ctx.cov["samples"] = [cases[n_corpus]["files"], cases[n_corpus + 1]["files"][:2]] if n_split >= 2 else [cases[0]["files"]]
    ctx.notes["input_distribution"] = stats
    ctx.assumptions += [
        "attribute values are abstract tokens: the model only mirrors which attribute a class ends up with and in which "
        "order nested classes are stored, not the contents of symbols/equations",
        "lookup-equality ignores the insertion order of nested classes (it differs between file orders); that flattening "
        "does not depend on it is checked on the real code by the oracle, not proved (C27_flatten_perm_partial)",
        "pymoca.tree.flatten is not modelled; parent back-pointers are checked on the real tree by the child process only",
        "compatible split = every class is defined in one file, other files only hold within-placeholders for it, and "
        "within clauses name packages; Symbol.order (a per-file counter) is ignored when comparing with the unsplit library",
    ]


def replay(ctx, path):
    rec = json.load(open(path))
    case = rec.get("case")
    if not case:
        print("replay: no input recorded in this file (%s)" % rec.get("kind"))
        return 1
    case = dict(case)
    case.setdefault("kind", "split")
    res = core.run_child(ctx, "c27", [case])[0]
    why = judge(case, res)
    print("replay:", why[1] if why else "property holds on this library (all file orders flatten alike)")
    return 1 if why else 0
