"""C05 — flattening never changes what later flattening produces."""
import ast as pyast
import glob
import json
import os

from . import core
from .c06 import gen_library
from .core import cq_bool, cq_list, cq_nat

THEOREMS = ["C05_frame", "C05_neutral", "C05_memo_transparent", "C05_sequences", "C05_dotted_refuted",
            "C05_sequences_carved", "C05_lookup_copy", "C05_refuted", "C05_example"]
KINDS = ["WImportMemo", "WConstSym", "WArgHook", "WOther"]


def source_copy_flag(repo):
    """the literal copy= argument of the find_class call in tree.flatten (fail-closed: None)"""
    try:
        mod = pyast.parse(open(repo + "/src/pymoca/tree.py").read())
        amod = pyast.parse(open(repo + "/src/pymoca/ast.py").read())
    except (OSError, SyntaxError) as e:
        return None, "cannot parse: %s" % e
    default = None
    for n in amod.body:
        if isinstance(n, pyast.ClassDef) and n.name == "Class":
            for m in n.body:
                if isinstance(m, pyast.FunctionDef) and m.name == "find_class":
                    names = [a.arg for a in m.args.args]
                    if "copy" in names:
                        d = m.args.defaults[names.index("copy") - (len(names) - len(m.args.defaults))]
                        if isinstance(d, pyast.Constant) and isinstance(d.value, bool):
                            default = d.value
    fn = [n for n in mod.body if isinstance(n, pyast.FunctionDef) and n.name == "flatten"]
    if len(fn) != 1:
        return None, "tree.flatten not found"
    calls = [c for c in pyast.walk(fn[0]) if isinstance(c, pyast.Call) and isinstance(c.func, pyast.Attribute)
             and c.func.attr == "find_class"]
    if len(calls) != 1:
        return None, "expected exactly one find_class call in tree.flatten, found %d" % len(calls)
    c = calls[0]
    if not (isinstance(c.func.value, pyast.Name) and c.func.value.id == "root" and len(c.args) == 1):
        return None, "find_class call has an unknown shape"
    kw = {k.arg: k.value for k in c.keywords}
    if set(kw) - {"copy"}:
        return None, "find_class call has unknown keywords %s" % sorted(kw)
    if "copy" not in kw:
        return default, "copy= not given: default of Class.find_class"
    if isinstance(kw["copy"], pyast.Constant) and isinstance(kw["copy"].value, bool):
        return kw["copy"].value, "ok"
    return None, "copy= is not a literal"


def gen_redeclare_library(rng):
    """replaceable model + `redeclare model X = Y` (in a component modification or in an extends clause)
    where Y has modified class-typed components; returns text and sequences that flatten the redeclaring
    model BEFORE Y and the users of Y (tree.py:363-384)."""
    a, b, c = rng.randint(2, 9), rng.randint(2, 9), rng.randint(2, 9)
    deep = rng.random() < 0.5
    lines = ["model Leaf", "  parameter Real area = 1.0;", "  Real level;", "equation",
             "  der(level) = 1.0 / area;", "end Leaf;",
             "model Generic", "  Real y;", "equation", "  y = 0.0;", "end Generic;"]
    if deep:
        lines += ["model Mid", "  Leaf leaf(area = %d.5);" % c, "  Real z;", "equation", "  z = leaf.level;", "end Mid;"]
    lines += ["model Plant", "  Leaf tank(area = %d.5);" % a]
    if deep:
        lines += ["  Mid mid(leaf.area = %d.25);" % b]
    lines += ["  Real y;", "equation", "  y = tank.level%s;" % (" + mid.z" if deep else ""), "end Plant;",
              "model Stage", "  replaceable model Process = Generic;", "  Process p;", "end Stage;"]
    style = rng.choice(["component", "extends", "both"])
    if style in ("component", "both"):
        lines += ["model System", "  Stage stage(redeclare model Process = Plant);", "end System;"]
    if style in ("extends", "both"):
        lines += ["model SystemE", "  extends Stage(redeclare model Process = Plant);", "end SystemE;"]
    lines += ["model Pair", "  Plant a;", "  Plant b(tank.area = %d.0);" % b, "end Pair;"]
    red = [m for m in ("System", "SystemE") if ("model " + m) in "\n".join(lines)]
    after = ["Plant", "Pair"] + (["Mid"] if deep else [])
    seqs = []
    for r in red:
        for x in after:
            seqs.append([["flatten", [r]], ["flatten", [x]]])
        seqs.append([["flatten", [r]], ["flatten", [r]], ["flatten", [rng.choice(after)]]])
        seqs.append([["flatten", [rng.choice(after)]], ["flatten", [r]], ["flatten", [rng.choice(after)]]])
    rng.shuffle(seqs)
    return "\n".join(lines) + "\n", seqs


def gen_import_library(rng):
    """a package with several unqualified imports whose classes are used by simple name in a nested
    model: the lookup climbs to the ORIGINAL package and writes its import memo (ast.py:662-685)"""
    n = rng.randint(2, 3)
    lines = []
    for i in range(n):
        lines += ["package I%d" % i, "  model T%d" % i, "    Real x%d;" % i, "  equation", "    x%d = %d.0;" % (i, i + 1),
                  "  end T%d;" % i, "end I%d;" % i]
    order = list(range(n))
    rng.shuffle(order)
    lines += ["package U"] + ["  import I%d.*;" % i for i in order] + ["  model M"]
    used = [i for i in range(n) if rng.random() < 0.8] or [0]
    lines += ["    T%d t%d;" % (i, i) for i in used] + ["  end M;", "end U;"]
    seqs = [[["flatten", ["U", "M"]], ["flatten", ["U", "M"]]],
            [["flatten", ["U", "M"]], ["flatten", ["I%d" % used[0], "T%d" % used[0]]], ["flatten", ["U", "M"]]]]
    return "\n".join(lines) + "\n", seqs


def gen_dotted_import_library(rng):
    """`import Lib.*;` declared in an ENCLOSING package (an object shared by every copy flatten makes of the
    package's models), used through a DOTTED name (A.B) by one model and through the simple name (A) by
    another (ast.py:665-690)"""
    two = rng.random() < 0.4
    a, b = rng.randint(1, 9), rng.randint(1, 9)
    lines = ["package Lib", "  model A", "    Real x;", "    model B", "      Real y;", "    equation", "      y = %d.0;" % a,
             "    end B;", "  equation", "    x = %d.0;" % b, "  end A;", "end Lib;"]
    if two:
        lines += ["package Lib2", "  model C", "    Real z;", "    model D", "      Real u;", "    equation", "      u = 3.0;",
                  "    end D;", "  equation", "    z = 4.0;", "  end C;", "end Lib2;"]
    lines += ["package P", "  import Lib.*;"] + (["  import Lib2.*;"] if two else [])
    lines += ["  model M1", "    A.B b;", "  end M1;", "  model M2", "    A a;", "  end M2;"]
    models = [["P", "M1"], ["P", "M2"]]
    if two:
        lines += ["  model M3", "    C.D d;", "    A a;", "  end M3;", "  model M4", "    C c;", "    A.B b;", "  end M4;"]
        models += [["P", "M3"], ["P", "M4"]]
    if rng.random() < 0.5:
        lines += ["  package Q", "    model M5", "      A.B b;", "      A a;", "    end M5;", "  end Q;"]
        models.append(["P", "Q", "M5"])
    lines += ["end P;"]
    seqs = [[["flatten", x], ["flatten", y]] for x in models for y in models]
    rng.shuffle(seqs)
    seqs = seqs[:6] + [[["flatten", rng.choice(models)] for _ in range(3)] for _ in range(3)]
    return "\n".join(lines) + "\n", seqs


SMALL_MODEL = "model %s\n  parameter Real a = %d.0;\n  Real x(start = 1.0);\nequation\n  der(x) = -x / a;\nend %s;\n"


def gen_casadi_cli(rng, i):
    """-t casadi: the model folder is inferred from a file named after the model (compiler.py:286-298);
    models without an own file, or with two files, are usage errors — alone and together, in any order"""
    own, nofile, ambiguous = "Own%d" % i, "NoFile%d" % i, "Twice%d" % i
    files = {own + ".mo": SMALL_MODEL % (own, 2, own) + SMALL_MODEL % (nofile, 3, nofile)}
    models = [own, nofile]
    if rng.random() < 0.5:
        files["s1/%s.mo" % ambiguous] = SMALL_MODEL % (ambiguous, 4, ambiguous)
        files["s2/%s.mo" % ambiguous] = SMALL_MODEL % (ambiguous, 4, ambiguous)
        models.append(ambiguous)
    missing = "Missing%d" % i
    if rng.random() < 0.3:
        models.append(missing)
    rng.shuffle(models)
    pick = models[:rng.randint(2, 3)]
    if own not in pick:
        pick.insert(rng.randrange(len(pick) + 1), own)
    if rng.random() < 0.3:
        pick.append(pick[0])
    return {"kind": "cli", "files": files, "text": "".join(files.values()), "models": pick, "target": "casadi"}


def tag_of(text, why_kind, req_path=None):
    """narrow tag of a failing sequence (for findings/known.d/C05.json): computed from the library text and
    the class whose request differed"""
    import re
    body = ""
    if req_path:
        m = re.search(r"^\s*(?:model|class)\s+%s\b(.*?)^\s*end\s+%s\s*;" % (re.escape(req_path[-1]), re.escape(req_path[-1])),
                      text, flags=re.M | re.S)
        body = m.group(1) if m else ""
    if body and re.search(r"import\s+[\w.]+\.\*\s*;", text):
        tops = set(re.findall(r"^(?:package|model|class|connector)\s+(\w+)", text, flags=re.M))
        for m in re.finditer(r"^\s*(\w+)\.\w[\w.]*\s+\w+\s*(?:\(|;)", body, flags=re.M):
            if m.group(1) not in tops and m.group(1) not in ("der",):
                return "dotted-name-through-unqualified-import"
    for m in re.finditer(r"(?:package|model|class)\s+\w+\s*((?:\s*import\s+[\w.]+\.\*\s*;)+)", text):
        if m.group(1).count("import") >= 2 and why_kind == "ClassNotFoundError-after-ok":
            return "import-memo-last-package"
    return "sequence-differs"


def source_const_in_place(repo):
    """does ConstantReferenceApplier put the caller's own constant Symbol into the flat class (True: it is then
    renamed/modified in place) or a deep copy of it (False)?  fail-closed: None"""
    try:
        mod = pyast.parse(open(repo + "/src/pymoca/tree.py").read())
    except (OSError, SyntaxError) as e:
        return None, "cannot parse: %s" % e
    fn = None
    for n in mod.body:
        if isinstance(n, pyast.ClassDef) and n.name == "ConstantReferenceApplier":
            for m in n.body:
                if isinstance(m, pyast.FunctionDef) and m.name == "enterComponentRef":
                    fn = m
    if fn is None:
        return None, "ConstantReferenceApplier.enterComponentRef not found"
    tgt = pyast.dump(pyast.parse("self.extra_symbols[-1][str(tree)]").body[0].value).replace("Load()", "Store()", 1)
    assigns = [n for n in pyast.walk(fn) if isinstance(n, pyast.Assign) and len(n.targets) == 1
               and pyast.dump(n.targets[0]).replace("ctx=Store()", "ctx=X").replace("ctx=Load()", "ctx=X")
               == pyast.dump(pyast.parse("self.extra_symbols[-1][str(tree)]").body[0].value).replace("ctx=Load()", "ctx=X")]
    if len(assigns) != 1:
        return None, "expected one assignment to extra_symbols[-1][str(tree)], found %d" % len(assigns)
    v = pyast.dump(assigns[0].value)
    plain = pyast.dump(pyast.parse("self.classes[-1].find_constant_symbol(tree)").body[0].value)
    copied = pyast.dump(pyast.parse("copy.deepcopy(self.classes[-1].find_constant_symbol(tree))").body[0].value)
    if v == plain:
        return True, "ok"
    if v == copied:
        return False, "ok"
    return None, "the symbol stored by ConstantReferenceApplier has an unknown shape"


def gen_function_library(rng):
    """functions calling functions (2-3 levels) in a package, called from models and from component types
    (tree.py:660-712 pulled functions)"""
    levels = rng.randint(2, 3)
    a = rng.randint(2, 9)
    lines = ["package Lib", "  function f0", "    input Real x;", "    output Real y;", "  algorithm",
             "    y := %d.0 * x;" % a, "  end f0;"]
    for i in range(1, levels):
        lines += ["  function f%d" % i, "    input Real x;", "    output Real y;", "  protected", "    Real t = %d.0;" % i,
                  "  algorithm", "    y := f%d(x) + t;" % (i - 1), "  end f%d;" % i]
    lines += ["end Lib;"]
    top = "Lib.f%d" % (levels - 1)
    mid = "Lib.f%d" % rng.randrange(levels)
    lines += ["model Tank", "  Real h;", "  Real q;", "equation", "  q = %s(h);" % top, "end Tank;",
              "model Plant", "  Tank a;", "  Tank b;", "  Real total;", "equation", "  total = %s(a.q + b.q);" % top, "end Plant;",
              "model Other", "  Real z;", "equation", "  z = %s(2.0);" % mid, "end Other;"]
    models = [["Tank"], ["Plant"], ["Other"]]
    kinds = ["flatten", "flatten", rng.choice(["casadi", "sympy", "xml"])]
    seqs = []
    for _ in range(8):
        seqs.append([[rng.choice(kinds), rng.choice(models)] for _ in range(rng.randint(2, 3))])
    seqs.insert(0, [["flatten", ["Plant"]], ["flatten", ["Plant"]]])
    seqs.insert(1, [["flatten", ["Tank"]], ["flatten", ["Plant"]]])
    return "\n".join(lines) + "\n", seqs


def gen_constant_mod_library(rng):
    """a constant referenced by DOTTED name from one model and MODIFIED by others (component modification, extends
    modification); the user of the constant is requested first (tree.py:441-561, 583-653)"""
    g, g2, m = rng.randint(2, 9), rng.randint(2, 9), rng.randint(2, 9)
    inpkg = rng.random() < 0.4
    lines = (["package K"] if inpkg else []) + ["model Body", "  constant Real g = %d.81;" % g, "  parameter Real m = %d.0;" % m,
             "  Real f;", "equation", "  f = m * g;", "end Body;"] + (["end K;"] if inpkg else [])
    B = "K.Body" if inpkg else "Body"
    lines += ["model Report", "  Real w;", "equation", "  w = %s.g * 1.0;" % B, "end Report;",
              "model Moon", "  %s b(g = %d.62, m = 5.0);" % (B, g2), "end Moon;",
              "model MoonBody", "  extends %s(g = %d.62);" % (B, g2), "end MoonBody;",
              "model Both", "  %s b(g = %d.5);" % (B, g2), "  Real w;", "equation", "  w = %s.g + b.f;" % B, "end Both;"]
    users = [["Report"], ["Both"]]
    mods = [["Moon"], ["MoonBody"], ["Both"], B.split(".")]
    kinds = ["flatten", "flatten", "flatten", rng.choice(["sympy", "xml", "casadi"])]
    seqs = []
    for u in users:
        for x in mods:
            seqs.append([["flatten", u], [rng.choice(kinds), x]])
    rng.shuffle(seqs)
    seqs = seqs[:6] + [[[rng.choice(kinds), rng.choice(users + mods)] for _ in range(3)] for _ in range(3)]
    return "\n".join(lines) + "\n", seqs


def source_star_descends(repo):
    """does the unqualified-import stage of Class._find_class look the rest of a dotted name up inside the class
    it found (True), or return that class whatever follows (False)?  fail-closed: None"""
    try:
        mod = pyast.parse(open(repo + "/src/pymoca/ast.py").read())
    except (OSError, SyntaxError) as e:
        return None, "cannot parse: %s" % e
    fn = None
    for n in mod.body:
        if isinstance(n, pyast.ClassDef) and n.name == "Class":
            for m in n.body:
                if isinstance(m, pyast.FunctionDef) and m.name == "_find_class":
                    fn = m
    if fn is None:
        return None, "Class._find_class not found"
    hits = [n for n in pyast.walk(fn) if isinstance(n, pyast.If) and
            pyast.dump(n.test) == pyast.dump(pyast.parse("c is not None").body[0].value)]
    if len(hits) != 1:
        return None, "expected one `if c is not None:` in _find_class, found %d" % len(hits)
    body = hits[0].body

    def d(src):
        return pyast.dump(pyast.parse(src).body[0])
    memo_ok = [d("self.imports[component_ref.name] = found_comp_ref")]
    descend = d("if component_ref.child:\n    c = c._find_class(component_ref.child[0], False)")
    dumps = [pyast.dump(x) for x in body]
    if len(dumps) == 2 and dumps[0] in memo_ok and dumps[1] == d("return c"):
        return False, "ok"
    if len(dumps) == 3 and dumps[0] in memo_ok and dumps[1] == descend and dumps[2] == d("return c"):
        return True, "ok"
    return None, "unqualified-import stage of _find_class has an unknown shape"


BAD_MODEL = "model Bad%d\n  %s c(nonexistent%d = 1.0);\nend Bad%d;\n"


def judge_lib(case, out):
    """-> list of (why, failing sequence) — every request of every sequence equals the fresh-parse result"""
    bad = []
    if "got" not in out:
        return [("requests could not be run: %s" % json.dumps(out)[:200], None, "harness", None)]
    for seq, got in zip(out["seqs"], out["got"]):
        for i, (r, g) in enumerate(zip(seq, got)):
            w = out["want"][r[0] + ":" + ".".join(r[1])]
            if g[:2] != w[:2]:
                kind = "ClassNotFoundError-after-ok" if (g[:2] == ["exc", "ClassNotFoundError"] and w[0] == "ok") else "differs"
                bad.append(("request %d (%s %s) of sequence %s gives %s; on a fresh parse it gives %s"
                            % (i, r[0], ".".join(r[1]), [[x[0], ".".join(x[1])] for x in seq], g[:2], w[:2]), seq, kind, r[1]))
                break
    return bad


class Names:
    def __init__(self):
        self.k = {}

    def __call__(self, s):
        return self.k.setdefault(s, len(self.k) + 1)


def run(ctx):
    core.check_props(ctx, "C05.v", THEOREMS)
    fp, _ = core.fingerprint(core.REPO + "/src/pymoca/tree.py", {"flatten", "build_instance_tree", "flatten_symbols"})
    ctx.notes["source_fingerprint"] = {"tree.py:flatten+build_instance_tree+flatten_symbols": fp}
    cp, why = source_copy_flag(core.REPO)
    ctx.notes["copy_flag"] = {"value": cp, "how": why}
    if cp is None:
        ctx.oblige("tie:copy-literal-at-tree.flatten", False, why)
    else:
        ok, _, err = core.coq_run(ctx, "Tie_C05", core.HEADER + "Definition src_copy := %s.\n"
                                  "Lemma tie_copy : src_copy = true.\nProof. reflexivity. Qed.\n" % cq_bool(cp))
        ctx.oblige("tie:copy-literal-at-tree.flatten = True", ok, err[-400:])
    # the deepcopy flags the lookup model uses are C06's: re-check them here
    from .c06 import source_flags
    sg, sh, fwhy = source_flags(core.REPO + "/src/pymoca/ast.py")
    ctx.oblige("tie:Class.__deepcopy__ flags = fixed_flags (used by lookup)", sg is True and sh is True,
               "source flags %s %s (%s); when the shape is not recognised the C06 check decides by behaviour" % (sg, sh, fwhy)
               ) if (sg is False or sh is False) else ctx.notes.setdefault("deepcopy_flags", [sg, sh, fwhy])

    sd, sdwhy = source_star_descends(core.REPO)
    ctx.notes["star_descends_flag"] = {"value": sd, "how": sdwhy,
                                       "theorem": "C05_sequences" if sd else "C05_sequences_carved (+ known finding for dotted names)"}
    ctx.oblige("tie:unqualified-import stage of _find_class has a modelled shape", sd is not None, sdwhy)
    ci, ciwhy = source_const_in_place(core.REPO)
    ctx.notes["constants_in_place_flag"] = {"value": ci, "how": ciwhy}
    ctx.oblige("tie:ConstantReferenceApplier has a modelled shape", ci is not None, ciwhy)
    thorough = ctx.tier == "thorough"
    cases = []
    # generated libraries
    n_lib = ctx.scaled(11, 100)
    for i in range(n_lib):
        lib = gen_library(ctx.rng)
        kinds = ["flatten"]
        x = ctx.rng.random()
        if x < 0.15:
            kinds = ["flatten", "casadi"]
        elif x < 0.25:
            kinds = ["flatten", "sympy"]
        elif x < 0.30:
            kinds = ["flatten", "xml"]
        cases.append({"kind": "lib", "src": "generated", "text": lib["text"], "snap": 3,
                      "auto": {"seed": ctx.rng.randrange(1 << 30), "kinds": kinds, "max_reqs": 10,
                               "n2": ctx.scaled(8, 20), "n3": ctx.scaled(6, 15), "n4": ctx.scaled(0, 8)}})
    # redeclare libraries: the redeclaring model is flattened before the redeclaration target and its users
    for i in range(ctx.scaled(4, 30)):
        text, seqs = gen_redeclare_library(ctx.rng)
        cases.append({"kind": "lib", "src": "generated-redeclare", "text": text, "snap": 2, "first_seqs": seqs[:ctx.scaled(6, 12)],
                      "auto": {"seed": ctx.rng.randrange(1 << 30), "kinds": ["flatten"], "max_reqs": 8,
                               "n2": ctx.scaled(3, 12), "n3": ctx.scaled(2, 8)}})
    # packages with several unqualified imports
    for i in range(ctx.scaled(3, 20)):
        text, seqs = gen_import_library(ctx.rng)
        cases.append({"kind": "lib", "src": "generated-imports", "text": text, "snap": 2, "first_seqs": seqs,
                      "auto": {"seed": ctx.rng.randrange(1 << 30), "kinds": ["flatten"], "max_reqs": 6,
                               "n2": ctx.scaled(2, 8), "n3": ctx.scaled(1, 4)}})
    # unqualified imports in an enclosing package, used through dotted and simple names by different models
    for i in range(ctx.scaled(3, 20)):
        text, seqs = gen_dotted_import_library(ctx.rng)
        cases.append({"kind": "lib", "src": "generated-dotted-imports", "text": text, "snap": 2, "first_seqs": seqs,
                      "auto": {"seed": ctx.rng.randrange(1 << 30), "kinds": ["flatten"], "max_reqs": 6,
                               "n2": ctx.scaled(2, 8), "n3": ctx.scaled(1, 4)}})
    # functions calling functions; constants referenced by dotted name and modified elsewhere
    for i in range(ctx.scaled(4, 24)):
        text, seqs = (gen_function_library if i % 2 == 0 else gen_constant_mod_library)(ctx.rng)
        cases.append({"kind": "lib", "src": "generated-functions" if i % 2 == 0 else "generated-constant-mods", "text": text,
                      "snap": 2, "first_seqs": seqs,
                      "auto": {"seed": ctx.rng.randrange(1 << 30), "kinds": ["flatten"], "max_reqs": 6,
                               "n2": ctx.scaled(2, 8), "n3": ctx.scaled(1, 4)}})
    # every test model
    files = sorted(glob.glob(core.REPO + "/test/models/*.mo"))
    for f in files:
        try:
            text = open(f).read()
        except OSError:
            continue
        if len(text) > 20000 and not thorough:
            continue
        cases.append({"kind": "lib", "src": os.path.basename(f), "text": text, "snap": 2,
                      "auto": {"seed": ctx.rng.randrange(1 << 30), "kinds": ["flatten"], "max_reqs": 8,
                               "n2": ctx.scaled(3, 16), "n3": ctx.scaled(1, 8), "n4": ctx.scaled(0, 4)}})
    # casadi generate on a few test models (generate() flattens the caller's tree without copying it first)
    for name in ["Spring.mo", "SimpleCircuit.mo", "NestedClasses.mo", "ConstantReferences.mo", "Aircraft.mo", "Connector.mo"]:
        f = core.REPO + "/test/models/" + name
        if os.path.exists(f):
            cases.append({"kind": "lib", "src": "casadi:" + name, "text": open(f).read(), "snap": 0,
                          "auto": {"seed": ctx.rng.randrange(1 << 30), "kinds": ["casadi", "flatten"], "max_reqs": 6,
                                   "n2": ctx.scaled(4, 12), "n3": ctx.scaled(1, 6)}})
    # CLI: several -m on one library tree vs separate runs
    n_cli = ctx.scaled(6, 20)
    for i in range(n_cli):
        lib = gen_library(ctx.rng)
        models = [k for k, v in lib["classes"].items() if v == "model"]
        text = lib["text"]
        if ctx.rng.random() < 0.5 and models:
            text += BAD_MODEL % (i, ctx.rng.choice(models), i, i)
            models.append("Bad%d" % i)
        ctx.rng.shuffle(models)
        pick = models[:ctx.rng.randint(2, 4)]
        if ctx.rng.random() < 0.4:
            pick = pick + [pick[0]]
        cases.append({"kind": "cli", "text": text, "models": pick,
                      "target": "sympy" if ctx.rng.random() < 0.4 else None})
    n_cli_casadi = ctx.scaled(4, 16)
    for i in range(n_cli_casadi):
        cases.append(gen_casadi_cli(ctx.rng, i))
    n_cli += n_cli_casadi
    # lookup model: real _find_class (with the import memo being written) vs Model/C05_frame.v `find`
    for i in range(ctx.scaled(8, 80)):
        text = [gen_import_library(ctx.rng)[0], gen_library(ctx.rng)["text"], gen_dotted_import_library(ctx.rng)[0]][i % 3]
        cases.append({"kind": "find", "text": text, "seed": ctx.rng.randrange(1 << 30), "max": ctx.scaled(30, 60)})
    try:
        corpus = json.load(open(core.VERIF + "/corpus/C05/cases.json"))
    except OSError:
        corpus = []
    cases = corpus + cases

    from concurrent.futures import ThreadPoolExecutor
    k = 4
    order = sorted(range(len(cases)), key=lambda i: -len(cases[i]["text"]))
    chunks = [order[i::k] for i in range(k)]
    with ThreadPoolExecutor(max_workers=k) as ex:
        parts = list(ex.map(lambda ch: core.run_child(ctx, "c05", [cases[i] for i in ch], timeout=ctx.scaled(900, 3600))
                            if ch else [], chunks))
    outs = [None] * len(cases)
    for ch, part in zip(chunks, parts):
        for i, o in zip(ch, part):
            outs[i] = o

    # (a) property oracle
    n_seq = n_req = n_ok = 0
    nontrivial = set()
    kinds_count = {}
    for c, o in zip(cases, outs):
        if c["kind"] == "find":
            continue
        if c["kind"] == "cli":
            if "joint" not in o:
                core.violation(ctx, "impl-violation", {"case": c, "why": "compiler.main could not be run: %s" % o})
            elif not all(isinstance(x, int) for x in [o["joint"]] + o["separate"]) or o["joint"] != sum(o["separate"]):
                core.violation(ctx, "impl-violation",
                               {"case": c, "why": "compiler.main with -m %s returns %s; the separate runs return %s"
                                % (" -m ".join(c["models"]), o["joint"], o["separate"])})
            nontrivial.add("cli:" + json.dumps(c["models"]) + str(hash(c["text"])))
            continue
        bad = judge_lib(c, o)
        bad.sort(key=lambda b: tag_of(c["text"], b[2], b[3]) != "sequence-differs")
        for why_bad, seq, kind, rpath in bad[:2]:
            core.report(ctx, tag_of(c["text"], kind, rpath), why_bad,
                        {"case": {"kind": "lib", "text": c["text"], "seqs": [seq] if seq else [], "snap": 0,
                                  "src": c.get("src")}, "why": why_bad})
        if "got" in o:
            for seq, got in zip(o["seqs"], o["got"]):
                n_seq += 1
                n_req += len(seq)
                n_ok += sum(1 for g in got if g[0] == "ok")
                for r in seq:
                    kinds_count[r[0]] = kinds_count.get(r[0], 0) + 1
                if len(seq) >= 2:
                    nontrivial.add(str(hash(c["text"])) + json.dumps(seq))

    # (b) correspondence: writes that reached the parsed tree vs the model's allowed set
    enc, meta = [], []
    wcount = {k: 0 for k in KINDS}
    for ci, (c, o) in enumerate(zip(cases, outs)):
        if c["kind"] != "lib" or "writes" not in o:
            continue
        for r, ws in o["writes"]:
            nm = Names()
            for w in ws:
                wcount[KINDS[w[1]]] += 1
            enc.append("(%s, %s, %s, %s)" % (cq_bool(bool(cp)), cq_bool(ci is not False), cq_list([cq_nat(nm(x)) for x in r[1]]),
                                        cq_list(["(%s, %s)" % (cq_list([cq_nat(nm(x)) for x in w[0]]), KINDS[w[1]])
                                                 for w in ws])))
            meta.append((ci, r, ws))
    bad = core.coq_eval_cases(ctx, "writes", "From PV Require Import Lib.ObjGraph Model.C05_frame.\nImport ListNotations.\n",
                              "bool * bool * path * list (path * wkind)", enc, "check_case", shard=150)
    ctx.oblige("correspondence:writes-to-parsed-tree-within-model-footprint", bad == [],
               "requests with a write outside the allowed set: %s" %
               (None if bad is None else [(cases[meta[j][0]].get("src"), meta[j][1], [w for w in meta[j][2] if w[1] == 3][:3])
                                          for j in bad[:4]]))
    if bad and not ctx.violations:
        j = bad[0]
        core.violation(ctx, "correspondence-broken",
                       {"correspondence": "Model/C05_frame.v check_case vs snapshot diff of the parsed tree",
                        "case": {"kind": "lib", "text": cases[meta[j][0]]["text"], "seqs": [[meta[j][1]]], "snap": 1},
                        "writes": meta[j][2][:10]}, no_input=True)
    # (c) correspondence: the lookup model (`find`: own classes, import memo, unqualified imports, parent) vs
    #     the real _find_class, and soundness of every memo the real code wrote
    fenc, fmeta = [], []
    n_find_q = n_memo_states = 0
    for ci, (c, o) in enumerate(zip(cases, outs)):
        if c["kind"] != "find" or "queries" not in (o or {}):
            continue
        nm = Names()

        def pth(p):
            return cq_list([cq_nat(nm("c:" + x)) for x in p])
        groups = []
        for q in o["queries"]:
            key = json.dumps(q["xm"])
            if not groups or groups[-1][0] != key:
                groups.append((key, q["xm"], []))
            groups[-1][2].append(q)
        for key, xm, qs in groups:
            n_memo_states += any(e[2] for e in xm)
            xenc = cq_list(["(%s, Ext %s %s [] false)" % (pth(e[0]), cq_list([pth(s) for s in e[1]]),
                                                          cq_list(["(%s, %s)" % (cq_nat(nm("c:" + k)), pth(v)) for k, v in e[2]]))
                            for e in xm])
            qenc = cq_list(["(%s, %s, %s, %s)" % (cq_list([cq_nat(nm("c:" + x)) for x in reversed(q["p"])]), cq_nat(nm("c:" + q["k"])),
                                                  pth(q["ks"]),
                                                  "None" if q["res"] is None else "(Some %s)" % pth(q["res"])) for q in qs])
            fenc.append("(%s, %s, %s, %s)" % (cq_bool(bool(sd)), cq_list([pth(p) for p in o["paths"]]), xenc, qenc))
            fmeta.append((ci, qs[0]))
            n_find_q += len(qs)
    fbad = core.coq_eval_cases(ctx, "find", "From PV Require Import Lib.ObjGraph Model.C05_frame.\nImport ListNotations.\n",
                               "bool * list path * xmap * list (list key * key * list key * option path)", fenc, "check_find", shard=100)
    ctx.oblige("correspondence:lookup-model-vs-_find_class-with-import-memo", fbad == [],
               "mismatching groups: %s" % (None if fbad is None else [(fmeta[j][1]["p"], fmeta[j][1]["k"], fmeta[j][1]["res"],
                                                                           fmeta[j][1]["xm"]) for j in fbad[:3]]))
    if fbad and not ctx.violations:
        j = fbad[0]
        core.violation(ctx, "correspondence-broken",
                       {"correspondence": "Model/C05_frame.v check_find vs Class._find_class",
                        "case": cases[fmeta[j][0]], "first_query": fmeta[j][1]}, no_input=True)
    ctx.notes["lookup_correspondence"] = {"queries": n_find_q, "groups": len(fenc), "groups_with_memo": n_memo_states}

    def still_fails(e):
        case = (e.get("replay") or {}).get("case")
        if not case:
            return None
        o = core.run_child(ctx, "c05", [case])[0]
        b = judge_lib(case, o)
        return bool(b) and tag_of(case["text"], b[0][2], b[0][3]) == e.get("tag")
    core.replay_known(ctx, still_fails)

    ctx.cov["evaluations"] = n_seq + n_cli
    ctx.cov["distinct_nontrivial"] = len(nontrivial)
    ctx.cov["rule"] = ("request sequences (length 2-3%s, with repetition; flatten + casadi/sympy/xml generate) over the classes "
                       "of %d generated libraries and %d test models, each request compared with a fresh parse; %d "
                       "compiler.main runs with 2-5 -m vs separate runs; %d snapshot diffs of the parsed tree checked "
                       "against the model's allowed writes; non-trivial = sequence of >= 2 requests, distinct (text, sequence)"
                       % (", 4" if thorough else "", n_lib, len(files), n_cli, len(enc)))
    libs = [i for i, c in enumerate(cases) if c["kind"] == "lib" and "seqs" in (outs[i] or {})]
    ctx.cov["samples"] = [[[r[0], ".".join(r[1])] for r in outs[i]["seqs"][0]] for i in libs[:2]] + \
                         [c["models"] for c in cases if c["kind"] == "cli"][:1]
    ctx.notes["input_distribution"] = {"sequences": n_seq, "requests": n_req, "requests_ok": n_ok, "request_kinds": kinds_count,
                                       "observed_writes_to_parsed_tree": wcount, "cli_cases": n_cli}
    ctx.assumptions += [
        "a request is modelled as an arbitrary program that reads the parsed tree only through three queries (class "
        "lookup with import memo / unqualified imports / parent climb; effective value of a constant; class content); "
        "that the three exact writes are invisible to every such program is PROVED (C05_neutral); that the real flatten "
        "reads the parsed tree only this way is validated by the sequence oracle and the lookup correspondence",
        "lookup model: simple names, import packages named from the root, no `encapsulated`, no qualified imports "
        "(libraries with qualified import clauses are skipped by the lookup correspondence)",
        "flatten is abstracted to its footprint (arbitrary writes inside the looked-up class + allocation); that the real "
        "flatten stays inside it is validated by the snapshot correspondence, not proved (content of flatten: C07/C08)",
        "the result of a request is modelled as a function of the parsed tree at the time of the request",
        "the Python harness (snapshots by id(), generators, fresh-parse reference) is trusted for the tie",
    ]


def replay(ctx, path):
    rec = json.load(open(path))
    case = rec.get("case")
    if not case:
        print("replay: no concrete input in this record")
        return 1
    out = core.run_child(ctx, "c05", [case])[0]
    if case["kind"] == "find":
        print("replay: lookup-model case; re-run ./check C05 to evaluate it against the model")
        return 1
    if case["kind"] == "cli":
        why = None if ("joint" in out and out["joint"] == sum(out["separate"])) else "joint %s vs separate %s" % (out.get("joint"), out.get("separate"))
    else:
        bad = judge_lib(case, out)
        why = bad[0][0] if bad else None
        if bad and rec.get("tag") == "import-memo-last-package":
            print("replay: (known finding import-memo-last-package)")
    print("replay:", why or "property holds on this input")
    return 1 if why else 0
