"""Child for C11: runs the REAL CasADi generator.

case kinds
  {"kind": "table", "methods": [...], "probes": [[key, model_text], ...]}
      -> hasattr(casadi.MX, m) for each method name, and for each one-operator probe model the
         opcode / operand order of the node the generator built (F table)
  {"kind": "model", "text": ..., "name": ..., "points": [ {var: value | [values]} ... ]}
      -> generate(), then dae_residual_function / initial_residual_function evaluated at each
         point (argument order: time, states, der_states, alg_states, inputs, constants,
         parameters), values assembled by symbol name
"""
import math

from vlib.core import child_main

_OPNAMES = None


def _opnames():
    global _OPNAMES
    if _OPNAMES is None:
        import casadi as ca
        want = ["OP_ADD", "OP_SUB", "OP_MUL", "OP_DIV", "OP_POW", "OP_CONSTPOW", "OP_SQ", "OP_LT", "OP_LE", "OP_EQ",
                "OP_NE", "OP_FMIN", "OP_FMAX", "OP_FABS", "OP_NEG", "OP_CALL", "OP_IF_ELSE_ZERO", "OP_NOT",
                "OP_AND", "OP_OR", "OP_TWICE", "OP_INV"]
        _OPNAMES = {}
        for n in want:
            if hasattr(ca, n):
                _OPNAMES[getattr(ca, n)] = n
    return _OPNAMES


def _generate(text, name, options=None):
    import pymoca.parser
    from pymoca.backends.casadi import generator
    tree = pymoca.parser.parse(text)
    if tree is None:
        raise SyntaxError("parse returned None")
    return generator.generate(tree, name, options)


def _peel(e):
    """skip the getoutput / reshape wrappers around a call result"""
    import casadi as ca
    for _ in range(4):
        if e.is_output() or (e.n_dep() == 1 and e.op() in (getattr(ca, "OP_RESHAPE", -1), getattr(ca, "OP_GETNONZEROS", -2))):
            e = e.dep(0)
        else:
            break
    return e


def probe_one(text):
    import casadi as ca
    m = _generate(text, "P")
    eq = ca.MX(m.equations[0])
    if not eq.is_op(ca.OP_SUB) or eq.n_dep() != 2:
        return {"opcode": "OP_UNKNOWN", "detail": "residual is not a subtraction: %s" % str(eq)[:80]}
    lhs, rhs = eq.dep(0), eq.dep(1)
    if not (lhs.is_symbolic() and lhs.name() == "y"):
        return {"opcode": "OP_UNKNOWN", "detail": "lhs of the residual is not y: %s" % str(eq)[:80]}
    rhs = _peel(rhs)
    code = rhs.op()
    name = _opnames().get(code, "OP_%d" % code)
    deps = []
    for i in range(rhs.n_dep()):
        d = rhs.dep(i)
        deps.append(d.name() if d.is_symbolic() else "?")
    swapped = deps[:2] == ["b", "a"]
    return {"opcode": name, "swapped": swapped, "deps": deps, "str": str(eq)[:80]}


def _vec(variables, point):
    out = []
    for v in variables:
        s = v.symbol
        n = s.size1() * s.size2()
        val = point[s.name()]
        if isinstance(val, list):
            if len(val) != n:
                raise ValueError("size of %s: %d values for %d entries" % (s.name(), len(val), n))
            out += [float(x) for x in val]
        else:
            if n != 1:
                raise ValueError("scalar value for array %s" % s.name())
            out.append(float(val))
    return out


def _num(x):
    x = float(x)
    if math.isnan(x):
        return "nan"
    if math.isinf(x):
        return "inf" if x > 0 else "-inf"
    return x.hex()


def run_model(case):
    import numpy as np
    try:
        m = _generate(case["text"], case["name"], case.get("options"))
    except Exception as e:  # noqa - the class is the observation
        return {"generate": "raised", "exc": type(e).__name__, "msg": str(e)[:300]}
    out = {"generate": "ok", "dae": [], "init": [],
           "layout": {k: [[v.symbol.name(), v.symbol.size1() * v.symbol.size2()] for v in getattr(m, k)]
                      for k in ("states", "der_states", "alg_states", "inputs", "constants", "parameters")}}
    try:
        f = m.dae_residual_function
        g = m.initial_residual_function
    except Exception as e:  # noqa
        return {"generate": "raised", "exc": type(e).__name__, "msg": "residual function: " + str(e)[:300]}
    for p in case["points"]:
        args = [float(p["time"]), _vec(m.states, p), _vec(m.der_states, p), _vec(m.alg_states, p),
                _vec(m.inputs, p), _vec(m.constants, p), _vec(m.parameters, p)]
        for fn, key in ((f, "dae"), (g, "init")):
            if fn.n_out() == 0:
                out[key].append([])
                continue
            r = fn(*args)
            r = np.array(r).ravel(order="F")
            out[key].append([_num(x) for x in r])
    return out


IF_PROBE = """function F
  input Real u; input Real w; output Real a; output Real b;
algorithm
  a := u; b := w;
  %s
end F;
model P input Real u; input Real w; Real p; Real q; equation (p, q) = F(u, w); end P;
"""
# witness if-statements: (body, (u, w), sequential result (a, b), result of the per-variable merge before d551655)
IF_WITNESSES = [
    # the condition reads a variable the statement assigns; b's values read nothing assigned before
    ("if a > 0 then a := a - 5; b := 1 + w; else a := a + 5; b := 3 * w; end if;", (3.0, 2.0), (-2.0, 3.0), (-2.0, 6.0)),
    # the branches assign in different orders and read each other
    ("if u > 0 then a := 1; b := a + 10; else b := 5; a := b + 100; end if;", (-1.0, 0.0), (105.0, 5.0), (100.0, 5.0)),
    # the condition reads an assigned variable and b's values read it too
    ("if a > 0 then a := a - 5; b := a + 1; else a := a + 5; b := a + 2; end if;", (3.0, 0.0), (-2.0, -1.0), (-2.0, 0.0)),
]


def probe_if():
    """which exitIfStatement does this tree have?  All witnesses sequential -> "sequential"; all as the
    per-variable merge -> "merged"; anything else (e.g. only some variables through temporaries) is reported
    verbatim and makes the tie fail closed"""
    import numpy as np
    got = []
    for body, (u, w), _, _ in IF_WITNESSES:
        m = _generate(IF_PROBE % body, "P")
        r = np.array(m.dae_residual_function(0, [], [], [0, 0], [u, w], [], [])).ravel()
        got.append((-float(r[0]), -float(r[1])))
    if all(g == wit[2] for g, wit in zip(got, IF_WITNESSES)):
        return "sequential"
    if all(g == wit[3] for g, wit in zip(got, IF_WITNESSES)):
        return "merged"
    return "other:%r" % (got,)


def handler(case):
    if case["kind"] == "table":
        import casadi as ca
        res = {"hasattr": {mname: bool(hasattr(ca.MX, mname)) for mname in case["methods"]}, "probes": {},
               "casadi": ca.__version__}
        try:
            res["if_probe"] = probe_if()
        except Exception as e:  # noqa
            res["if_probe"] = "unknown:%s" % type(e).__name__
        for key, text in case["probes"]:
            try:
                res["probes"][key] = probe_one(text)
            except Exception as e:  # noqa
                res["probes"][key] = {"opcode": "OP_UNKNOWN", "exc": type(e).__name__, "detail": str(e)[:200]}
        return res
    return run_model(case)


if __name__ == "__main__":
    child_main(handler)
