"""Child for C05: request sequences (flatten / backend generate) on ONE parsed tree of the real pymoca,
each result compared with the same request on a FRESH parse; identity+structure snapshots of the
parsed tree around requests (which original objects/fields were written); compiler.main with
several -m against separate runs."""
import enum
import hashlib
import io
import itertools
import os
import random
import tempfile

from vlib.core import child_main
from vlib.impl.c06 import ATOMS, cref, digest, flat_summary, parse


# ---- requests ------------------------------------------------------------------------------------
def request(tree, req):
    kind, path = req
    try:
        if kind == "flatten":
            from pymoca import tree as ptree
            ft = ptree.flatten(tree, cref(path))
            return ["ok", digest(ft), flat_summary(ft)[:2]]
        if kind == "casadi":
            from pymoca.backends.casadi import generator as g
            m = g.generate(tree, ".".join(path), {})
            parts = []
            for attr in ("states", "der_states", "alg_states", "inputs", "outputs", "constants", "parameters"):
                parts.append([attr, [v.symbol.name() for v in getattr(m, attr)]])
            parts.append(["equations", [str(e) for e in m.equations]])
            parts.append(["initial_equations", [str(e) for e in m.initial_equations]])
            return ["ok", hashlib.sha1(repr(parts).encode()).hexdigest()[:16], parts[0]]
        if kind == "sympy":
            from pymoca.backends.sympy import generator as g
            return ["ok", hashlib.sha1(g.generate(tree, ".".join(path)).encode()).hexdigest()[:16]]
        if kind == "xml":
            from pymoca.backends.xml import generator as g
            return ["ok", hashlib.sha1(g.generate(tree, ".".join(path)).encode()).hexdigest()[:16]]
        raise ValueError(kind)
    except RecursionError:
        return ["exc", "RecursionError"]
    except Exception as e:  # noqa - the exception class is the outcome
        return ["exc", type(e).__name__]


# ---- snapshots -------------------------------------------------------------------------------------
def snapshot(root):
    """id -> (label tokens, type name, {field: shallow value}, object); objects are kept alive"""
    seen = {}
    stack = [(root, ())]
    while stack:
        o, label = stack.pop()
        if id(o) in seen or isinstance(o, ATOMS):
            continue
        if isinstance(o, (list, tuple)):
            fields = [(("idx", i), v) for i, v in enumerate(o)]
        elif isinstance(o, dict):
            fields = [(("key", str(k)), v) for k, v in o.items()]
        elif hasattr(o, "__self__") and hasattr(o, "__func__"):
            seen[id(o)] = (label, "method", {("self",): ("o", id(o.__self__))}, o)
            continue
        elif hasattr(o, "__dict__"):
            fields = [(("attr", k), v) for k, v in o.__dict__.items()]
        else:
            seen[id(o)] = (label, type(o).__name__, {("repr",): ("a", repr(o))}, o)
            continue
        sh = {}
        for f, v in fields:
            if isinstance(v, ATOMS):
                sh[f] = ("a", repr(v))
            elif hasattr(v, "__self__") and hasattr(v, "__func__"):
                sh[f] = ("m", id(v.__self__))       # bound method: identity of the object it is bound to
            else:
                sh[f] = ("o", id(v))
                stack.append((v, label + (f,)))
        seen[id(o)] = (label, type(o).__name__, sh, o)
    return seen


def classify(label, tname, field, obj_before_root):
    """-> (class path, kind)  kind: 0 import memo, 1 constant symbol, 2 argument hook, 3 other"""
    path = []
    i = 0
    c = obj_before_root
    while i + 1 < len(label) and label[i] == ("attr", "classes") and label[i + 1][0] == "key":
        path.append(label[i + 1][1])
        c = c.classes.get(label[i + 1][1], c) if hasattr(c, "classes") else c
        i += 2
    rest = label[i:]
    if tname == "ClassModificationArgument" and field == ("attr", "__deepcopy__"):
        return path, 2
    if rest[:1] == (("attr", "imports"),) or (not rest and field == ("attr", "imports")):
        return path, 0
    if len(rest) >= 2 and rest[0] == ("attr", "symbols") and rest[1][0] == "key":
        s = getattr(c, "symbols", {}).get(rest[1][1])
        if s is not None and "constant" in getattr(s, "prefixes", []):
            return path, 1
    return path, 3


def diff_writes(before, after, root):
    out = []
    for i, (label, tname, sh, _o) in before.items():
        if i not in after:
            continue                      # became unreachable: the write is reported on its owner
        sh2 = after[i][2]
        for f in set(sh) | set(sh2):
            if sh.get(f) != sh2.get(f):
                p, k = classify(label, tname, f, root)
                out.append([p, k, "%s%s.%s" % (tname, "".join("[%s]" % t[1] for t in label[-3:]), f[-1])])
    return out


# ---- sequences ---------------------------------------------------------------------------------------
def class_paths(tree):
    out = []

    def rec(c, p):
        for n, k in c.classes.items():
            out.append(p + [n])
            rec(k, p + [n])
    rec(tree, [])
    return out


def auto_seqs(paths, spec):
    rng = random.Random(spec["seed"])
    kinds = spec.get("kinds", ["flatten"])
    reqs = [[k, p] for p in paths for k in kinds]
    if len(reqs) > spec.get("max_reqs", 12):
        reqs = rng.sample(reqs, spec.get("max_reqs", 12))
    seqs = [[r] for r in reqs]                      # length 1 (sanity: equals fresh by construction? no: same tree object is reused below)
    pairs = [list(x) for x in itertools.product(reqs, repeat=2)]
    rng.shuffle(pairs)
    seqs = pairs[:spec["n2"]]
    for _ in range(spec["n3"]):
        seqs.append([rng.choice(reqs) for _ in range(3)])
    for _ in range(spec.get("n4", 0)):
        seqs.append([rng.choice(reqs) for _ in range(4)])
    return seqs


def run_lib(case):
    text = case["text"]
    t0 = parse(text)
    if "seqs" in case:
        seqs = case["seqs"]
    else:
        seqs = [list(x) for x in case.get("first_seqs", [])] + auto_seqs(class_paths(t0), case["auto"])
    want = {}
    got = []
    writes = []
    nsnap = case.get("snap", 0)
    for si, seq in enumerate(seqs):
        for r in seq:
            key = r[0] + ":" + ".".join(r[1])
            if key not in want:
                want[key] = request(parse(text), r)         # FRESH parse per distinct request
        tree = parse(text)
        res = []
        for r in seq:
            if si < nsnap:
                b = snapshot(tree)
                res.append(request(tree, r))
                writes.append([r, diff_writes(b, snapshot(tree), tree)])
            else:
                res.append(request(tree, r))
        got.append(res)
    return {"seqs": seqs, "got": got, "want": want, "writes": writes}


def run_cli(case):
    """case: text (single file lib.mo) or files {relative path: text}; models; target.
    Every invocation gets its own copy of the files (generated code / cache files of one run must
    not be visible to another)."""
    import logging
    import shutil
    import compiler                                  # $REPO/tools/compiler.py
    logging.disable(logging.CRITICAL)
    files = case.get("files") or {"lib.mo": case["text"]}
    cwd = os.getcwd()

    def one(models):
        d = tempfile.mkdtemp(prefix="c05cli_")
        try:
            for rel, text in files.items():
                f = os.path.join(d, rel)
                os.makedirs(os.path.dirname(f), exist_ok=True)
                open(f, "w").write(text)
            os.chdir(d)
            args = []
            if case.get("target"):
                args += ["-t", case["target"], "-o", d]
            for m in models:
                args += ["-m", m]
            args.append(os.path.join(d, "lib.mo") if "files" not in case else d)
            try:
                return compiler.main(args)
            except SystemExit as e:
                return "exit:%s" % e.code
        finally:
            os.chdir(cwd)
            shutil.rmtree(d, ignore_errors=True)

    out = {}
    try:
        out["joint"] = one(case["models"])
        out["separate"] = [one([m]) for m in case["models"]]
    finally:
        logging.disable(logging.NOTSET)
    return out


def run_find(case):
    """real Class._find_class for simple names from every class, twice (so that the import memo written by the
    first pass is used by the second); the imports (unqualified packages + memo) are recorded before each query"""
    from pymoca import ast
    from vlib.impl.c06 import class_nodes
    t = parse(case["text"])
    nodes = class_nodes(t)
    rng = random.Random(case["seed"])
    names = sorted({p[-1] for p, _ in nodes if p})

    def imports_state():
        out = []
        for p, c in nodes:
            stars, memo = [], []
            for k, v in c.imports.items():
                if k == "*":
                    stars = [list(x.to_tuple()) for x in v.components]
                elif isinstance(v, ast.ComponentRef):
                    memo.append([k, list(v.to_tuple())])
                else:
                    return None                     # qualified import clause: outside the modelled fragment
            if stars or memo:
                out.append([p, stars, memo])
        return out

    dotted = sorted({(p[-2], p[-1]) for p, _ in nodes if len(p) >= 2})
    pairs = [(p, c, (k,)) for p, c in nodes for k in names] + [(p, c, d) for p, c in nodes for d in dotted]
    if len(pairs) > case.get("max", 40):
        pairs = rng.sample(pairs, case.get("max", 40))
    queries = []
    for _pass in range(2):
        for p, c, k in pairs:
            st = imports_state()
            if st is None:
                return {"unsupported": True}
            try:
                r = c._find_class(ast.ComponentRef.from_tuple(tuple(k)))
                res = list(r.full_reference().to_tuple())
            except (ast.ClassNotFoundError, KeyError):
                res = None
            queries.append({"xm": st, "p": p, "k": k[0], "ks": list(k[1:]), "res": res})
    return {"paths": [p for p, _ in nodes], "queries": queries, "final": imports_state()}


def handler(case):
    if case["kind"] == "find":
        return run_find(case)
    if case["kind"] == "cli":
        return run_cli(case)
    return run_lib(case)


if __name__ == "__main__":
    child_main(handler)
