"""Child: replay a history of source edits / additions / option changes / version changes /
transfer_model calls on the REAL pymoca.backends.casadi.api in a temp folder with controlled
mtimes, and record for every call: raised?, served without compiling?, fingerprint of the returned
model, and the same for an independent fresh compile (cache disabled) of the same folder state.

Instrumentation (of the environment, not of the cache logic under test):
* api.__version__ is set to a versioneer-style string (VERSIONS), some pairs differing only after '+';
* api._compile_model is wrapped: it counts calls (to tell "served from cache") and stamps the
  compiled model's `outputs` with the compiling version, i.e. it plays a compiler whose output
  differs between pymoca versions - the reason the version check exists;
* api.save_model is wrapped to learn when the cache file was written; its mtime is then set to the
  history's logical time `now` with os.utime."""
import json
import os
import shutil
import tempfile

from vlib.core import child_main

# (folder id, file id) -> (relative path, kind)
FILES = {
    (0, 0): ("Main.mo", "main"),
    (0, 1): ("over/Base.mo", "base"),       # a local definition that shadows the library's Base
    (0, 2): ("Extra0.mo", "extra"),
    (0, 3): ("deep/er/Extra3.mo", "extra"),
    (1, 0): ("Base.mo", "base"),
    (1, 1): ("sub/ExtraA.mo", "extra"),
    (1, 2): ("OtherA.mo", "extra"),
    (2, 0): ("Base.mo", "base"),
    (2, 1): ("sub/ExtraB.mo", "extra"),
    # reached only through a symlinked DIRECTORY (m/shared -> <root>/shared_m, l1/linked -> <root>/shared_l1):
    # os.walk(followlinks=True) descends into it, in the compiler and in the mtime check
    (0, 4): ("shared/Base.mo", "base"),
    (1, 3): ("linked/Base.mo", "base"),
    # a symlinked single FILE (l2/BaseLink.mo -> <root>/shared_l2/BaseTarget.mo)
    (2, 2): ("BaseLink.mo", "base"),
}
DIR_LINKS = {(0, "shared"): "shared_m", (1, "linked"): "shared_l1"}
FILE_LINKS = {(2, 2): "shared_l2/BaseTarget.mo"}
FOLDERS = {0: "m", 1: "l1", 2: "l2"}

# version id -> a realistic versioneer string; ids {1,2,3}, {4,7}, {5,6} differ only in the local
# label after '+' (a cache made by one must not be accepted by another)
VERSIONS = {1: "0.9.2", 2: "0.9.2+3.g1a2b3c4", 3: "0.9.2+3.g1a2b3c4.dirty", 4: "0.9.3",
            5: "0+untagged.22.gbd59ad3", 6: "0+untagged.23.g0000000", 7: "0.9.3+1.gabcdef0"}


def version_string(n):
    return VERSIONS.get(n, "0.10.%d" % n)

MAIN = """model Main
  extends Base;
  parameter Real pm = %(v)s;
  constant Real cm = 2.5;
  Real x;
  Real v[2];
  Real y;
  Real tmp_a;
  Real aux_b;
  Real _c;
equation
  der(x) = pm * x + %(v)s + q + cm;
  v[1] = x;
  v[2] = 2 * x;
  y = v[1];
  tmp_a = 2 * x;
  aux_b = tmp_a + 1;
  _c = 3 * x;
end Main;
"""
BASE = "model Base\n  parameter Real q = %(v)s;\nend Base;\n"
EXTRA = "model %(n)s\n  parameter Real e = %(v)s;\nend %(n)s;\n"
BROKEN = "model %(n)s\n  extends Nope;\nend %(n)s;\n"


def text(key):
    """key = (folder, file id, content id) of the path the content was WRITTEN to (a rename moves it)"""
    folder, fid, cid = key
    rel, kind = FILES[(folder, fid)]
    name = {"main": "Main", "base": "Base"}.get(kind) or os.path.basename(rel)[:-3]
    if cid == 0:
        return BROKEN % {"n": name}
    v = "%d.5" % cid
    if kind == "main":
        return MAIN % {"v": v}
    if kind == "base":
        return BASE % {"v": v}
    return EXTRA % {"n": name, "v": v}


_state = {"calls": 0, "saves": 0, "quiet": False}
_memo = {}
_patched = []


def _patch():
    if _patched:
        return _patched[0]
    import pymoca.backends.casadi.api as api
    orig_compile, orig_save = api._compile_model, api.save_model

    def compile_wrapper(model_folder, model_name, compiler_options):
        if not _state["quiet"]:
            _state["calls"] += 1
        model = orig_compile(model_folder, model_name, compiler_options)
        model.outputs = list(model.outputs) + ["verif_compiled_by_" + str(api.__version__)]
        return model

    def save_wrapper(*a, **k):
        r = orig_save(*a, **k)
        _state["saves"] += 1
        return r

    api._compile_model = compile_wrapper
    api.save_model = save_wrapper
    _patched.append(api)
    return api


def fingerprint(model):
    import casadi as ca
    import numpy as np
    out = {}
    for cat in ["states", "der_states", "alg_states", "inputs", "parameters", "constants"]:
        out[cat] = []
        for v in getattr(model, cat):
            val = v.value
            try:
                val = float(val)
                val = round(val, 6) if val == val else "nan"
            except Exception:  # noqa
                val = str(val)
            out[cat].append([v.symbol.name(), [int(x) for x in v.symbol.size()], val])
    f = model.dae_residual_function
    args = [ca.DM(np.arange(1, f.size1_in(i) * f.size2_in(i) + 1).reshape(f.size1_in(i), f.size2_in(i)) * 0.5)
            for i in range(f.n_in())]
    r = f(*args)
    if not isinstance(r, (list, tuple)):
        r = [r]
    out["res"] = [[round(float(x), 6) for x in np.array(ca.DM(e)).flatten()] for e in r]
    out["outputs"] = list(model.outputs)
    out["aliases"] = sorted([c, sorted(a)] for c, a in model.alias_relation)
    return json.dumps(out, sort_keys=True)


def handler(case):
    api = _patch()
    root = tempfile.mkdtemp(prefix="c20_")
    try:
        return replay(api, root, case)
    finally:
        shutil.rmtree(root, ignore_errors=True)


def replay(api, root, case):
    dirs = {k: os.path.join(root, v) for k, v in FOLDERS.items()}
    for d in dirs.values():
        os.makedirs(d)
    for (fo, name), target in DIR_LINKS.items():
        os.makedirs(os.path.join(root, target))
        os.symlink(os.path.join(root, target), os.path.join(dirs[fo], name), target_is_directory=True)
    present = {}

    def write(folder, fid, mtime, cid):
        p = os.path.join(dirs[folder], FILES[(folder, fid)][0])
        os.makedirs(os.path.dirname(p), exist_ok=True)
        if (folder, fid) in FILE_LINKS and not os.path.lexists(p):
            target = os.path.join(root, FILE_LINKS[(folder, fid)])
            os.makedirs(os.path.dirname(target), exist_ok=True)
            os.symlink(target, p)
        with open(p, "w") as f:         # follows a symlink, as does os.utime below
            f.write(text((folder, fid, cid)))
        os.utime(p, (mtime, mtime))
        present[(folder, fid)] = (folder, fid, cid)

    def path_of(folder, fid):
        return os.path.join(dirs[folder], FILES[(folder, fid)][0])

    def sync_library_os():
        """SetOS is played on the cache file: os.name cannot change in this process, so the file's
        library_os field is made foreign exactly when the logical platform differs from the one the
        cache file was written on (same outcome of `db["library_os"] != os.name`); mtime preserved"""
        want = osst["cache"] is not None and osst["cache"] != osst["cur"]
        if osst["cache"] is None or not os.path.exists(cache_file) or want == osst["foreign"]:
            return
        import pickle
        st = os.stat(cache_file)
        with open(cache_file, "rb") as f:
            db = pickle.load(f)
        db["library_os"] = "foreign-os" if want else os.name
        with open(cache_file, "wb") as f:
            pickle.dump(db, f, protocol=-1)
        os.utime(cache_file, ns=(st.st_atime_ns, st.st_mtime_ns))
        osst["foreign"] = want

    def real_opts(o):
        o = dict(o)
        if "library_folders" in o:
            o["library_folders"] = [dirs[i] for i in o["library_folders"]]
        return o

    for folder, fid, mtime, cid in case["files0"]:
        write(folder, fid, mtime, cid)
    opts = dict(case["opts0"])
    ver = case["ver0"]
    cache_file = os.path.join(dirs[0], "Main.pymoca_cache")
    calls = []
    osst = {"cur": 0, "cache": None, "foreign": False}

    def reference(o):
        """fresh compile of the current sources with the current options, cache disabled"""
        ro = dict(o)
        cached = bool(ro.get("cache")) and not ro.get("codegen")
        ro["cache"] = False
        ro["codegen"] = False
        if cached:
            ro["expand_mx"] = True      # caching implies expanding to SX (api.py:512-514)
        key = json.dumps([sorted([k[0], k[1], list(c)] for k, c in present.items()), sorted(ro.items()), ver],
                         sort_keys=True, default=str)
        if key not in _memo:
            _state["quiet"] = True
            try:
                _memo[key] = (None, fingerprint(api.transfer_model(dirs[0], "Main", real_opts(ro))))
            except Exception as e:  # noqa
                _memo[key] = (type(e).__name__, None)
            finally:
                _state["quiet"] = False
        return _memo[key]

    for op in case["ops"]:
        kind = op[0]
        if kind in ("edit", "add"):
            write(op[1], op[2], op[3], op[4])
        elif kind == "noise":       # a file that is not *.mo: invisible to the compiler and to the check
            p = os.path.join(dirs[op[1]], op[2])
            with open(p, "w") as f:
                f.write("// not a Modelica source\n")
            os.utime(p, (op[3], op[3]))
        elif kind == "delete":
            os.remove(path_of(op[1], op[2]))
            present.pop((op[1], op[2]))
        elif kind == "rename":      # os.rename keeps the mtime
            dst = path_of(op[3], op[4])
            os.makedirs(os.path.dirname(dst), exist_ok=True)
            os.rename(path_of(op[1], op[2]), dst)
            present[(op[3], op[4])] = present.pop((op[1], op[2]))
        elif kind == "os":
            osst["cur"] = op[1]
        elif kind == "opts":
            opts = dict(op[1])
        elif kind == "ver":
            ver = op[1]
        elif kind == "transfer":
            api.__version__ = version_string(ver)
            sync_library_os()
            c0, s0 = _state["calls"], _state["saves"]
            rec = {"exc": None, "fp": None}
            try:
                rec["fp"] = fingerprint(api.transfer_model(dirs[0], "Main", real_opts(opts)))
            except Exception as e:  # noqa
                rec["exc"] = type(e).__name__
                rec["msg"] = str(e)[:160].replace(root, "<root>")
            rec["from_cache"] = _state["calls"] == c0
            rec["cache_foreign"] = bool(osst["foreign"])     # the cache file in place says "other platform"
            rec["saved"] = _state["saves"] != s0
            if rec["saved"]:
                os.utime(cache_file, (op[1], op[1]))
                osst["cache"], osst["foreign"] = osst["cur"], False
            rec["ref_exc"], rec["ref_fp"] = reference(opts)
            calls.append(rec)
        else:
            raise ValueError("unknown op %r" % (op,))
    return {"calls": calls}


if __name__ == "__main__":
    child_main(handler)
