"""Child (C08): the same observation as C07 — parse + pymoca.tree.flatten on a generated text, flat
symbols with value/start/min/max/nominal/fixed/unit as printed trees and the flat equations."""
from vlib.core import child_main
from vlib.impl.c07 import handler  # noqa: F401

if __name__ == "__main__":
    child_main(handler)
