"""Child: run the real pymoca parser + CasADi generator on a Modelica text and record the names in
every variable list of the generated Model (in list order)."""
from vlib.core import child_main

LISTS = ["states", "der_states", "alg_states", "inputs", "parameters", "constants",
         "string_parameters", "string_constants"]
_trees = {}


def _name(v):
    n = getattr(v, "name", None)
    if isinstance(n, str):          # StringVariable
        return n
    return v.symbol.name()          # Variable


def handler(case):
    import pymoca.parser as P
    from pymoca.backends.casadi import generator as G
    text = case["text"]
    tree = _trees.get(text)
    if tree is None:
        tree = P.parse(text)
        if tree is None:
            return {"exc": "ParseError", "msg": "parse() returned None"}
        _trees[text] = tree
    # AST-level injection of prefixes / order on top-level symbols of the main class
    saved = []
    cls = tree.classes[case["main"]]
    for name, inj in (case.get("inject") or {}).items():
        s = cls.symbols[name]
        saved.append((s, s.prefixes, s.order))
        if "prefixes" in inj:
            s.prefixes = list(inj["prefixes"])
        if "order" in inj:
            s.order = inj["order"]
    try:
        m = G.generate(tree, case["main"])
    finally:
        for s, p, o in saved:
            s.prefixes, s.order = p, o
    res = {"lists": _lists(m)}
    if case.get("regen"):
        # multi-step on ONE parsed tree: edit the main class through the public ast API, generate again,
        # and also generate from a fresh parse of the edited text
        text2 = case["regen"]["text2"]
        donor = P.parse(text2).classes[case["main"]]
        for e in list(cls.equations):
            cls.remove_equation(e)
        for e in list(cls.initial_equations):
            cls.remove_initial_equation(e)
        for e in donor.equations:
            cls.add_equation(e)
        _trees.pop(text, None)
        res["lists2"] = _lists(G.generate(tree, case["main"]))
        res["fresh2"] = _lists(G.generate(P.parse(text2), case["main"]))
    return res


def _lists(m):
    out = {k: [_name(v) for v in getattr(m, k)] for k in LISTS}
    out["outputs"] = [str(x) for x in m.outputs]
    return out


if __name__ == "__main__":
    child_main(handler)
