"""Child for C12: runs the REAL pymoca CasADi backend under several option sets.

case: {"kind": "model", "name": ..., "text": ..., "points": [ {var: value | [values]} ... ],
       "fixed": {option: value ...}, "combos": [[unroll_loops, inline_functions, expand_mx] ...]}
For every combination the model text is written to a fresh folder and compiled through
pymoca.backends.casadi.api.transfer_model (parse + generate + Model.simplify, exactly the
post-processing the API applies).  Observed per combination:
  lists     per category [name, size1, size2] in list order (Variables) / names (String variables)
  attrs     per category, per variable: python type, prefixes, aliases and for every CasADi attribute
            either its literal value or the marker "MX" (symbolic: evaluated by the metadata function)
  outputs, delay_states, number of delay arguments
  funcs     dae_residual_function, initial_residual_function, variable_metadata_function,
            delay_arguments_function evaluated at every point (hex floats, column-major), and their
            class (MXFunction / SXFunction)
Arguments are assembled BY NAME from the point; names the point does not mention (generated delay
inputs) get a fixed dyadic value derived from the name.
"""
import math
import os
import shutil
import tempfile
import zlib

from vlib.core import child_main

CATS = ("states", "der_states", "alg_states", "inputs", "constants", "parameters")
FLAGS = ("unroll_loops", "inline_functions", "expand_mx")


def _default(name, k, salt=0):
    return ((zlib.crc32(("%s#%d#%s" % (name, k, salt)).encode()) % 33) - 16) / 8.0


def _vec(variables, point):
    out = []
    for v in variables:
        s = v.symbol
        n = s.size1() * s.size2()
        val = point.get(s.name())
        if val is None:
            out += [_default(s.name(), k, point.get("#salt", 0)) for k in range(n)]
        elif isinstance(val, list):
            if len(val) != n:
                raise ValueError("size of %s: %d values for %d entries" % (s.name(), len(val), n))
            out += [float(x) for x in val]
        else:
            if n != 1:
                raise ValueError("scalar value for array %s" % s.name())
            out.append(float(val))
    return out


def _num(x):
    x = float(x)
    if math.isnan(x):
        return "nan"
    if math.isinf(x):
        return "inf" if x > 0 else "-inf"
    return x.hex()


def _lit(v):
    import casadi as ca
    import numpy as np
    if isinstance(v, ca.MX):
        # symbolic attribute (a constant MX when a call was inlined, a call node otherwise):
        # its VALUE is observed through variable_metadata_function
        return "MX"
    if isinstance(v, ca.DM):
        return ["DM", [_num(x) for x in np.array(v).ravel(order="F")], list(v.shape)]
    if isinstance(v, bool):
        return ["bool", v]
    if isinstance(v, int):
        return ["int", int(v), type(v).__name__]
    if isinstance(v, float):
        return ["float", _num(v)]
    if isinstance(v, (list, tuple)):
        return ["list", [_lit(x) for x in v]]
    if isinstance(v, np.ndarray):
        return ["nd", [_num(x) for x in v.ravel(order="F")], list(v.shape)]
    return ["other", type(v).__name__, str(v)[:60]]


def _outs(fn, args):
    import numpy as np
    res = []
    if fn.n_out() == 0:
        return res
    r = fn.call(args)
    for o in r:
        res.append([_num(x) for x in np.array(o).ravel(order="F")])
    return res


def observe(m, points):
    from pymoca.backends.casadi.model import CASADI_ATTRIBUTES
    out = {"ok": True, "lists": {}, "attrs": {}}
    for k in CATS:
        out["lists"][k] = [[v.symbol.name(), v.symbol.size1(), v.symbol.size2()] for v in getattr(m, k)]
        rows = []
        for v in getattr(m, k):
            row = {"type": v.python_type.__name__, "prefixes": list(getattr(v, "prefixes", [])),
                   "aliases": sorted(str(a) for a in v.aliases)}
            for a in CASADI_ATTRIBUTES:
                row[a] = _lit(getattr(v, a))
            rows.append(row)
        out["attrs"][k] = rows
    for k in ("string_parameters", "string_constants"):
        out["lists"][k] = [[v.name, str(getattr(v, "value", None)), str(getattr(v, "start", None))] for v in getattr(m, k)]
    out["outputs"] = list(m.outputs)
    out["delay_states"] = list(m.delay_states)
    out["n_delay_arguments"] = len(m.delay_arguments)
    fns = {"dae": m.dae_residual_function, "init": m.initial_residual_function,
           "meta": m.variable_metadata_function, "delay": m.delay_arguments_function}
    out["kinds"] = {k: f.class_name() for k, f in fns.items()}
    out["shapes"] = {k: [[f.size1_in(i) * f.size2_in(i) for i in range(f.n_in())],
                         [[f.size1_out(i), f.size2_out(i)] for i in range(f.n_out())]] for k, f in fns.items()}
    out["funcs"] = {k: [] for k in fns}
    for p in points:
        args = [float(p["time"]), _vec(m.states, p), _vec(m.der_states, p), _vec(m.alg_states, p),
                _vec(m.inputs, p), _vec(m.constants, p), _vec(m.parameters, p)]
        out["funcs"]["dae"].append(_outs(fns["dae"], args))
        out["funcs"]["init"].append(_outs(fns["init"], args))
        out["funcs"]["delay"].append(_outs(fns["delay"], args))
        out["funcs"]["meta"].append(_outs(fns["meta"], [args[6]]))
    return out


def _compile(case, combo):
    """transfer_model of one model under one flag triple: ("ok", Model) or ("exc", {...})"""
    from pymoca.backends.casadi.api import transfer_model
    d = tempfile.mkdtemp(prefix="c12_")
    try:
        with open(os.path.join(d, case["name"] + ".mo"), "w") as f:
            f.write(case["text"])
        opts = dict(case.get("fixed", {}))
        opts.update(dict(zip(FLAGS, [bool(x) for x in combo])))
        try:
            return "ok", transfer_model(d, case["name"], opts)
        except Exception as e:  # noqa - the class is the observation
            return "exc", {"ok": False, "exc": type(e).__name__, "msg": str(e)[:300]}
    finally:
        shutil.rmtree(d, ignore_errors=True)


def _observe(m, points):
    try:
        return observe(m, points)
    except Exception as e:  # noqa
        return {"ok": False, "exc": type(e).__name__, "msg": "while observing: " + str(e)[:280]}


def run_model(case):
    """compile one combination, observe it, next combination"""
    res = []
    for combo in case["combos"]:
        kind, m = _compile(case, combo)
        res.append(_observe(m, case["points"]) if kind == "ok" else m)
    return {"combos": res}


def run_group(case):
    """INTERLEAVED: compile every (model, combination) of 2-3 different models first, keep all Model objects
    alive, then observe (build and evaluate the four functions) in the given shuffled order"""
    built = {}
    for mi, c in enumerate(case["models"]):
        for ci, combo in enumerate(c["combos"]):
            built[(mi, ci)] = _compile(c, combo)
    res = [[None] * len(c["combos"]) for c in case["models"]]
    order = [tuple(x) for x in case.get("order") or sorted(built)]
    for mi, ci in order + [k for k in sorted(built) if k not in order]:
        if res[mi][ci] is not None:
            continue
        kind, m = built[(mi, ci)]
        res[mi][ci] = _observe(m, case["models"][mi]["points"]) if kind == "ok" else m
    return {"models": [{"combos": r} for r in res]}


def handler(case):
    if case.get("kind") == "group":
        return run_group(case)
    return run_model(case)


if __name__ == "__main__":
    child_main(handler)
