"""Child for C25: run the REAL pymoca XML generator on Modelica text and serialise the flat tree that
pymoca.tree.flatten gives for the same class (separate deep copy, as generate() does)."""
import copy

from vlib.core import child_main


def _kind(v):
    if isinstance(v, bool):
        return "bool"
    if isinstance(v, int):
        return "int"
    if isinstance(v, float):
        return "real"
    if isinstance(v, str):
        return "str"
    return type(v).__name__


def ser_expr(e, ast):
    if isinstance(e, ast.Primary):
        return {"lit": [_kind(e.value), str(e.value)]}
    if isinstance(e, ast.ComponentRef):
        d = {"ref": e.name}
        # the flattener concatenates the (empty) index lists of a.b.c: [[None], [None], ...] = no subscripts
        if e.child or any(ix != [None] for ix in e.indices):
            d["unsupported"] = "ComponentRef with child/indices"
        return d
    if isinstance(e, ast.Expression):
        op = e.operator.name if isinstance(e.operator, ast.ComponentRef) else e.operator
        if not isinstance(op, str):
            return {"unsupported": "operator %r" % (op,)}
        return {"op": op, "args": [ser_expr(x, ast) for x in e.operands]}
    return {"unsupported": type(e).__name__}


def ser_eqn(q, ast):
    if isinstance(q, ast.Equation):
        if isinstance(q.left, ast.Symbol):
            return {"decl": q.left.name, "r": ser_expr(q.right, ast)}
        return {"eq": [ser_expr(q.left, ast), ser_expr(q.right, ast)]}
    if isinstance(q, ast.Function):
        return {"fun": q.name, "args": [ser_expr(x, ast) for x in q.arguments]}
    if isinstance(q, ast.WhenEquation):
        d = {"when": ser_expr(q.conditions[0], ast), "body": [ser_eqn(x, ast) for x in q.blocks[0]]}
        if len(q.conditions) != 1:
            d["unsupported"] = "elsewhen"
        return d
    return {"unsupported": type(q).__name__}


def ser_lit(p, ast):
    if isinstance(p, ast.Primary):
        return None if p.value is None else [_kind(p.value), str(p.value)]
    return {"unsupported": type(p).__name__}


def ser_sym(s, ast):
    ty = s.type.name if isinstance(s.type, ast.ComponentRef) else {"unsupported": type(s.type).__name__}
    fx = s.fixed
    return {"name": s.name, "type": ty, "prefixes": list(s.prefixes),
            "start": ser_lit(s.start, ast), "value": ser_lit(s.value, ast),
            "fixed": bool(fx.value) if isinstance(fx, ast.Primary) else {"unsupported": type(fx).__name__}}


def ser_flat(root, ast):
    out = []
    for c in root.classes.values():
        out.append({"name": c.name,
                    "symbols": [ser_sym(s, ast) for s in c.symbols.values()],
                    "equations": [ser_eqn(q, ast) for q in c.equations],
                    "n_initial": len(c.initial_equations),
                    "n_statements": len(c.statements) + len(c.initial_statements)})
    return out


_seen_ids = {}


def session(case):
    """Several exports in ONE process: trees parsed / cloned / edited in place through the ast API / dropped, each
    export recorded with the flat model of the tree passed in at that step (flatten of a fresh deep copy)."""
    import gc
    import pymoca.parser
    from pymoca import ast
    from pymoca.backends.xml import generator
    from pymoca.tree import flatten
    cls = case["cls"]
    slots = {}
    exports = []
    for st in case["steps"]:
        do = st["do"]
        if do == "parse":
            slots[st["slot"]] = pymoca.parser.parse(st["text"])
        elif do == "clone":
            slots[st["slot"]] = copy.deepcopy(slots[st["from"]])
        elif do == "drop":
            del slots[st["slot"]]
            gc.collect()
        elif do == "export":
            tree = slots[st["slot"]]
            rec = {"tid_seen_before": id(tree) in _seen_ids and _seen_ids[id(tree)] != st.get("content")}
            _seen_ids[id(tree)] = st.get("content")
            try:
                rec["xml"] = generator.generate(tree, cls)
            except Exception as e:  # noqa
                rec["gen_exc"] = type(e).__name__
                rec["gen_msg"] = str(e)[:200]
            try:
                rec["flat"] = ser_flat(flatten(copy.deepcopy(tree), ast.ComponentRef.from_string(cls)), ast)
            except Exception as e:  # noqa
                rec["flat_exc"] = type(e).__name__
                rec["flat_msg"] = str(e)[:200]
            exports.append(rec)
        else:
            c = slots[st["slot"]].classes[cls]
            if do == "add_symbol":
                c.add_symbol(slots[st["donor"]].classes[cls].symbols[st["name"]])
            elif do == "add_equation":
                c.add_equation(slots[st["donor"]].classes[cls].equations[st["index"]])
            elif do == "remove_equation":
                c.remove_equation(c.equations[st["index"]])
            elif do == "set_attr":
                setattr(c.symbols[st["name"]], st["attr"], ast.Primary(value=st["v"]))
            elif do == "set_prefixes":
                c.symbols[st["name"]].prefixes = list(st["prefixes"])
            else:
                raise ValueError("unknown step %r" % do)
    return {"exports": exports}


def handler(case):
    if case.get("kind") == "session":
        return session(case)
    import pymoca.parser
    from pymoca import ast
    from pymoca.backends.xml import generator
    from pymoca.tree import flatten
    tree = pymoca.parser.parse(case["text"])
    if tree is None:
        return {"parse": "failed"}
    res = {}
    try:
        res["xml"] = generator.generate(tree, case["cls"])
    except Exception as e:  # noqa - the class is the outcome for out-of-subset input
        res["gen_exc"] = type(e).__name__
        res["gen_msg"] = str(e)[:200]
    try:
        flat = flatten(copy.deepcopy(tree), ast.ComponentRef.from_string(case["cls"]))
        res["flat"] = ser_flat(flat, ast)
    except Exception as e:  # noqa
        res["flat_exc"] = type(e).__name__
        res["flat_msg"] = str(e)[:200]
    # generate() must not have modified the caller's tree: a second call gives the same text
    if case.get("twice") and "xml" in res:
        try:
            res["xml2_same"] = generator.generate(tree, case["cls"]) == res["xml"]
        except Exception as e:  # noqa
            res["xml2_same"] = "exc:" + type(e).__name__
    return res


if __name__ == "__main__":
    child_main(handler)
