"""Child: parse class texts with the REAL pymoca.parser.parse and serialise the class structure.

Per class (pre-order over Class.classes): path, type, comment, symbols in dict order (key, name, type tuple,
prefixes, dimensions, visibility, order, comment, class_modification, id() of the prefixes / dimensions /
type objects renamed to first-occurrence indices over the whole file), extends, imports, nested class
keys, equations / initial_equations / statements / initial_statements as canonical strings."""
from vlib.core import child_main


def ser(e):
    from pymoca import ast
    if isinstance(e, ast.Primary):
        v = e.value
        if v is None:
            return "None"
        if isinstance(v, bool):
            return "true" if v else "false"
        if isinstance(v, str):
            return '"%s"' % v
        return repr(v)
    if isinstance(e, ast.ComponentRef):
        out = []
        c = e
        while True:
            s = c.name
            idx = c.indices
            if idx != [[None]] and idx != [None]:
                s += "[" + ",".join(",".join("None" if i is None else ser(i) for i in grp) for grp in idx) + "]"
            out.append(s)
            if c.child:
                c = c.child[0]
            else:
                break
        return ".".join(out)
    if isinstance(e, ast.Expression):
        op = e.operator if isinstance(e.operator, str) else ser(e.operator)
        return "(" + " ".join([op] + [ser(x) for x in e.operands]) + ")"
    if isinstance(e, ast.Slice):
        if all(isinstance(p, ast.Primary) and p.value is None for p in (e.start, e.stop)):
            return ":"
        return "(: %s %s %s)" % (ser(e.start), ser(e.stop), ser(e.step))
    if isinstance(e, ast.Array):
        return "{" + ",".join(ser(x) for x in e.values) + "}"
    if isinstance(e, ast.Equation):
        s = "(= %s %s)" % (ser(e.left), ser(e.right))
        return s + ("#" + e.comment if e.comment else "")
    if isinstance(e, ast.ConnectClause):
        return "(connect %s %s)" % (ser(e.left), ser(e.right))
    if isinstance(e, ast.AssignmentStatement):
        s = "(:= %s %s)" % (",".join(ser(x) for x in e.left), ser(e.right))
        return s + ("#" + e.comment if e.comment else "")
    if isinstance(e, ast.ClassModification):
        return show_cm(e)
    if isinstance(e, list):
        return "[" + ",".join(ser(x) for x in e) + "]"
    return "?" + type(e).__name__


def show_cm(cm):
    from pymoca import ast
    if cm is None:
        return "None"
    args = []
    for a in cm.arguments:
        v = a.value
        if isinstance(v, ast.ComponentClause) and a.redeclare and len(v.symbol_list) == 1:
            sy = v.symbol_list[0]
            dims = ";".join(",".join("None" if x is None else ser(x) for x in grp) for grp in sy.dimensions)
            args.append("redeclare{%s|%s|%s|%s|%s|%s}" % (" ".join(v.prefixes), ".".join(v.type.to_tuple()), sy.name, dims,
                                                          show_cm(sy.class_modification), sy.comment))
            continue
        if isinstance(v, ast.ShortClassDefinition) and a.redeclare:
            args.append("redeclare-short{%s|%s|%s}" % (v.type, v.name, ".".join(v.component.to_tuple())))
            continue
        if not isinstance(v, ast.ElementModification):
            args.append("?" + type(v).__name__)
            continue
        mods = []
        for m in v.modifications:
            mods.append(show_cm(m) if isinstance(m, ast.ClassModification) else "=" + ser(m))
        args.append(("redeclare " if a.redeclare else "") + ser(v.component) + "[" + ";".join(mods) + "]")
    return "(" + ",".join(args) + ")"


def show_imp(v):
    from pymoca import ast
    if isinstance(v, ast.ComponentRef):
        return "path:" + ".".join(v.to_tuple())
    if isinstance(v, ast.ImportClause):
        if v.unqualified:
            return "star:" + "|".join(".".join(c.to_tuple()) for c in v.components)
        return "short:" + ".".join(v.components[0].to_tuple())
    return "?" + type(v).__name__


def observe(tree):
    out = []
    ids = ({}, {}, {})

    def cid(k, obj):
        return ids[k].setdefault(id(obj), len(ids[k]))

    def rec(c, path):
        syms = []
        for key, s in c.symbols.items():
            syms.append({
                "key": key, "name": s.name,
                "type": list(s.type.to_tuple()) if hasattr(s.type, "to_tuple") else ["?" + type(s.type).__name__],
                "prefixes": list(s.prefixes),
                "dims": [[("None" if x is None else ser(x)) for x in grp] for grp in s.dimensions],
                "vis": int(s.visibility), "order": s.order, "comment": s.comment,
                "cm": show_cm(s.class_modification),
                "ids": [cid(0, s.prefixes), cid(1, s.dimensions), cid(2, s.type)],
            })
        out.append({
            "path": path, "type": c.type, "comment": c.comment, "symbols": syms,
            "extends": [[list(e.component.to_tuple()), int(e.visibility), show_cm(e.class_modification)]
                        for e in c.extends],
            "imports": [[k, show_imp(v)] for k, v in c.imports.items()],
            "classes": list(c.classes.keys()),
            "eqs": [ser(e) for e in c.equations], "ieqs": [ser(e) for e in c.initial_equations],
            "sts": [ser(e) for e in c.statements], "ists": [ser(e) for e in c.initial_statements],
        })
        for k, cc in c.classes.items():
            rec(cc, path + [k])

    for k, c in tree.classes.items():
        rec(c, [k])
    return out


def handler(case):
    import pymoca.parser as P
    try:
        tree = P.parse(case["text"])
    except IOError as e:
        a = e.args
        return {"err": [type(e).__name__, str(a[0]) if a else "", str(a[1]) if len(a) > 1 else ""]}
    if tree is None:
        return {"syntax_error": True}
    return {"classes": observe(tree)}


if __name__ == "__main__":
    child_main(handler)
