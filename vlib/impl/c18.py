"""Child for C18: compile a generated Modelica model with the real casadi backend three times
(U = unexpanded, E = simplify({"expand_vectors": True}), P = expanded with one probe equation
`<array symbol>` per array variable), and record

* per category, in order: every variable's name, MX shape, _modelica_shape, python type and the
  six attributes (U and E);  outputs and delay states (U and E);
* dae/initial residuals of U and E (real `dae_residual_function` / `initial_residual_function`)
  evaluated at the point the parent prescribes: `vals` gives a number per expected scalar
  name, `umap` gives per unexpanded symbol name its matrix of scalar names (the renaming);
  the child only does table look-ups and CasADi's own column-major `veccat`;
* delay argument expressions / durations of U and E at the same point;
* probe values of P (column-major vec of the substituted matrix of every array variable).
"""
import math

from vlib.core import child_main

GROUPS = ["states", "der_states", "alg_states", "inputs", "parameters", "constants"]
ATTRS = ["value", "min", "max", "start", "fixed", "nominal"]


class Missing(Exception):
    pass


def handler(case):
    import logging
    logging.getLogger("pymoca").setLevel(logging.CRITICAL)
    import casadi as ca
    import numpy as np
    from pymoca import parser
    from pymoca.backends.casadi import generator
    from pymoca.backends.casadi.mtensor import _MTensor

    vals = case.get("vals", {})
    umap = case.get("umap", {})
    tval = case.get("time", 0.5)

    def gen():
        tree = parser.parse(case["src"])
        if tree is None:
            raise ValueError("parser.parse returned None")
        return generator.generate(tree, case["cls"], dict(case.get("genopt") or {}))

    def num(x):
        if isinstance(x, (bool, np.bool_)):
            return 1.0 if x else 0.0
        x = float(x)
        if math.isnan(x):
            return "nan"
        if math.isinf(x):
            return "inf" if x > 0 else "-inf"
        return x

    def mx_of(sym):
        return sym._mx if isinstance(sym, _MTensor) else sym

    def sym_values(sym):
        """numbers for one symbol in CasADi's (column-major) element order, by table look-up"""
        name = sym.name()
        if isinstance(sym, _MTensor):
            names = umap[name]["flat"] if name in umap else None
            if names is None or len(names) != sym._mx.numel():
                raise Missing(name)
            return [look(n) for n in names]
        n1, n2 = sym.size1(), sym.size2()
        if name in umap and "rows" in umap[name]:
            rows = umap[name]["rows"]
            if len(rows) != n1 or any(len(r) != n2 for r in rows):
                raise Missing(name + ":shape")
            return [look(rows[i][j]) for j in range(n2) for i in range(n1)]
        if (n1, n2) == (1, 1):
            return [look(name)]
        raise Missing(name)

    def look(n):
        if n not in vals:
            raise Missing(n)
        return vals[n]

    def all_syms(m):
        return [m.time] + [mx_of(v.symbol) for g in GROUPS for v in getattr(m, g)]

    def point(m):
        out = [ca.DM(tval)]
        for g in GROUPS:
            for v in getattr(m, g):
                sx = mx_of(v.symbol)
                out.append(ca.reshape(ca.DM(sym_values(v.symbol)), sx.size1(), sx.size2()))
        return out

    def evaluator(m):
        syms = all_syms(m)
        try:
            pt = point(m)
        except Missing as e:
            return None, "missing:" + str(e)

        def ev(exprs):
            f = ca.Function("ev", syms, [ca.MX(e) for e in exprs])
            return [ca.DM(r) for r in f.call(pt)]

        def free(expr):
            """symbols of an expression that are NOT variables (or time) of this model"""
            out = []
            for sv in ca.symvar(ca.MX(expr)):
                if not any(ca.is_equal(sv, m_s, 0) for m_s in syms if m_s.name() == sv.name()):
                    out.append("%s%s" % (sv.name(), list(sv.shape)))
            return out
        ev.free = free
        return ev, None

    def enc_attr(v, ev):
        if isinstance(v, ca.MX):
            if ev is None:
                return {"k": "mx", "shape": list(v.shape), "rows": None}
            fr = ev.free(v)
            if fr:
                return {"k": "mx", "shape": list(v.shape), "rows": None, "free": fr, "repr": str(v)[:80]}
            d = ev([v])[0]
            return {"k": "mx", "shape": list(v.shape),
                    "rows": [[num(d[i, j]) for j in range(d.size2())] for i in range(d.size1())]}
        if isinstance(v, ca.DM):
            return {"k": "dm", "shape": list(v.shape),
                    "rows": [[num(v[i, j]) for j in range(v.size2())] for i in range(v.size1())]}
        if isinstance(v, np.ndarray):
            return {"k": "nd", "shape": list(v.shape), "v": enc_list(v.tolist())}
        if isinstance(v, list):
            return {"k": "list", "v": enc_list(v)}
        if np.isscalar(v):
            return {"k": "s", "v": num(v), "t": type(v).__name__}
        return {"k": "other", "t": type(v).__name__}

    def enc_list(v):
        if isinstance(v, (list, tuple)):
            return [enc_list(x) for x in v]
        if isinstance(v, ca.MX):
            return "mx"
        return num(v)

    def mshape(sym):
        s = getattr(sym, "_modelica_shape", None)
        if s is None:
            return None
        return [list(x) if isinstance(x, tuple) else x for x in s]

    def snapshot(m, ev):
        out = {}
        for g in GROUPS:
            lst = []
            for v in getattr(m, g):
                s = v.symbol
                shp = list(s.shape) if isinstance(s, _MTensor) else [s.size1(), s.size2()]
                lst.append({"name": s.name(), "shape": shp, "mshape": mshape(s),
                            "tensor": isinstance(s, _MTensor),
                            "ptype": v.python_type.__name__,
                            "attrs": {a: enc_attr(getattr(v, a), ev) for a in ATTRS}})
            out[g] = lst
        return out

    def group_vectors(m):
        return [ca.DM(tval)] + [ca.DM([x for v in getattr(m, g) for x in sym_values(v.symbol)]) for g in
                                ["states", "der_states", "alg_states", "inputs", "constants", "parameters"]]

    def residuals(m):
        """the real residual functions at the prescribed point"""
        try:
            args = group_vectors(m)
        except Missing as e:
            return {"err": "missing:" + str(e)}
        out = {}
        for key, fname in (("dae", "dae_residual_function"), ("init", "initial_residual_function")):
            f = getattr(m, fname)
            if f.n_out() == 0:
                out[key] = []
            else:
                r = f.call(args)[0]
                out[key] = [num(r[i]) for i in range(r.numel())]
        return out

    def delays(m, ev):
        if ev is None:
            return None
        out = []
        for nm, da in zip(m.delay_states, m.delay_arguments):
            fr = ev.free(da.expr) + ev.free(da.duration)
            if fr:
                out.append({"state": nm, "free": fr, "repr": ("%s / %s" % (da.expr, da.duration))[:120]})
                continue
            e, d = ev([da.expr, da.duration])
            out.append({"state": nm, "shape": [e.size1(), e.size2()],
                        "expr": [[num(e[i, j]) for j in range(e.size2())] for i in range(e.size1())],
                        "duration": [num(d[i]) for i in range(d.numel())]})
        return out

    def delay_fn(m):
        """the real delay_arguments_function at the prescribed point: [expr1, duration1, expr2, ...]"""
        try:
            args = group_vectors(m)
            f = m.delay_arguments_function
            outs = f.call(args) if f.n_out() else []
            return {"outs": [[[num(ca.DM(o)[i, j]) for j in range(o.size2())] for i in range(o.size1())] for o in outs]}
        except Missing as e:
            return {"err": "missing:" + str(e)}
        except Exception as e:  # noqa - recorded, judged by the parent
            return {"err": "%s: %s" % (type(e).__name__, str(e).strip().splitlines()[-1][:200])}

    res = {}
    # ---- U: the unexpanded model ---------------------------------------------------------
    mu = gen()
    evu, erru = evaluator(mu)
    res["U"] = snapshot(mu, evu)
    res["U_outputs"] = list(mu.outputs)
    res["U_delay_states"] = list(mu.delay_states)
    res["U_eval_err"] = erru
    has_tensor = any(v["tensor"] for g in GROUPS for v in res["U"][g])
    res["U_n_eq"] = [len(mu.equations), len(mu.initial_equations)]
    if case.get("residual", True) and not has_tensor:
        res["U_res"] = residuals(mu)
        res["U_delays"] = delays(mu, evu)
        res["U_delay_fn"] = delay_fn(mu) if mu.delay_states else None
    # ---- E: the expanded model -----------------------------------------------------------
    me = gen()
    try:
        me.simplify(dict(case.get("simpopt") or {"expand_vectors": True}))
    except Exception as e:  # noqa - the exception class is the outcome of this case
        res["E_exc"] = {"exc": type(e).__name__, "msg": str(e)[:200]}
        return res
    eve, erre = evaluator(me)
    res["E"] = snapshot(me, eve)
    res["E_outputs"] = list(me.outputs)
    res["E_delay_states"] = list(me.delay_states)
    res["E_eval_err"] = erre
    res["E_n_eq"] = [len(me.equations), len(me.initial_equations)]
    if case.get("residual", True) and not has_tensor:
        try:
            res["E_res"] = residuals(me)
        except Exception as e:  # noqa - the expanded model's own residual functions must be usable
            res["E_res"] = {"err": "%s: %s" % (type(e).__name__, str(e).strip().splitlines()[-1][:200])}
        res["E_delays"] = delays(me, eve)
        res["E_delay_fn"] = delay_fn(me) if me.delay_states else None
    # ---- the real variable_metadata_function of the expanded model at the parameter valuation ------
    if case.get("metadata", True):
        try:
            pvec = ca.DM([x for v in me.parameters for x in sym_values(v.symbol)])
            f = me.variable_metadata_function
            outs = f.call([pvec]) if f.n_in() == 1 else f.call([])
            meta = {}
            for g, o in zip(["states", "alg_states", "inputs", "parameters", "constants"], outs):
                o = ca.DM(o)
                meta[g] = [[num(o[i, j]) for j in range(o.size2())] for i in range(o.size1())]
            res["E_meta"] = {"groups": meta}
        except Missing as e:
            res["E_meta"] = {"err": "missing:" + str(e)}
        except Exception as e:  # noqa - recorded, judged by the parent
            res["E_meta"] = {"err": "%s: %s" % (type(e).__name__, str(e).strip().splitlines()[-1][:200])}
    # ---- P: layout probe -----------------------------------------------------------------
    if case.get("probe", True):
        mp = gen()
        probes = []
        for g in GROUPS:
            for v in getattr(mp, g):
                s = v.symbol
                s = mx_of(s)
                if s.numel() == 0:
                    continue
                if s.numel() > 1 or s.name() in mp.delay_states:
                    probes.append((g, s.name(), s.size1(), s.size2(), s))
        n0 = len(mp.equations)
        mp.equations = list(mp.equations) + [p[4] for p in probes]
        mp.simplify(dict(case.get("simpopt") or {"expand_vectors": True}))
        evp, errp = evaluator(mp)
        # the equations before the probes expand to the same number of scalars as in E
        k = res["E_n_eq"][0]
        lay = []
        if evp is not None:
            tail = mp.equations[k:]
            if sum(p[2] * p[3] for p in probes) != len(tail):
                res["P_err"] = "probe-count %d vs %d (n0=%d)" % (sum(p[2] * p[3] for p in probes), len(tail), n0)
            else:
                vv = evp(tail) if tail else []
                pos = 0
                for g, nm, n1, n2, _ in probes:
                    lay.append({"group": g, "name": nm, "shape": [n1, n2],
                                "vec": [num(vv[pos + i]) for i in range(n1 * n2)]})
                    pos += n1 * n2
        else:
            res["P_err"] = errp
        res["P_layout"] = lay
    return res


if __name__ == "__main__":
    child_main(handler)
