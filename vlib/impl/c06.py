"""Child for C06 (and helpers shared with vlib/impl/c05.py): runs histories of deepcopy / AST edits /
flatten on the REAL pymoca classes, extracts the object graph (parent pointers and per-instance
__deepcopy__ hooks by id()), and rebuilds an independent reference tree (fresh parse + the same
edits) for every flatten."""
import copy
import enum
import hashlib
import json

from vlib.core import child_main

ATOMS = (str, int, float, bool, type(None), enum.Enum, complex, bytes)
SKIP = ("parent", "scope", "__deepcopy__")


def parse(text):
    import pymoca.parser
    t = pymoca.parser.parse(text, bypass_cache=True)
    if t is None:
        raise ValueError("parse returned None")
    return t


def cref(path):
    from pymoca import ast
    return ast.ComponentRef.from_tuple(tuple(path))


def get_class(root, path):
    c = root
    for n in path:
        c = c.classes[n]
    return c


def dump(o, depth=0):
    """canonical, address-free dump of an AST (sub)tree; parent/scope/hook are not followed"""
    if depth > 60:
        return "<deep>"
    if isinstance(o, enum.Enum):
        return "E:" + o.name
    if isinstance(o, float):
        return "f:" + repr(o)
    if isinstance(o, ATOMS):
        return o if not isinstance(o, bytes) else o.hex()
    if isinstance(o, (list, tuple)):
        return [dump(x, depth + 1) for x in o]
    if isinstance(o, dict):
        return [[str(k), dump(v, depth + 1)] for k, v in o.items()]
    if hasattr(o, "__dict__"):
        return [type(o).__name__] + [[k, dump(v, depth + 1)] for k, v in o.__dict__.items() if k not in SKIP]
    return "R:" + repr(o)


def digest(o):
    return hashlib.sha1(json.dumps(dump(o), sort_keys=False, default=str).encode()).hexdigest()[:16]


def flat_summary(flat_tree):
    out = []
    for name, c in flat_tree.classes.items():
        out.append([name, list(c.symbols.keys())[:12], len(c.equations)])
    return out


def do_flatten(root, path):
    """-> ['ok', digest, summary] | ['exc', class name]"""
    from pymoca import tree as ptree
    try:
        ft = ptree.flatten(root, cref(path))
    except RecursionError:
        return ["exc", "RecursionError"]
    except Exception as e:  # noqa - the exception class is the outcome
        return ["exc", type(e).__name__]
    return ["ok", digest(ft), flat_summary(ft)]


def do_generate(kind, root, path):
    try:
        if kind == "sympy":
            from pymoca.backends.sympy import generator as g
            src = g.generate(root, ".".join(path))
        else:
            from pymoca.backends.xml import generator as g
            src = g.generate(root, ".".join(path))
    except RecursionError:
        return ["exc", "RecursionError"]
    except Exception as e:  # noqa
        return ["exc", type(e).__name__]
    return ["ok", hashlib.sha1(src.encode()).hexdigest()[:16], len(src)]


# ---- edits through the AST API --------------------------------------------------------------
def snippet_class(name, k):
    t = parse("model %s\n  Real w%d;\nequation\n  w%d = %d.0;\nend %s;\n" % (name, k, k, k, name))
    c = t.classes[name]
    return c


def snippet_symbol(k):
    t = parse("model S_\n  Real e%d;\nequation\n  e%d = %d.5;\nend S_;\n" % (k, k, k))
    c = t.classes["S_"]
    return c.symbols["e%d" % k], c.equations[0]


def apply_edit(root, op):
    """op without the tree index: [kind, path, ...]; uses only the public edit API of ast.Class"""
    kind, path = op[0], op[1]
    c = get_class(root, path)
    if kind == "addclass":
        c.add_class(snippet_class(op[2], op[3]))
    elif kind == "rmclass":
        c.remove_class(c.classes[op[2]])
    elif kind == "addsym":
        s, e = snippet_symbol(op[2])
        c.add_symbol(s)
        c.add_equation(e)
    elif kind == "rmsym":
        c.remove_symbol(c.symbols[op[2]])
    elif kind == "addeq":
        _, e = snippet_symbol(op[2])
        c.add_equation(e)
    elif kind == "rmeq":
        c.remove_equation(c.equations[op[2] % len(c.equations)])
    elif kind == "transplant":
        # reference: the source side rebuilt independently (fresh parse + the source's own edits so far)
        src_ref = parse(op[4])
        for e in op[2]:
            apply_edit(src_ref, e)
        c.add_class(get_class(src_ref, op[3]))
    else:
        raise ValueError(kind)


# ---- object graph ------------------------------------------------------------------------------
def class_nodes(root):
    out = []

    def rec(c, path):
        out.append((path, c))
        for n, k in c.classes.items():
            rec(k, path + [n])
    rec(root, [])
    return out


def graph(trees):
    """for every live tree: [path, symbol names, #equations, parent address|None|'dangling',
    hook target address|None|'bad'] per class; addresses = [tree index, path]"""
    addr = {}
    per = []
    for ti, r in enumerate(trees):
        nodes = class_nodes(r)
        per.append(nodes)
        for path, c in nodes:
            addr.setdefault(id(c), [ti, path])
    out = []
    for ti, nodes in enumerate(per):
        t = []
        for path, c in nodes:
            if c.parent is None:
                par = None
            else:
                par = addr.get(id(c.parent), "dangling")
            h = c.__dict__.get("__deepcopy__", "absent")
            if h == "absent":
                hk = None
            elif h is None:
                hk = "bad"          # a leftover `__deepcopy__ = None` shadow
            else:
                tgt = getattr(h, "__self__", None)
                hk = addr.get(id(tgt), "bad")
                if hk == [ti, path]:
                    hk = None       # bound to the object itself = no redirection
            t.append([path, list(c.symbols.keys()), len(c.equations), par, hk])
        out.append(t)
    return out


def reach(root, skip_root_parent):
    """ids of all non-atomic objects reachable from root through attributes/containers.
    The per-instance hook of ClassModificationArgument objects is not followed (it is bound to
    the argument the copy was made from by design, ast.py:581-587; reported separately)."""
    seen = {}
    stack = [root]
    first = True
    while stack:
        o = stack.pop()
        if isinstance(o, ATOMS) or id(o) in seen:
            continue
        if isinstance(o, (list, tuple, set, frozenset)):
            if not isinstance(o, tuple):
                seen[id(o)] = o
            stack.extend(o)
        elif isinstance(o, dict):
            seen[id(o)] = o
            stack.extend(o.values())
        elif hasattr(o, "__self__") and hasattr(o, "__func__"):
            stack.append(o.__self__)
        elif hasattr(o, "__dict__"):
            seen[id(o)] = o
            for k, v in o.__dict__.items():
                if first and skip_root_parent and k == "parent":
                    continue
                if k == "__deepcopy__" and type(o).__name__ == "ClassModificationArgument":
                    continue
                stack.append(v)
        else:
            seen[id(o)] = o
        first = False
    return seen


def shared_objects(new, src_root, skip_root_parent):
    a = reach(new, skip_root_parent)
    b = reach(src_root, False)
    sh = [a[i] for i in a if i in b]
    return [type(x).__name__ for x in sh][:8], len(sh)


# ---- handler -----------------------------------------------------------------------------------
def handler(case):
    text = case["text"]
    want_graph = case.get("graph", False)
    trees = [parse(text)]
    roots = [0]                 # index of the full tree each entry belongs to (for sub-copies: its source)
    kinds = ["root"]
    lineage = [[]]              # edits applied to this tree (and to what it was copied from, before)
    res = []
    graphs = [graph(trees)] if want_graph else []
    for op in case["ops"]:
        k = op[0]
        r = None
        try:
            if k == "copy":
                src = trees[op[1]]
                d0 = digest(src)
                new = copy.deepcopy(src)
                names, n = shared_objects(new, trees[roots[op[1]]], kinds[op[1]] == "sub")
                r = {"equal": digest(new) == d0, "shared": n, "shared_types": names,
                     "type_ok": type(new) is type(src)}
                trees.append(new)
                kinds.append(kinds[op[1]])
                roots.append(len(trees) - 1 if kinds[op[1]] == "root" else roots[op[1]])
                lineage.append(None if lineage[op[1]] is None else list(lineage[op[1]]))
            elif k == "fc":
                src = get_class(trees[op[1]], op[2])
                d0 = digest(src)
                new = trees[op[1]].find_class(cref(op[2]), copy=True)
                names, n = shared_objects(new, trees[op[1]], True)
                r = {"equal": digest(new) == d0, "shared": n, "shared_types": names,
                     "parent_is_original": new.parent is src.parent, "fresh": new is not src}
                trees.append(new)
                kinds.append("sub")
                roots.append(op[1])
                lineage.append(None)
            elif k == "transplant":
                # add_class, to a class of tree op[1], of a class OBTAINED from tree op[3] by the public API
                td, dpath, ts, spath, how = op[1], op[2], op[3], op[4], op[5]
                if how == "fc":
                    c = trees[ts].find_class(cref(spath), copy=True)
                else:
                    c = copy.deepcopy(get_class(trees[ts], spath))
                src_before = digest(trees[roots[ts]]) if kinds[ts] == "root" else digest(trees[ts])
                get_class(trees[td], dpath).add_class(c)
                src_after = digest(trees[roots[ts]]) if kinds[ts] == "root" else digest(trees[ts])
                r = {"done": True, "source_unchanged": (src_before == src_after) or td == ts}
                if lineage[td] is not None:
                    src_lin = [] if lineage[ts] is None else [json.loads(json.dumps(e)) for e in lineage[ts]]
                    lineage[td].append(["transplant", dpath, src_lin, spath, text])
            elif k in ("flatten", "sympy", "xml"):
                t = op[1]
                d_before = digest(trees[t]) if k != "flatten" else None
                got = do_flatten(trees[t], op[2]) if k == "flatten" else do_generate(k, trees[t], op[2])
                d_after = digest(trees[t]) if k != "flatten" else None
                ref = parse(text)
                for e in lineage[t]:
                    apply_edit(ref, e)
                want = do_flatten(ref, op[2]) if k == "flatten" else do_generate(k, ref, op[2])
                r = {"got": got, "want": want, "tree_unchanged": d_before == d_after}
            else:
                t = op[1]
                apply_edit(trees[t], [k] + op[2:])
                if lineage[t] is not None:
                    lineage[t].append([k] + op[2:])
                r = {"done": True}
        except RecursionError:
            r = {"op_exc": "RecursionError"}
        except Exception as e:  # noqa
            r = {"op_exc": type(e).__name__, "msg": str(e)[:200]}
        res.append(r)
        if want_graph:
            graphs.append(graph(trees))
    return {"res": res, "graphs": graphs}


if __name__ == "__main__":
    child_main(handler)
