"""Child for C14/C15: compile a generated Modelica model with the real casadi backend, serialise
the pre-simplification Model (MX graph walk), run Model.simplify(options) and record the result:
variable lists, constants, alias relation, log warnings, the remaining equations evaluated at
dyadic points, whether the residual functions can be built, their value at the constructed
solution and the rank of the Jacobian w.r.t. the remaining unknowns."""
import logging

from vlib.core import child_main

OPS_UN = {5: "neg", 11: "sq", 12: "twice"}
OPS_BIN = {1: "add", 2: "sub", 3: "mul"}


class _Grab(logging.Handler):
    def __init__(self):
        super().__init__(level=logging.WARNING)
        self.msgs = []

    def emit(self, record):
        try:
            self.msgs.append(record.getMessage()[:200])
        except Exception:  # noqa
            self.msgs.append("?")


def ratio(x):
    x = float(x)
    if x != x:
        return "nan"
    if x in (float("inf"), float("-inf")):
        return "inf" if x > 0 else "-inf"
    n, d = x.as_integer_ratio()
    return [n, d]


def handler(case):
    lg = logging.getLogger("pymoca")
    lg.setLevel(logging.WARNING)
    lg.propagate = False
    grab = _Grab()
    lg.handlers = [grab]
    import casadi as ca
    import numpy as np
    from pymoca import parser
    from pymoca.backends.casadi import generator

    tree = parser.parse(case["text"])
    if tree is None:
        return {"exc": "ParseFailed", "msg": "parser.parse returned None", "stage": "parse"}
    try:
        model = generator.generate(tree, case["cls"])
    except Exception as e:  # noqa
        return {"exc": type(e).__name__, "msg": str(e)[:300], "stage": "generate"}

    def ser(e, depth=0):
        if not isinstance(e, ca.MX):
            return ["?", type(e).__name__]
        if depth > 200:
            return ["?", "deep"]
        if e.shape != (1, 1):
            return ["?", "shape"]
        if e.is_symbolic():
            return ["s", e.name()]
        if e.is_constant():
            v = float(e)
            if v != v or v in (float("inf"), float("-inf")):
                return ["?", "nonfinite"]
            n, d = v.as_integer_ratio()
            return ["c", n, d]
        op = e.op()
        if e.n_dep() == 1 and op in OPS_UN:
            return ["u", OPS_UN[op], ser(e.dep(0), depth + 1)]
        if e.n_dep() == 2 and op in OPS_BIN:
            return ["b", OPS_BIN[op], ser(e.dep(0), depth + 1), ser(e.dep(1), depth + 1)]
        return ["?", "op%d" % op]

    def val(v):
        if isinstance(v, ca.MX):
            return ser(v)
        if isinstance(v, (list, tuple)) or hasattr(v, "shape") and getattr(v, "shape", ()) not in ((), (1,), (1, 1)):
            return ["?", "array"]
        v = float(v)
        if v != v:
            return None
        n, d = v.as_integer_ratio()
        return ["c", n, d]

    def names(l):
        return [v.symbol.name() for v in l]

    def lists(m):
        return {"states": names(m.states), "ders": names(m.der_states), "algs": names(m.alg_states),
                "inputs": names(m.inputs), "params": [[v.symbol.name(), val(v.value)] for v in m.parameters],
                "consts": [[v.symbol.name(), val(v.value)] for v in m.constants]}

    def eval_at(exprs, pt):
        """exact values of scalar MX expressions at a named point (None: a symbol has no value)"""
        if not exprs:
            return []
        vec = ca.veccat(*[ca.MX(e) for e in exprs])      # a pass can leave a DM / float equation
        syms = ca.symvar(vec)
        args = []
        for s in syms:
            if s.name() not in pt:
                return {"unknown_symbol": s.name()}
            v = pt[s.name()]
            args.append(ca.DM(np.array(v, dtype=float)) if isinstance(v, list) else v)
        f = ca.Function("f", syms, [vec])
        out = f(*args) if args else f()
        if isinstance(out, dict):
            out = out["o0"]
        return [ratio(x) for x in np.array(out).reshape(-1)]

    def residual(m, which, pt):
        """build the residual function the way a user does and evaluate it at the point"""
        try:
            f = getattr(m, which)
        except Exception as e:  # noqa
            return {"built": False, "exc": type(e).__name__, "msg": str(e)[:300]}
        try:
            def vec(l):
                return [pt[v.symbol.name()] for v in l]
            args = [pt["time"], vec(m.states), vec(m.der_states), vec(m.alg_states), vec(m.inputs),
                    vec(m.constants), vec(m.parameters)]
            out = f(*args)
            if isinstance(out, (list, tuple)):
                out = out[0] if out else ca.DM()
            arr = np.array(out).reshape(-1) if f.n_out() > 0 else np.zeros(0)
            return {"built": True, "n": int(arr.shape[0]), "vals": [ratio(x) for x in arr],
                    "free": []}
        except KeyError as e:
            return {"built": True, "evalexc": "KeyError", "msg": str(e)[:100]}
        except Exception as e:  # noqa
            return {"built": True, "evalexc": type(e).__name__, "msg": str(e)[:300]}

    def jac_rank(m, pt):
        unk = [v.symbol for v in m.der_states] + [v.symbol for v in m.alg_states]
        if not m.equations or not unk:
            return {"rank": 0, "n_unk": len(unk), "n_eq": len(m.equations)}
        vec = ca.veccat(*[ca.MX(e) for e in m.equations])
        J = ca.jacobian(vec, ca.veccat(*unk))
        syms = ca.symvar(ca.veccat(vec, ca.vec(J)))
        try:
            args = [pt[s.name()] for s in syms]
        except KeyError as e:
            return {"rank": None, "msg": "unknown symbol %s" % e}
        f = ca.Function("J", syms, [J])
        out = f(*args) if args else f()
        if isinstance(out, dict):
            out = out["o0"]
        A = np.array(ca.DM(out)).reshape(len(m.equations), len(unk))
        return {"rank": int(np.linalg.matrix_rank(A)), "n_unk": len(unk), "n_eq": len(m.equations)}

    pt = case["point"]
    res = {"pre": lists(model)}
    res["pre"]["eqs"] = [ser(e) for e in model.equations]
    res["pre"]["ieqs"] = [ser(e) for e in model.initial_equations]
    res["pre"]["eqvals"] = eval_at(model.equations, pt)
    res["pre"]["ieqvals"] = eval_at(model.initial_equations, pt)
    res["pre"]["n_delay"] = len(model.delay_states)
    grab.msgs = []
    opts = dict(case["options"])
    try:
        for _ in range(int(case.get("repeat", 1))):
            model.simplify(dict(opts))
    except Exception as e:  # noqa
        res["simplify_exc"] = {"exc": type(e).__name__, "msg": str(e)[:300]}
        res["warnings"] = list(grab.msgs)
        return res
    res["warnings"] = list(grab.msgs)
    post = lists(model)
    post["eqs"] = [ser(e) for e in model.equations]
    post["n_eqs"] = len(model.equations)
    post["n_ieqs"] = len(model.initial_equations)
    post["classes"] = [[c, sorted(al)] for c, al in model.alias_relation]
    # the solution PROJECTED onto what is still declared: an eliminated variable has no value
    declared = {"time"}
    for lst in (model.states, model.der_states, model.alg_states, model.inputs, model.parameters, model.constants):
        declared |= {v.symbol.name() for v in lst}
    proj = {k: v for k, v in pt.items() if k in declared}
    post["eqvals_sol"] = eval_at(model.equations, proj)
    post["ieqvals_sol"] = eval_at(model.initial_equations, proj)
    post["eqvals"] = [eval_at(model.equations, p) for p in case["points"]]
    post["ieqvals"] = [eval_at(model.initial_equations, p) for p in case["points"]]
    # recorded values of the remaining parameters / constants, evaluated (they may be expressions)
    rec = []
    for v in list(model.parameters) + list(model.constants):
        try:
            x = v.value
            if isinstance(x, (list, tuple)) or (hasattr(x, "shape") and tuple(getattr(x, "shape", ())) not in ((), (1,), (1, 1))):
                continue
            if isinstance(x, ca.MX):
                r = eval_at([x], pt)
                rec.append([v.symbol.name(), r[0] if isinstance(r, list) and r else None])
            else:
                rec.append([v.symbol.name(), ratio(x)])
        except Exception:  # noqa
            rec.append([v.symbol.name(), None])
    post["recorded_values"] = rec
    post["dae_residual"] = residual(model, "dae_residual_function", pt)
    post["initial_residual"] = residual(model, "initial_residual_function", pt)
    try:
        post["jac"] = jac_rank(model, proj)
    except Exception as e:  # noqa
        post["jac"] = {"rank": None, "msg": "%s: %s" % (type(e).__name__, str(e)[:200])}
    res["post"] = post
    return res


if __name__ == "__main__":
    child_main(handler)
