"""Child: compile generated Modelica text with the REAL casadi backend and record, per variable,
the Python type / attribute objects (evaluated at the given parameter vectors) and the output
of Model.variable_metadata_function at the same vectors."""
import math
import os
import shutil
import tempfile

from vlib.core import child_main

CATS = ["states", "alg_states", "inputs", "parameters", "constants"]


def num(x):
    x = float(x)
    if math.isnan(x):
        return "nan"
    if math.isinf(x):
        return "inf" if x > 0 else "-inf"
    n, d = x.as_integer_ratio()
    return "%d/%d" % (n, d)


def observe_model(m, case, ca, np, CASADI_ATTRIBUTES):
    params = [[p.symbol.name(), [int(p.symbol.size1()), int(p.symbol.size2())]] for p in m.parameters]
    in_var = ca.veccat(*[p.symbol for p in m.parameters])
    pvs = []
    for pv in case["pvs"]:
        vec = []
        for name, shape in params:
            vals = pv[name]
            assert len(vals) == shape[0] * shape[1], "parameter %s: %d values for shape %s" % (name, len(vals), shape)
            vec += [float(x) for x in vals]
        pvs.append(ca.DM(vec) if vec else ca.DM(0, 1))

    def to_mx(val):
        if isinstance(val, ca.MX):
            return val
        if isinstance(val, (list, tuple)):
            try:
                return ca.MX(ca.DM(val))
            except Exception:
                return ca.vertcat(*[to_mx(x) for x in val])
        if isinstance(val, np.ndarray):
            return ca.MX(ca.DM(val))
        if isinstance(val, ca.DM):
            return ca.MX(val)
        return ca.MX(float(val))

    # the Variable-level attributes may mention constants: evaluate them at the constants' declared values
    # (resolved to a fixed point, a constant may be defined through another one)
    cvar = ca.veccat(*[c.symbol for c in m.constants])
    cval = ca.DM.zeros(cvar.shape[0], 1)
    if cvar.shape[0]:
        g = ca.Function("c", [cvar], [ca.veccat(*[to_mx(c.value) for c in m.constants])])
        for _ in range(len(m.constants) + 1):
            cval = g(cval)

    def ev(val, numel):
        mx = to_mx(val)
        f = ca.Function("a", [in_var, cvar], [mx])
        out = []
        for pv in pvs:
            r = np.array(f(pv, cval)).flatten(order="F").tolist()
            if len(r) == 1 and numel != 1:
                r = r * numel
            out.append([num(x) for x in r])
        return out

    def classify(val):
        if isinstance(val, ca.MX):
            return "MX"
        if isinstance(val, (bool, np.bool_)):
            return "bool"
        if type(val).__name__ == "_DefaultValue":
            return "_DefaultValue"
        if isinstance(val, (int, np.integer)):
            return "int"
        if isinstance(val, float):
            return "float"
        if isinstance(val, (list, tuple)):
            return "list"
        return type(val).__name__

    cats = {}
    for cat in CATS:
        lst = []
        for v in getattr(m, cat):
            numel = int(v.symbol.size1() * v.symbol.size2())
            attrs = {}
            for a in ["value", "min", "max", "start", "fixed", "nominal"]:
                val = getattr(v, a)
                attrs[a] = {"tag": classify(val), "vals": ev(val, numel)}
            lst.append({"name": v.symbol.name(), "numel": numel,
                        "shape": [int(v.symbol.size1()), int(v.symbol.size2())],
                        "ptype": v.python_type.__name__, "attrs": attrs})
        cats[cat] = lst

    try:
        f = m.variable_metadata_function
    except Exception as e:  # noqa - the Variable-level observation is still reported; the parent classifies the failure
        msg = "variable_metadata_function: " + str(e)
        return {"params": params, "cats": cats, "rebuilt": None, "attr_order": list(CASADI_ATTRIBUTES),
                "meta_exc": msg if len(msg) <= 500 else msg[:250] + " ... " + msg[-250:]}
    rebuilt = None
    try:
        if f.class_name() == "MXFunction":
            mi = f.mx_in(0)
            rebuilt = bool(mi.is_symbolic() and mi.name() == "in_var")
    except Exception:
        rebuilt = None
    meta = []
    for pv in pvs:
        out = f(pv)
        if not isinstance(out, (list, tuple)):
            out = [out]
        mats = []
        for o in out:
            arr = np.array(ca.DM(o)).reshape((o.size1(), o.size2()))
            mats.append([[num(x) for x in row] for row in arr.tolist()])
        meta.append(mats)
    return {"params": params, "cats": cats, "meta": meta, "rebuilt": rebuilt,
            "attr_order": list(CASADI_ATTRIBUTES)}


def handler(case):
    import casadi as ca
    import numpy as np
    from pymoca import parser
    from pymoca.backends.casadi import generator as gen
    from pymoca.backends.casadi.model import CASADI_ATTRIBUTES

    stage = "generate"
    try:
        opts = dict(case.get("opts") or {})
        if case.get("via") == "transfer":
            from pymoca.backends.casadi.api import transfer_model
            d = tempfile.mkdtemp(prefix="c13_", dir=os.getcwd())   # the harness' per-run scratch directory
            try:
                with open(os.path.join(d, "M.mo"), "w") as f:
                    f.write(case["text"])
                opts["cache"] = False
                m = transfer_model(d, "M", opts)
            finally:
                shutil.rmtree(d, ignore_errors=True)
        else:
            m = gen.generate(parser.parse(case["text"]), "M", opts)

        def observe():
            return observe_model(m, case, ca, np, CASADI_ATTRIBUTES)

        if not case.get("steps"):
            stage = "inspect/metadata"
            return observe()
        stages = []
        stage = "stage 0 (after generate)"
        stages.append(observe())
        for i, st in enumerate(case["steps"]):
            stage = "simplify step %d %s" % (i + 1, st)
            m.simplify(dict(st))
            stage = "stage %d (after simplify %s)" % (i + 1, st)
            stages.append(observe())
        return {"stages": stages}
    except Exception as e:  # noqa - the failure stage and class are an outcome
        msg = str(e)
        return {"exc": type(e).__name__, "msg": msg if len(msg) <= 500 else msg[:250] + " ... " + msg[-250:], "stage": stage}


if __name__ == "__main__":
    child_main(handler)
