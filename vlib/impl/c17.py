"""Child: run op histories on the real AliasRelation and record every query result."""
from vlib.core import child_main


def handler(case):
    from pymoca.backends.casadi.alias_relation import AliasRelation
    U = case["universe"]
    rels = [AliasRelation()]
    trace = []
    eff = []
    for op in case["ops"]:
        if op[0] == "add":
            rels[op[1]].add(op[2], op[3])
            eff.append(True)
        elif op[0] == "remove":
            eff.append(op[2] in rels[op[1]].canonical_variables)
            rels[op[1]].remove(op[2])
        elif op[0] == "copy":
            rels.append(rels[op[1]].copy())
            eff.append(True)
        snap = []
        for r in rels:
            per = []
            for u in U:
                c = r.canonical_signed(u)
                per.append([sorted(r.aliases(u)), [c[0], int(c[1])]])
            it = sorted([c, sorted(a)] for c, a in r)
            snap.append({"q": per, "cv": sorted(r.canonical_variables), "iter": it})
        trace.append(snap)
    return {"trace": trace, "effective": eff}


if __name__ == "__main__":
    child_main(handler)
