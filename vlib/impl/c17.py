"""Child: run op histories on the real AliasRelation and record every query result."""
from vlib.core import child_main


def handler(case):
    from pymoca.backends.casadi.alias_relation import AliasRelation
    U = case["universe"]
    rels = [AliasRelation()]
    trace = []
    eff = []
    ids = []
    for op in case["ops"]:
        if op[0] == "add":
            rels[op[1]].add(op[2], op[3])
            eff.append(True)
        elif op[0] == "remove":
            eff.append(op[2] in rels[op[1]].canonical_variables)
            rels[op[1]].remove(op[2])
        elif op[0] == "copy":
            rels.append(rels[op[1]].copy())
            eff.append(True)
        snap = []
        for r in rels:
            per = []
            for u in U:
                c = r.canonical_signed(u)
                per.append([sorted(r.aliases(u)), [c[0], int(c[1])]])
            it = sorted([c, sorted(a)] for c, a in r)
            snap.append({"q": per, "cv": sorted(r.canonical_variables), "iter": it})
        trace.append(snap)
        # identity of the set objects stored in _aliases: 0 = not a key, else numbered by first
        # occurrence (relations in order, universe in order) — sharing within/between relations
        seen = {}
        step_ids = []
        for r in rels:
            row = []
            for u in U:
                if u in r._aliases:
                    row.append(seen.setdefault(id(r._aliases[u]), len(seen) + 1))
                else:
                    row.append(0)
            step_ids.append(row)
        ids.append(step_ids)
    return {"trace": trace, "effective": eff, "ids": ids}


if __name__ == "__main__":
    child_main(handler)
