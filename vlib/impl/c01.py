"""Child for C01: replay cache-operation histories against the REAL pymoca.parser.parse().

case   = {"texts": [str, ...], "ops": [op, ...]}
op     = ["parse", ti, days, upd] | ["reload"] | ["setver", n, dirty] | ["advance", dt_us]
       | ["entry", ti, kind, pos] | ["layout", kind] | ["file", kind]
result = {"obs": [per-op observation], "fresh": ["tree"|"none" per text], "db_rows_seen": int}

Time source (time.time_ns) and pymoca.__version__ are patched; every case gets its own cache folder.
"""
import faulthandler
import hashlib
import importlib
import os
import pickle
import shutil
import sqlite3
import tempfile
import time
from pathlib import Path

from vlib.core import child_main

BASE_NS = 1_700_000_000 * 10**9
_clock = {"us": 0}
time.time_ns = lambda: BASE_NS + _clock["us"] * 1000  # noqa: E731  (parser.py reads time.time_ns)

# a held lock must not cost the 60 s busy timeout parse() asks for: every connection of this process waits at
# most 50 ms (only matters while the harness itself holds a lock on the cache database)
_real_connect = sqlite3.connect


def _fast_connect(*a, **k):
    k["timeout"] = min(k.get("timeout", 5.0), 0.05)
    return _real_connect(*a, **k)


sqlite3.connect = _fast_connect

import pymoca  # noqa: E402

pymoca.__version__ = "0.0.0+verif"
import pymoca.parser  # noqa: E402

_counter = {"n": 0}


def _wrap_parse():
    """count calls of the uncached parser (re-applied after every module reload)"""
    mod = pymoca.parser
    inner = mod._parse
    if getattr(inner, "_verif_wrapped", False):
        return

    def counted(txt):
        _counter["n"] += 1
        return inner(txt)
    counted._verif_wrapped = True
    mod._parse = counted


_wrap_parse()


# ---- canonical structural dump (no addresses; sharing and cycles by first-visit number) -------------
def dump(obj):
    seen = {}
    out = []

    def rec(o):
        if o is None or isinstance(o, (bool, int, float, str, bytes)):
            out.append(repr(o))
            return
        i = id(o)
        if i in seen:
            out.append("<ref %d>" % seen[i])
            return
        seen[i] = len(seen)
        if isinstance(o, dict):
            out.append("%s{" % type(o).__name__)
            for k, v in o.items():
                rec(k)
                out.append(":")
                rec(v)
                out.append(",")
            out.append("}")
        elif isinstance(o, (list, tuple)) or type(o).__name__ == "deque":
            out.append("%s[" % type(o).__name__)
            for v in o:
                rec(v)
                out.append(",")
            out.append("]")
        elif isinstance(o, (set, frozenset)):
            out.append("%s{" % type(o).__name__)
            out.append(",".join(sorted(dump(v) for v in o)))
            out.append("}")
        elif hasattr(o, "__dict__") and not isinstance(o, type):
            out.append("%s.%s(" % (type(o).__module__, type(o).__name__))
            d = vars(o)
            for k in sorted(d):
                out.append(k + "=")
                rec(d[k])
                out.append(",")
            out.append(")")
        else:
            out.append("%s:%r" % (type(o).__name__, o))
    rec(obj)
    return "".join(out)


_fresh = {}  # text -> ("tree", dump, pickle) | ("none",)


def fresh(txt):
    if txt not in _fresh:
        t = pymoca.parser.parse(txt, bypass_cache=True)
        _fresh[txt] = ("none",) if t is None else ("tree", dump(t), pickle.dumps(t))
    return _fresh[txt]


def sha(txt):
    return hashlib.sha256(txt.encode("utf-8")).hexdigest()


def key_of(txt):
    """the cache key the implementation itself derives from a text (so that a different but injective key
    derivation is not mistaken for a defect); sha256(text), the anchored definition, when that is not callable"""
    f = getattr(pymoca.parser, "_calculate_txt_hash", None)
    try:
        k = f(txt)
        if isinstance(k, str):
            return k
    except Exception:  # noqa
        pass
    return sha(txt)


_blob_status = {}


def blob_status(data, want_dump):
    """what does the real pickle do with this stored value?"""
    key = (data if isinstance(data, (bytes, str, int, type(None))) else repr(data), want_dump)
    if key in _blob_status:
        return _blob_status[key]
    try:
        o = pickle.loads(data)
    except Exception as e:  # noqa
        st = "raises:" + type(e).__name__
    else:
        if o is None:
            st = "none"
        else:
            try:
                st = "good" if (want_dump is not None and dump(o) == want_dump) else "other"
            except Exception:  # noqa
                st = "other"
    _blob_status[key] = st
    return st


def safe_to_load(b):
    """A flipped byte can turn an opcode into LONG_BINPUT/PUT with a gigantic memo index: CPython's unpickler
    then allocates and clears gigabytes (observed: 26 GB, minutes).  Such damage is skipped (resource problem,
    not a property-level one); pickletools only decodes, it does not execute."""
    import pickletools
    try:
        for op, arg, _pos in pickletools.genops(b):
            if op.name in ("LONG_BINPUT", "PUT", "LONG_BINGET", "GET") and isinstance(arg, int) and arg > 100000:
                return False
    except Exception:  # noqa - not decodable from some opcode on: loads() fails there at the latest
        return True
    return True


def corrupt(kind, good, pos):
    """damaged value for an entry; returns (value, applies)"""
    if kind == "not_pickle":
        return b"not a pickle"
    if kind == "empty":
        return b""
    if kind == "truncate":
        return good[: max(1, (len(good) * (1 + pos % 7)) // 8)]
    if kind == "truncate1":
        return good[:-1]
    if kind == "bad_module":
        return good.replace(b"pymoca.ast", b"pymoca.asx")
    if kind == "bad_class":
        return good.replace(b"\x04Tree", b"\x04Trex", 1)
    if kind == "bad_args":
        return b"cpymoca.ast\nTree\n(I1\nI2\ntR."
    if kind == "pickled_none":
        return pickle.dumps(None)
    if kind == "int_value":
        return 12345
    if kind == "null_value":
        return None
    if kind == "text_value":
        return "hello"
    if kind == "flip":
        for j in range(16):
            p = (pos + 7919 * j) % len(good)
            b = bytearray(good)
            b[p] ^= 0x5A
            b = bytes(b)
            if not safe_to_load(b):
                continue
            try:
                pickle.loads(b)
            except Exception:  # noqa
                return b
        return b"\x80\x04flip-fallback"
    raise ValueError(kind)


DUMMY = "CREATE TABLE {} (wrong_key TEXT, wrong_value TEXT, PRIMARY KEY (wrong_key))"


def integrity_ok(path):
    if not os.path.isfile(path):
        return False
    try:
        c = sqlite3.connect("file:%s?mode=ro" % path, uri=True)
        try:
            return c.execute("PRAGMA integrity_check").fetchone() == ("ok",)
        finally:
            c.close()
    except sqlite3.DatabaseError:
        return False


def db_exec(path, stmts):
    """all statements in one transaction, or none of them"""
    if not os.path.exists(path):
        return "missing"
    try:
        c = sqlite3.connect(path, isolation_level=None)
        try:
            c.execute("BEGIN IMMEDIATE")
            try:
                for s in stmts:
                    if isinstance(s, tuple):
                        c.execute(*s)
                    else:
                        c.execute(s)
                c.execute("COMMIT")
            except BaseException:
                try:
                    c.execute("ROLLBACK")
                except sqlite3.Error:
                    pass
                raise
        finally:
            c.close()
        return "ok"
    except sqlite3.DatabaseError as e:
        return "dberr:" + type(e).__name__


RETYPE = {   # right column names and primary key, other declared types / affinities
    "models_lasthit_text": "txt_hash TEXT, pymoca_version TEXT, data BLOB, last_hit TEXT",
    "models_lasthit_real": "txt_hash TEXT, pymoca_version TEXT, data BLOB, last_hit REAL",
    "models_data_text": "txt_hash TEXT, pymoca_version TEXT, data TEXT, last_hit TIMESTAMP INTEGER",
    "models_hash_blob": "txt_hash BLOB, pymoca_version TEXT, data BLOB, last_hit TIMESTAMP INTEGER",
    "models_untyped": "txt_hash, pymoca_version, data, last_hit",
}


TABLE_DEFS = {   # the layout parser.py creates (only used to write the ONE changed column next to the others)
    "models": ([("txt_hash", "TEXT"), ("pymoca_version", "TEXT"), ("data", "BLOB"), ("last_hit", "TIMESTAMP INTEGER")],
               "txt_hash, pymoca_version"),
    "metadata": ([("key", "TEXT"), ("value", "TEXT")], "key"),
}


def retype_one(table, col, decl):
    """the table with the right column names and primary key, rows kept, ONE column declared differently
    (other type / affinity, NOT NULL, DEFAULT)"""
    cols, pk = TABLE_DEFS[table]
    names = ", ".join(n for n, _ in cols)
    body = ", ".join("%s %s" % (n, decl if n == col else d) for n, d in cols)
    new = table + "_new"
    return ["DROP TABLE IF EXISTS %s" % new,
            "CREATE TABLE %s (%s, PRIMARY KEY (%s))" % (new, body, pk),
            "INSERT INTO %s SELECT %s FROM %s" % (new, names, table),
            "DROP TABLE %s" % table,
            "ALTER TABLE %s RENAME TO %s" % (new, table)]


_reference_layout = {}


def reference_layout():
    """PRAGMA table_info of both tables of a database this very implementation creates from nothing"""
    if not _reference_layout:
        d = tempfile.mkdtemp(prefix="c01ref_", dir=os.getcwd())
        keep = pymoca.__version__
        pymoca.__version__ = "0.0.0+verif"
        try:
            pymoca.parser.parse("model R\nend R;\n", model_cache_folder=Path(d))
            c = _real_connect(os.path.join(d, pymoca.parser.DEFAULT_MODEL_CACHE_DB))
            for t in ("models", "metadata"):
                _reference_layout[t] = [list(r) for r in c.execute("PRAGMA table_info('%s')" % t).fetchall()]
            c.close()
        finally:
            pymoca.__version__ = keep
            shutil.rmtree(d, ignore_errors=True)
    return _reference_layout


def _safe_reference():
    try:
        return reference_layout()
    except Exception as e:  # noqa - then the layout clause of the oracle has no reference and says so
        return {"error": "%s: %s" % (type(e).__name__, str(e)[:100])}


def layout_facts(path, texts):
    """what a reader sees of the table layout and of the stored last_hit values (None when not readable)"""
    if not os.path.isfile(path) or "c" in _lock:
        return None
    try:
        c = sqlite3.connect("file:%s?mode=ro" % path, uri=True)
        try:
            kinds = dict(c.execute("SELECT name, type FROM sqlite_master WHERE name IN ('models', 'metadata')").fetchall())
            out = {"view": kinds.get("models") == "view"}
            for t in ("models", "metadata"):
                out[t] = ([list(r) for r in c.execute("PRAGMA table_info('%s')" % t).fetchall()]
                          if kinds.get(t) == "table" else None)
            rows = []
            if out["models"] is not None and {"txt_hash", "pymoca_version", "last_hit"} <= {r[1] for r in out["models"]}:
                by_key = {}
                for i, t in enumerate(texts):
                    by_key.setdefault(key_of(t), i)
                for h, v, ty, lh in c.execute("SELECT txt_hash, pymoca_version, typeof(last_hit), last_hit FROM models"):
                    rows.append([by_key.get(h, -1), v, ty, lh - BASE_NS // 1000 if isinstance(lh, int) else None])
            out["rows"] = rows
            return out
        finally:
            c.close()
    except sqlite3.DatabaseError:
        return None


def retype_stmts(cols):
    return ["DROP TABLE IF EXISTS models_new",
            "CREATE TABLE models_new (%s, PRIMARY KEY (txt_hash, pymoca_version))" % cols,
            "INSERT INTO models_new SELECT txt_hash, pymoca_version, data, last_hit FROM models",
            "DROP TABLE models",
            "ALTER TABLE models_new RENAME TO models"]


VIEW = ("CREATE VIEW models AS SELECT 'x' AS txt_hash, 'v' AS pymoca_version, NULL AS data, 0 AS last_hit "
        "WHERE 0")
_lock = {}


def release_lock():
    c = _lock.pop("c", None)
    if c is not None:
        try:
            c.close()
        except sqlite3.Error:
            pass


def take_lock(path, mode):
    """another connection holds a write lock (RESERVED) or an exclusive lock on the cache database"""
    release_lock()
    if mode == "release" or not os.path.isfile(path):
        return "noop"
    try:
        c = sqlite3.connect(path, isolation_level=None)
        try:
            c.execute("BEGIN IMMEDIATE" if mode == "reserved" else "BEGIN EXCLUSIVE")
        except sqlite3.DatabaseError:
            c.close()
            return "noop"
        _lock["c"] = c
        return "ok"
    except sqlite3.DatabaseError:
        return "noop"


def index_rowid_swap(path):
    """Damage confined to the primary-key index: swap the rowids stored behind two keys in the leaf page of
    sqlite_autoindex_models_1 (all pages stay well-formed; only PRAGMA integrity_check notices that index and
    table disagree).  Returns True when applied."""
    if not os.path.exists(path):
        return False
    try:
        conn = sqlite3.connect(path)
        try:
            if conn.execute("PRAGMA integrity_check").fetchone() != ("ok",):
                return False
            (page_size,) = conn.execute("PRAGMA page_size").fetchone()
            r = conn.execute("SELECT rootpage FROM sqlite_master WHERE type='index' AND tbl_name='models'").fetchone()
            rows = conn.execute("SELECT rowid, txt_hash, pymoca_version FROM models ORDER BY rowid").fetchall()
        finally:
            conn.close()
    except sqlite3.DatabaseError:
        return False
    cand = [x for x in rows if 2 <= x[0] < 128 and isinstance(x[1], str) and isinstance(x[2], str)][:2]
    if r is None or len(cand) < 2:
        return False
    raw = bytearray(open(path, "rb").read())
    lo, hi = (r[0] - 1) * page_size, r[0] * page_size
    (ra, ha, va), (rb, hb, vb) = cand
    edits = []
    for h, v, old, new in ((ha, va, ra, rb), (hb, vb, rb, ra)):
        key = (h + v).encode()
        pos = raw.find(key, lo, hi)
        if pos < 0 or raw[pos + len(key)] != old:
            return False
        edits.append((pos + len(key), new))
    for at, new in edits:
        raw[at] = new
    with open(path, "wb") as fh:
        fh.write(bytes(raw))
    return True


def store_facts(path, texts):
    """rows of the models table as (text index | -1, version, status)"""
    if not os.path.exists(path):
        return "missing"
    by_hash = {}
    for i, t in enumerate(texts):
        by_hash.setdefault(key_of(t), []).append(i)
    try:
        c = sqlite3.connect("file:%s?mode=ro" % path, uri=True)
        try:
            if c.execute("PRAGMA integrity_check").fetchone() != ("ok",):
                return "unreadable:integrity"
            rows = c.execute("SELECT txt_hash, pymoca_version, data FROM models").fetchall()
        finally:
            c.close()
    except sqlite3.DatabaseError as e:
        return "unreadable:" + type(e).__name__
    out = []
    for h, v, data in rows:
        # every text of the history whose key this is (normally exactly one); a row that cannot be attributed
        # to a text (-1) is reported as such and not judged
        alts = []
        for ti in by_hash.get(h, []):
            f = fresh(texts[ti])
            alts.append([ti, blob_status(data, f[1] if f[0] == "tree" else None)])
        if alts:
            out.append([alts[0][0], v, alts[0][1], alts])
        else:
            out.append([-1, v, blob_status(data, None), []])
    out.sort(key=lambda r: (r[0], str(r[1])))
    return out


CASE_TIMEOUT_S = 150
try:  # a runaway case must not take the machine down
    import resource
    resource.setrlimit(resource.RLIMIT_AS, (3 * 2**30, 3 * 2**30))
except Exception:  # noqa
    pass
_hang_log = open("c01_hang.txt", "a")


def handler(case):
    # watchdog: a case that hangs dumps its traceback to ./c01_hang.txt and kills this child (the parent
    # records a crash for the case and continues with a new child)
    faulthandler.dump_traceback_later(CASE_TIMEOUT_S, exit=True, file=_hang_log)
    try:
        return _handler(case)
    finally:
        faulthandler.cancel_dump_traceback_later()


OTHER = "model VerifOther\n  Real q;\nequation\n  q = 1;\nend VerifOther;\n"


def mutate_tree(tree, kind):
    """the caller edits, in place, the tree parse() handed out"""
    if tree is None:
        return "noop"
    import pymoca.ast as past
    if kind == "add_class":
        tree.classes["VerifAdded"] = past.Class(name="VerifAdded")
    elif kind == "extend":
        tree.extend(pymoca.parser.parse(OTHER, bypass_cache=True))
    elif kind == "rename_first":
        if not tree.classes:
            return "noop"
        c = next(iter(tree.classes.values()))
        c.name = str(c.name) + "_edited"
    elif kind == "clear_classes":
        tree.classes.clear()
    else:
        raise ValueError(kind)
    return "ok"


def _handler(case):
    last = {}
    texts = case["texts"]
    folder = tempfile.mkdtemp(prefix="c01_", dir=os.getcwd())  # under the run's tmp dir: removed with it
    _clock["us"] = 0
    pymoca.__version__ = "0.0.0+verif"
    importlib.reload(pymoca.parser)
    _wrap_parse()
    path = os.path.join(folder, pymoca.parser.DEFAULT_MODEL_CACHE_DB)
    fr = [fresh(t) for t in texts]
    obs = []
    rows_seen = 0
    try:
        for op in case["ops"]:
            o = {}
            k = op[0]
            if k == "parse":
                _, ti, days, upd = op
                n0 = _counter["n"]
                try:
                    tree = pymoca.parser.parse(texts[ti], model_cache_folder=Path(folder),
                                               cache_expiration_days=days, always_update_last_hit=bool(upd))
                except Exception as e:  # noqa - the class is the observation
                    o["out"] = "exc"
                    o["cls"] = type(e).__name__
                    o["db"] = isinstance(e, sqlite3.DatabaseError)
                    o["mro"] = [c.__name__ for c in type(e).__mro__[:4]]
                    o["msg"] = str(e)[:120]
                else:
                    last["tree"] = tree
                    if tree is None:
                        o["out"] = "none"
                    else:
                        f = fr[ti]
                        o["out"] = "tree" if (f[0] == "tree" and dump(tree) == f[1]) else "other"
                o["fresh_calls"] = _counter["n"] - n0
                o["layout"] = layout_facts(path, texts)
            elif k == "mutate":
                o["applied"] = mutate_tree(last.get("tree"), op[1])
            elif k == "reload":
                importlib.reload(pymoca.parser)
                _wrap_parse()
            elif k == "setver":
                pymoca.__version__ = "0.0.%d+verif%s" % (op[1], ".dirty" if op[2] else "")
            elif k == "advance":
                _clock["us"] += int(op[1])
            elif k == "entry":
                _, ti, kind, pos = op
                f = fr[ti]
                good = f[2] if f[0] == "tree" else pickle.dumps({"no": "tree"})
                val = corrupt(kind, good, pos)
                o["blob"] = blob_status(val, None)
                o["applied"] = db_exec(path, [("UPDATE models SET data = ? WHERE txt_hash = ?", (val, key_of(texts[ti])))])
            elif k == "layout":
                kind = op[1]
                stmts = retype_one(*kind.split(":")[1:]) if kind.startswith("retype:") else \
                    retype_stmts(RETYPE[kind]) if kind in RETYPE else {
                    "models_view": ["DROP TABLE IF EXISTS models", VIEW],
                    "models_dropped": ["DROP TABLE IF EXISTS models"],
                    "models_wrong": ["DROP TABLE IF EXISTS models", DUMMY.format("models")],
                    "models_extra": ["ALTER TABLE models ADD COLUMN extra TEXT"],
                    "meta_dropped": ["DROP TABLE IF EXISTS metadata"],
                    "meta_wrong": ["DROP TABLE IF EXISTS metadata", DUMMY.format("metadata")],
                    "meta_emptied": ["DELETE FROM metadata"],
                }[kind]
                if (kind.startswith("retype:") or kind in RETYPE) and not integrity_ok(path):
                    o["applied"] = "dberr:integrity"   # a table rebuild would silently repair e.g. a damaged index
                else:
                    o["applied"] = db_exec(path, stmts)
            elif k == "lock":
                o["applied"] = take_lock(path, op[1])
            elif k == "file":
                kind = op[1]
                release_lock()                      # whoever held a lock lets go before the file is replaced
                if os.path.isdir(path) and kind != "index_swap_restart":
                    shutil.rmtree(path)             # a directory in place of the file is removed by every file op
                if kind == "directory":
                    if os.path.exists(path):
                        os.remove(path)
                    os.mkdir(path)
                elif kind == "index_swap_restart":   # index damage, then the process restarts
                    o["applied"] = "ok" if index_rowid_swap(path) else "noop"
                    importlib.reload(pymoca.parser)
                    _wrap_parse()
                elif kind == "delete":
                    if os.path.exists(path):
                        os.remove(path)
                elif kind == "zero":
                    open(path, "wb").close()
                elif kind == "truncate" and os.path.exists(path) and os.path.getsize(path) >= 8192:
                    with open(path, "r+b") as fh:
                        fh.truncate(os.path.getsize(path) // 2)
                else:  # garbage (also truncate of a missing / tiny file)
                    with open(path, "wb") as fh:
                        fh.write(b"this is not a database " * 400)
            else:
                raise ValueError(k)
            st = store_facts(path, texts)
            o["store"] = st
            if isinstance(st, list):
                rows_seen += sum(1 for r_ in st if r_[0] >= 0)
            obs.append(o)
    finally:
        release_lock()
        shutil.rmtree(folder, ignore_errors=True)
    sig = [hashlib.sha1(f[1].encode("utf-8", "surrogatepass")).hexdigest() if f[0] == "tree" else None for f in fr]
    return {"obs": obs, "fresh": [f[0] for f in fr], "fresh_sig": sig, "rows_seen": rows_seen,
            "reference_layout": _safe_reference()}


if __name__ == "__main__":
    child_main(handler)
