"""Child: run the REAL SymPy generator on a Modelica text, dump the flat model it was given
(pymoca.tree.flatten), the emitted list / equation lines, execute the generated module against
the real runtime OdeModel (solver call stubbed) and evaluate its equations at rational points."""
import copy
import re

from vlib.core import child_main


def dump(node, ast):
    if isinstance(node, ast.Symbol):
        return ["sym", node.name]
    if isinstance(node, ast.ComponentRef):
        if node.child or not all(i is None for grp in node.indices for i in grp):
            return ["unsupported", "ref-with-child-or-index"]
        return ["var", node.name]
    if isinstance(node, ast.Primary):
        v = node.value
        kind = "bool" if isinstance(v, bool) else "int" if isinstance(v, int) else \
            "float" if isinstance(v, float) else type(v).__name__
        return ["num", str(v), kind]
    if isinstance(node, ast.Expression):
        op = node.operator
        args = [dump(o, ast) for o in node.operands]
        if isinstance(op, ast.ComponentRef):
            return ["call", op.name] + args
        return ["op", str(op)] + args
    return ["unsupported", type(node).__name__]


def emitted(src):
    lists = {}
    for key in "xuycpv":
        m = re.search(r"^\s*self\.%s = sympy\.Matrix\(\[(.*)\]\)\s*$" % key, src, flags=re.M)
        lists[key] = m.group(1) if m else None
    eqs, on = [], False
    for line in src.splitlines():
        s = line.strip()
        if s.startswith("self.eqs = ["):
            on = True
            continue
        if on:
            if s == "]":
                break
            if s:
                eqs.append(s[:-1] if s.endswith(",") else s)
    return lists, eqs


def handler(case):
    import sympy
    from pymoca import ast, parser
    from pymoca.backends.sympy import generator
    import pymoca.tree as tree
    if case.get("probe") == "builtins":
        return {"builtins": list(generator.BUILTINS)}
    from vlib.c24 import expected_lists
    out = {}
    tr = parser.parse(case["text"])
    if tr is None:
        return {"parse_failed": True}
    name = case["name"]
    src = generator.generate(tr, name)
    if "edit_text" in case:
        # generate / edit the SAME tree object in place through the ast API / generate again;
        # the reference is a fresh parse of the edited text
        tr2 = parser.parse(case["edit_text"])
        ref = parser.parse(case["edit_text"])
        if tr2 is None or ref is None:
            return {"parse_failed": True}
        M, M2 = tr.classes[name], tr2.classes[name]
        for n, sy in M2.symbols.items():
            if n not in M.symbols:
                M.symbols[n] = sy
        M.equations += M2.equations[len(M.equations):]
        out["first_src_differs"] = True
        src_old = src
        src = generator.generate(tr, name)
        out["regenerated_differs"] = src != src_old
        fe = tree.flatten(copy.deepcopy(tr), ast.ComponentRef.from_string(name)).classes[name]
        fr = tree.flatten(copy.deepcopy(ref), ast.ComponentRef.from_string(name)).classes[name]
        out["edit_ok"] = ([[dump(e.left, ast), dump(e.right, ast)] for e in fe.equations] ==
                          [[dump(e.left, ast), dump(e.right, ast)] for e in fr.equations] and
                          [(s.name, list(s.prefixes)) for s in fe.symbols.values()] ==
                          [(s.name, list(s.prefixes)) for s in fr.symbols.values()])
        tr = ref
    flat = tree.flatten(copy.deepcopy(tr), ast.ComponentRef.from_string(name))
    fc = flat.classes[name]
    syms = sorted(fc.symbols.values(), key=lambda s: s.order)
    out["syms"] = [[s.name, list(s.prefixes)] for s in syms]
    out["eqs"] = [[dump(e.left, ast), dump(e.right, ast)] for e in fc.equations]
    out["builtins"] = list(generator.BUILTINS)
    lists, eqlines = emitted(src)
    out["lists"] = lists
    out["eqlines"] = eqlines
    out["src_tail"] = src[-1500:]
    # ---- execute the generated module against the real runtime, solver stubbed ----
    try:
        compile(src, "<generated>", "exec")
    except SyntaxError as e:
        out["exec"] = "SyntaxError: %s" % e
        return out
    import pymoca.backends.sympy.runtime as rt
    rt.OdeModel.compute_fg = lambda self: None
    ns = {}
    try:
        exec(src, ns)
        model = ns[name]()
    except BaseException as e:  # noqa
        out["exec"] = "%s: %s" % (type(e).__name__, str(e)[:200])
        return out
    out["exec"] = "ok"
    got = {k: [sympy.srepr(a) for a in list(getattr(model, k))] for k in "xuycpv"}
    out["list_objs"] = got
    out["n_eqs"] = len(model.eqs)
    # positional map flat name -> sympy object, against the expected classification
    exp = expected_lists(out["syms"])
    objs = {}
    ok = True
    for k in "xuycpv":
        L = list(getattr(model, k))
        if len(L) != len(exp[k]):
            ok = False
            continue
        for nme, o in zip(exp[k], L):
            objs.setdefault(nme, o)
    out["mapped"] = ok
    if not ok:
        return out
    t = model.t
    vals = []
    for pt in case.get("points", []):
        dmap, smap = {}, {}
        for nme, o in objs.items():
            if nme in pt["der"]:
                dmap[sympy.Derivative(o, t)] = sympy.Rational(pt["der"][nme])
            smap[o] = sympy.Rational(pt["var"].get(nme, "1"))
        row = []
        for e in model.eqs:
            try:
                r = sympy.sympify(e).subs(dmap).subs(smap).subs({t: sympy.Rational(pt["t"])})
                r = sympy.N(r, 40)
                if r.is_number and r.is_finite:
                    re_, im_ = r.as_real_imag()
                    row.append([str(re_), str(im_)])
                else:
                    row.append(["nonnumeric", str(r)[:120]])
            except BaseException as ex:  # noqa
                row.append(["error", "%s: %s" % (type(ex).__name__, str(ex)[:120])])
        vals.append(row)
    out["vals"] = vals
    return out


if __name__ == "__main__":
    child_main(handler)
