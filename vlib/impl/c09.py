"""Child: parse + flatten a generated Modelica text with the REAL pymoca and return the flat
equations as plain trees (the parent turns them into linear rows)."""
from vlib.core import child_main


def ser(e, ast):
    if isinstance(e, ast.Equation):
        return ["eq", ser(e.left, ast), ser(e.right, ast)]
    if isinstance(e, ast.Symbol):
        return ["sym", e.name]
    if isinstance(e, ast.ComponentRef):
        idx = [[None if i is None else ser(i, ast) for i in ia] for ia in e.indices]
        return ["ref", e.name, idx, [ser(c, ast) for c in e.child]]
    if isinstance(e, ast.Primary):
        v = e.value
        if isinstance(v, bool) or not isinstance(v, (int, float)):
            return ["val", repr(v)]
        return ["num", v]
    if isinstance(e, ast.Expression):
        return ["op", str(e.operator), [ser(o, ast) for o in e.operands]]
    return ["other", type(e).__name__]


def handler(case):
    import logging
    logging.disable(logging.CRITICAL)
    import pymoca.parser
    import pymoca.tree
    from pymoca import ast
    tree = pymoca.parser.parse(case["text"])
    if tree is None:
        return {"exc": "ParseFailed", "msg": "parser returned None"}
    flat = pymoca.tree.flatten(tree, ast.ComponentRef(name=case["top"]))
    cls = flat.classes[case["top"]]
    syms = []
    for name, s in cls.symbols.items():
        syms.append([name, list(s.prefixes)])
    return {"eqs": [ser(e, ast) for e in cls.equations], "symbols": syms}


if __name__ == "__main__":
    child_main(handler)
