"""Child for C21: runs the REAL pymoca.backends.casadi.api (transfer_model / load_model / save_model)
on histories of edits, transfers, interrupted transfers, cut cache files and reader-during-write
interleavings in a scratch folder, and sweeps real pickle.load over every truncation offset.

Case kinds
  {"kind": "sweep", "name", "template", "opts"}            -> exception class of pickle.load per offset
  {"kind": "history", "name", "template", "optsets", "ops"} -> one result per op
ops:  ["edit"] | ["bump"] | ["transfer", o] | ["crash", o, j] | ["cut", k] | ["reader", o, j]
      | ["two", oa, ob, schedule] | ["reader2", o, j, schedule] | ["gap", o, schedule]
  gap: (schedule = list of single steps "A"/"B" or [thread, label] = run that thread up to its next checkpoint
  with that label: tested | walk | open | loaded | saved | removed | end)  caller A = transfer_model(optsets[o]); caller B = transfer_model({"codegen": True}) whose _codegen_model is
  replaced by a kill (no gcc): B rejects the cache file, compiles, enters save_model, removes the cache file and
  dies.  Extra checkpoints through a proxy for the name `os` in api.py: after every existence/mtime test of the
  cache file, before os.walk, before the cache file is opened for reading, after os.remove of the cache file
  two: callers A (options oa) and B (ob) run transfer_model in two threads, one at a time under a
  deterministic scheduler with checkpoints after load_model, before _compile_model, before save_model;
  `schedule` (a string over A/B) says who advances one step at a time (then A, then B run to the end)
  j = number of completed write steps (0 before open, 1 created/truncated, 1+k = k bytes written)
  k = byte offset (negative: from the end of the current file)
"""
import builtins
import hashlib
import json
import os
import pickle as real_pickle
import pickletools
import shutil
import tempfile
import threading

from vlib.core import child_main

VERSION = "0.0.verif-c21"
T0 = 1600000000
_api = None
_ref_cache = {}


class PickleProxy:
    """stands in for the name `pickle` inside api.py; records the exception class of every load"""

    def __init__(self):
        self._logs = {}

    @property
    def log(self):                       # one log per thread
        return self._logs.setdefault(threading.get_ident(), [])

    def __getattr__(self, n):
        return getattr(real_pickle, n)

    def load(self, f, *a, **k):
        try:
            r = real_pickle.load(f, *a, **k)
        except BaseException as e:  # noqa
            self.log.append(type(e).__name__)
            raise
        self.log.append("OK")
        return r


PROXY = PickleProxy()


def api():
    global _api
    if _api is None:
        import pymoca
        pymoca.__version__ = VERSION
        from pymoca.backends.casadi import api as a
        a.__version__ = VERSION
        a.pickle = PROXY
        import logging
        logging.getLogger("pymoca").setLevel(logging.ERROR)
        _api = a
    return _api


HANG_S = int(os.environ.get("C21_HANG_S", "60"))
_hangs = [0]          # after the first hang in this process later ones get 20 s (keeps a hanging mutant affordable)


def reset_api():
    """after a hang a thread is stuck inside api (e.g. on a module-level lock): give the next case a fresh module"""
    global _api
    import sys
    _api = None
    sys.modules.pop("pymoca.backends.casadi.api", None)
    try:
        import pymoca.backends.casadi as pk
        if hasattr(pk, "api"):
            delattr(pk, "api")
    except Exception:  # noqa
        pass


class SimCrash(BaseException):
    pass


class Sched:
    """runs the named worker threads one at a time; a worker stops at every checkpoint()"""

    def __init__(self, names):
        self.go = {n: threading.Semaphore(0) for n in names}
        self.arr = {n: threading.Semaphore(0) for n in names}
        self.done = {n: False for n in names}
        self.last = {n: None for n in names}

    def checkpoint(self, label=None):
        n = threading.current_thread().name
        if n in self.go:
            self.last[n] = label
            self.arr[n].release()
            self.go[n].acquire()

    def until(self, n, label):
        """advance thread n until it stops at a checkpoint with this label ("end": until it is done)"""
        for _ in range(200):
            if self.done[n]:
                return
            self.step(n)
            if label != "end" and self.last[n] == label and not self.done[n]:
                return

    def worker(self, n, fn):
        self.go[n].acquire()
        try:
            fn()
        finally:
            self.done[n] = True
            self.arr[n].release()

    def step(self, n):
        if not self.done[n]:
            self.go[n].release()
            if not self.arr[n].acquire(timeout=(HANG_S if _hangs[0] == 0 else 20)):
                raise RuntimeError("scheduler: thread %s did not reach a checkpoint" % n)


class CutFile:
    """file object handed to save_model: lets `budget` bytes through, then fires `trigger`"""

    def __init__(self, f, budget, trigger):
        self.f, self.budget, self.trigger, self.written = f, budget, trigger, 0

    def write(self, b):
        b = bytes(b)
        if self.budget is None or len(b) <= self.budget:
            if self.budget is not None:
                self.budget -= len(b)
            self.written += len(b)
            return self.f.write(b)
        n = self.budget
        self.f.write(b[:n])
        self.f.flush()
        self.written += n
        self.budget = None
        self.trigger()            # crash: raises SimCrash; reader: runs the reader, then we go on
        self.f.write(b[n:])
        self.written += len(b) - n
        return len(b)

    def __enter__(self):
        return self

    def __exit__(self, *exc):
        self.f.close()
        return False

    def __getattr__(self, n):
        return getattr(self.f, n)


class Cutter:
    def __init__(self, a, steps, trigger):
        self.a, self.steps, self.trigger = a, steps, trigger
        self.fired = False
        self.file = None

    def fire(self):
        self.fired = True
        self.a.__dict__.pop("open", None)
        self.trigger()

    def open(self, path, mode="r", *args, **kw):
        if str(path).endswith(".pymoca_cache") and "w" in mode and not self.fired and self.file is None:
            if self.steps == 0:
                self.fire()                       # before the file is created / truncated
                return builtins.open(path, mode, *args, **kw)
            self.file = CutFile(builtins.open(path, mode, *args, **kw), self.steps - 1, self.fire)
            return self.file
        return builtins.open(path, mode, *args, **kw)

    def __enter__(self):
        self.a.open = self.open
        return self

    def __exit__(self, *exc):
        self.a.__dict__.pop("open", None)
        return False


def signature(m):
    import casadi as ca
    names = {}
    for c in ["states", "der_states", "alg_states", "inputs", "constants", "parameters"]:
        names[c] = [v.symbol.name() for v in getattr(m, c)]
    names["outputs"] = [str(x) for x in m.outputs]
    vals = {}
    for fn in ["dae_residual_function", "initial_residual_function"]:
        f = getattr(m, fn)
        args = []
        for i in range(f.n_in()):
            r, c = f.size_in(i)
            args.append(ca.DM([0.1 * (i + 1) + 0.013 * k for k in range(r * c)]).reshape((r, c)))
        out = f(*args) if f.n_in() else f()
        if out is None:
            out = []
        elif not isinstance(out, (list, tuple)):
            out = [out]
        vals[fn] = [[repr(round(float(x), 9)) for x in ca.DM(o).nonzeros()] + [list(ca.DM(o).shape)] for o in out]
    return {"names": names, "vals": vals}


def sig_hash(s):
    return hashlib.sha1(json.dumps(s, sort_keys=True).encode()).hexdigest()[:12]


def reference(name, text, opts):
    """fresh compile in a clean folder without any cache machinery"""
    key = (name, text, json.dumps(opts, sort_keys=True))
    if key not in _ref_cache:
        a = api()
        d = tempfile.mkdtemp(prefix="c21ref_")
        try:
            open(os.path.join(d, name + ".mo"), "w").write(text)
            o = dict(opts)
            o["cache"] = False
            o["codegen"] = False
            o["expand_mx"] = True
            _ref_cache[key] = signature(a.transfer_model(d, name, o))
        finally:
            shutil.rmtree(d, ignore_errors=True)
    return _ref_cache[key]


def do_sweep(case):
    a = api()
    d = tempfile.mkdtemp(prefix="c21s_")
    try:
        name = case["name"]
        open(os.path.join(d, name + ".mo"), "w").write(case["template"].replace("@N@", "0"))
        wc = []

        class CountFile(CutFile):
            def write(self, b):
                wc.append(len(bytes(b)))
                return self.f.write(b)

        def copen(path, mode="r", *args, **kw):
            f = builtins.open(path, mode, *args, **kw)
            return CountFile(f, None, None) if str(path).endswith(".pymoca_cache") and "w" in mode else f
        a.open = copen
        try:
            a.transfer_model(d, name, dict(case["opts"]))
        finally:
            a.__dict__.pop("open", None)
        data = open(os.path.join(d, name + ".pymoca_cache"), "rb").read()
        frames = [[pos, arg] for op, arg, pos in pickletools.genops(data) if op.name == "FRAME"]
        p = os.path.join(d, "prefix.bin")
        n_all = len(data)
        if case.get("sample"):
            import random
            rng = random.Random(case.get("seed", 0))
            offs = set(rng.sample(range(n_all + 1), min(case["sample"], n_all + 1)))
            offs |= set(range(0, 16)) | {n_all, n_all - 1, n_all - 2, 4096, 8191, 8192, 8193}
            for pos, ln in frames:
                offs |= set(range(max(0, pos - 2), pos + 12)) | set(range(pos + 9 + ln - 2, pos + 9 + ln + 3))
            offs = sorted(k for k in offs if 0 <= k <= n_all)
        else:
            offs = list(range(n_all + 1))
        # the file shrinks from the end: one truncate + one open/load per offset
        with open(p, "wb") as f:
            f.write(data)
        res = {}
        for n in reversed(offs):
            os.truncate(p, n)
            try:
                with open(p, "rb") as f:
                    real_pickle.load(f)
                c = "OK"
            except BaseException as e:  # noqa
                c = type(e).__name__
            res[n] = c
        rle = []
        for n in offs:
            if not rle or rle[-1][1] != res[n]:
                rle.append([n, res[n]])
        return {"n": n_all, "frames": frames, "rle": rle, "checked": len(offs), "write_calls": wc}
    finally:
        shutil.rmtree(d, ignore_errors=True)


def do_history(case):
    a = api()
    a.__version__ = VERSION
    name = case["name"]
    optsets = case["optsets"]
    d = tempfile.mkdtemp(prefix="c21h_")
    mo = os.path.join(d, name + ".mo")
    cache = os.path.join(d, name + ".pymoca_cache")
    st = {"clock": 0, "src": 0, "ver": 0}
    state = {"hung": False}

    def text():
        return case["template"].replace("@N@", str(st["src"]))

    def write_src():
        open(mo, "w").write(text())
        os.utime(mo, (T0 + st["clock"], T0 + st["clock"]))

    def stat():
        try:
            s = os.stat(cache)
            return (s.st_mtime_ns, s.st_size, s.st_ino)
        except FileNotFoundError:
            return None

    def stamp(before):
        now = stat()
        if now is not None and now != before:
            os.utime(cache, (T0 + st["clock"], T0 + st["clock"]))

    def transfer(o):
        """in the main thread: bounded by HANG_S (a transfer_model that does not come back is outcome "Hang")"""
        if threading.current_thread() is not threading.main_thread():
            return transfer_inner(o)
        box = {}
        th = threading.Thread(target=lambda: box.__setitem__("r", transfer_inner(o)), daemon=True)
        th.start()
        limit = HANG_S if _hangs[0] == 0 else 20
        th.join(limit)
        if th.is_alive():
            state["hung"] = True
            _hangs[0] += 1
            return {"out": "Hang", "msg": "transfer_model did not return within %d s" % limit, "pl": None}
        return box.get("r", {"out": "Raised", "exc": "thread-died", "pl": None})

    def transfer_inner(o):
        start = len(PROXY.log)
        r = {}
        try:
            m = a.transfer_model(d, name, json.loads(json.dumps(optsets[o])))
        except SimCrash:
            r["out"] = "Died"
        except BaseException as e:  # noqa
            r.update({"out": "Raised", "exc": type(e).__name__, "msg": str(e)[:200]})
        else:
            r["out"] = "Loaded" if isinstance(m, a.CachedModel) else "Recompiled"
            try:
                s = signature(m)
                ref = reference(name, text(), optsets[o])
                r["sig_ok"] = (s == ref)
                if s != ref:
                    r["sig"], r["ref"] = s, ref
            except BaseException as e:  # noqa
                r["sig_ok"] = False
                r["sig_error"] = "%s: %s" % (type(e).__name__, str(e)[:200])
        r["pl"] = PROXY.log[start] if len(PROXY.log) > start else None
        return r

    def two(oa, ob, schedule):
        sched = Sched(["A", "B"])
        orig = (a.load_model, a._compile_model, a.save_model)
        save_order = []

        def load_model(*args, **kw):
            try:
                return orig[0](*args, **kw)
            finally:
                sched.checkpoint()

        def compile_model(*args, **kw):
            sched.checkpoint()
            return orig[1](*args, **kw)

        def save_model(*args, **kw):
            sched.checkpoint()
            save_order.append(threading.current_thread().name)
            return orig[2](*args, **kw)

        res = {}
        a.load_model, a._compile_model, a.save_model = load_model, compile_model, save_model
        try:
            ths = [threading.Thread(daemon=True, target=sched.worker, name=n,
                                    args=(n, (lambda n=n, o=o: res.__setitem__(n, transfer(o)))))
                   for n, o in (("A", oa), ("B", ob))]
            for t in ths:
                t.start()
            for ch in schedule:
                sched.step(ch)
            for n in ("A", "B"):
                while not sched.done[n]:
                    sched.step(n)
            for t in ths:
                t.join()
        finally:
            a.load_model, a._compile_model, a.save_model = orig
        return {"A": res.get("A", {"out": "Raised", "exc": "thread-died"}),
                "B": res.get("B", {"out": "Raised", "exc": "thread-died"}), "save_order": save_order}

    def gap(o, schedule):
        sched = Sched(["A", "B"])
        orig = (a.load_model, a._compile_model, a.save_model, a._codegen_model)
        events = []

        def me():
            return threading.current_thread().name

        class PathProxy:
            def __getattr__(s, n):
                f = getattr(os.path, n)
                if n not in ("isfile", "exists", "getmtime", "getsize"):
                    return f

                def g(p, *ar, **k):
                    try:
                        return f(p, *ar, **k)
                    finally:
                        if str(p) == cache:
                            sched.checkpoint("tested")
                return g

        class OsProxy:
            path = PathProxy()

            def __getattr__(s, n):
                return getattr(os, n)

            def walk(s, *ar, **k):
                sched.checkpoint("walk")
                return os.walk(*ar, **k)

            def remove(s, p, *ar, **k):
                os.remove(p, *ar, **k)
                if str(p) == cache:
                    events.append(me() + ":removed")
                    sched.checkpoint("removed")
            unlink = remove

        def gopen(p, mode="r", *ar, **k):
            if str(p) == cache and "w" not in mode:
                sched.checkpoint("open")
            return builtins.open(p, mode, *ar, **k)

        def load_model(*args, **kw):
            try:
                return orig[0](*args, **kw)
            finally:
                events.append(me() + ":loaded")
                sched.checkpoint("loaded")

        def compile_model(*args, **kw):
            sched.checkpoint()
            return orig[1](*args, **kw)

        def save_model(*args, **kw):
            sched.checkpoint()
            try:
                return orig[2](*args, **kw)
            finally:
                events.append(me() + ":saved")
                sched.checkpoint("saved")      # after save_model returned, before transfer_model returns

        def codegen_model(*args, **kw):
            raise SimCrash()

        res = {}
        a.load_model, a._compile_model, a.save_model, a._codegen_model = load_model, compile_model, save_model, codegen_model
        a.os, a.open = OsProxy(), gopen
        try:
            jobs = (("A", lambda: transfer(o)), ("B", lambda: transfer_opts({"codegen": True})))
            ths = [threading.Thread(daemon=True, target=sched.worker, name=n, args=(n, (lambda n=n, f=f: res.__setitem__(n, f()))))
                   for n, f in jobs]
            for t in ths:
                t.start()
            for ch in schedule:
                if isinstance(ch, str):
                    sched.step(ch)                 # one step
                else:
                    sched.until(ch[0], ch[1])      # [thread, checkpoint label]
            for n in ("A", "B"):
                while not sched.done[n]:
                    sched.step(n)
            for t in ths:
                t.join()
        finally:
            a.load_model, a._compile_model, a.save_model, a._codegen_model = orig
            a.os = os
            a.__dict__.pop("open", None)
        late = ("A:loaded" in events and "B:removed" in events and events.index("A:loaded") < events.index("B:removed"))
        return {"A": res.get("A", {"out": "Raised", "exc": "thread-died"}),
                "B": res.get("B", {"out": "Raised", "exc": "thread-died"}), "events": events, "late": late,
                "savedfirst": ("A:saved" in events and "B:removed" in events
                               and events.index("A:saved") < events.index("B:removed")),
                "removed": "B:removed" in events}

    def transfer_opts(opts):
        try:
            a.transfer_model(d, name, json.loads(json.dumps(opts)))
        except SimCrash:
            return {"out": "Died"}
        except BaseException as e:  # noqa
            return {"out": "Raised", "exc": type(e).__name__, "msg": str(e)[:200]}
        return {"out": "completed"}

    out = []
    try:
        write_src()
        for op in case["ops"]:
            if state["hung"]:
                break                      # the interpreter is stuck inside api: stop this history
            before = stat()
            if op[0] == "edit":
                st["clock"] += 1
                st["src"] += 1
                write_src()
                out.append({})
            elif op[0] == "bump":
                st["ver"] += 1
                a.__version__ = "%s.%d" % (VERSION, st["ver"])
                out.append({})
            elif op[0] == "transfer":
                out.append(transfer(op[1]))
                stamp(before)
            elif op[0] == "crash":
                def boom():
                    raise SimCrash()
                with Cutter(a, op[2], boom) as c:
                    r = transfer(op[1])
                r["fired"] = c.fired
                r["written"] = c.file.written if c.file else None
                out.append(r)
                stamp(before)
            elif op[0] == "cut":
                size = os.path.getsize(cache) if os.path.exists(cache) else None
                k = op[1]
                if size is not None:
                    if k < 0:
                        k = max(0, size + k)
                    if k < size:
                        s = os.stat(cache)
                        data = open(cache, "rb").read()[:k]
                        # "copy the prefix into place": same mtime as the file it replaces
                        with open(cache, "wb") as f:
                            f.write(data)
                        os.utime(cache, ns=(s.st_atime_ns, s.st_mtime_ns))
                out.append({"size": size, "k": k})
            elif op[0] == "reader":
                res = {}

                def rd():
                    res["reader"] = transfer(op[1])
                with Cutter(a, op[2], rd) as c:
                    w = transfer(op[1])
                if "reader" not in res:
                    stamp(before)
                    before = stat()
                    res["reader"] = transfer(op[1])
                out.append({"writer": w, "reader": res["reader"], "fired": c.fired,
                            "written": c.file.written if c.file else None})
                stamp(before)
            elif op[0] == "two":
                try:
                    out.append(two(op[1], op[2], op[3]))
                except RuntimeError as e:
                    if "scheduler" not in str(e):
                        raise
                    state["hung"] = True
                    _hangs[0] += 1
                    hang = {"out": "Hang", "msg": str(e), "pl": None}
                    out.append({"A": hang, "B": hang, "save_order": []})
                stamp(before)
            elif op[0] == "gap":
                try:
                    out.append(gap(op[1], op[2]))
                except RuntimeError as e:
                    if "scheduler" not in str(e):
                        raise
                    state["hung"] = True
                    _hangs[0] += 1
                    hang = {"out": "Hang", "msg": str(e), "pl": None}
                    out.append({"A": hang, "B": hang, "events": [], "late": False, "savedfirst": False, "removed": False})
                stamp(before)
            elif op[0] == "reader2":
                res = {}

                def rd2():
                    res["two"] = two(op[1], op[1], op[3])
                with Cutter(a, op[2], rd2) as c:
                    w = transfer(op[1])
                if "two" not in res:
                    stamp(before)
                    before = stat()
                    res["two"] = two(op[1], op[1], op[3])
                r2 = dict(res["two"])
                r2.update({"writer": w, "fired": c.fired})
                out.append(r2)
                stamp(before)
            else:
                raise ValueError("unknown op %r" % (op,))
        return {"results": out, "final_size": (os.path.getsize(cache) if os.path.exists(cache) else None)}
    finally:
        a.__dict__.pop("open", None)
        a.os = os
        a.__version__ = VERSION
        if state["hung"]:
            reset_api()
        shutil.rmtree(d, ignore_errors=True)


def do_codegen(case):
    """one step of a codegen scenario; every step runs in its own process (dlopen caches libraries):
    phase "complete": transfer(opts) to completion (writes the .mo first if asked);
    phase "kill":     transfer(opts) killed after k of the four libraries are built (k = 4: at the open of
                      the cache file, i.e. after everything save_model does before it);
    phase "check":    transfer(opts) judged against a fresh compile"""
    a = api()
    name, d = case["name"], case["dir"]
    text = case["template"].replace("@N@", "0")
    mo = os.path.join(d, name + ".mo")
    os.chdir(d)
    ph = {1: "complete", 2: "kill", 3: "check"}.get(case["phase"], case["phase"])
    opts = case.get("opts") or (case["o2"] if ph == "kill" else case["o1"])
    if ph == "complete":
        if not os.path.exists(mo):
            open(mo, "w").write(text)
            os.utime(mo, (T0, T0))
        m = a.transfer_model(d, name, dict(opts))
        return {"out": type(m).__name__, "files": sorted(os.listdir(d))}
    if ph == "kill":
        k = case.get("k", 4)

        def boom():
            raise SimCrash()
        orig = a._codegen_model
        built = []

        def codegen(*args, **kw):
            if len(built) >= k:
                raise SimCrash()
            r = orig(*args, **kw)
            built.append(os.path.basename(str(r)))
            return r
        a._codegen_model = codegen
        try:
            with Cutter(a, 0, boom) as c:
                a.transfer_model(d, name, dict(opts))
            return {"out": "completed", "fired": c.fired, "built": built}
        except SimCrash:
            return {"out": "Died", "fired": True, "built": built,
                    "cache_exists": os.path.exists(os.path.join(d, name + ".pymoca_cache"))}
        finally:
            a._codegen_model = orig
    try:
        m = a.transfer_model(d, name, dict(opts))
    except BaseException as e:  # noqa
        return {"out": "Raised", "exc": type(e).__name__, "msg": str(e)[:200]}
    s, ref = signature(m), reference(name, text, opts)
    r = {"out": "Loaded" if isinstance(m, a.CachedModel) else "Recompiled", "sig_ok": s == ref}
    if s != ref:
        r["sig"], r["ref"] = s["vals"], ref["vals"]
    return r


def big_model(n):
    lines = ["model Big"]
    for i in range(n):
        lines.append("  Real x%d(start=%d.5, min=-1e3, max=1e3, nominal=%d);" % (i, i, i + 1))
    lines += ["  parameter Real k = 2;", "equation"]
    for i in range(n):
        lines.append("  der(x%d) = -k*x%d + sin(x%d)*%d.25;" % (i, i, (i + 1) % n, i))
    lines.append("end Big;")
    return "\n".join(lines) + "\n"


def do_torn(case):
    """two real transfer_model calls (options oa, ob) on an empty folder of a model whose cache file takes
    several write calls; threads A/B advance one step at a time (checkpoints: after load_model, before the
    open, before every write call) along `schedule`; then a third caller with options oa and one with ob
    load a snapshot of the folder at that point.  Afterwards A and B run to completion."""
    a = api()
    name, text = "Big", big_model(case["n"])
    d = tempfile.mkdtemp(prefix="c21t_")
    tmp = [d]
    try:
        mo = os.path.join(d, name + ".mo")
        open(mo, "w").write(text)
        os.utime(mo, (T0, T0))
        sched = Sched(["A", "B"])
        writes = {"A": [], "B": []}

        class F:
            def __init__(s, f):
                s.f = f

            def write(s, b):
                b = bytes(b)
                sched.checkpoint()
                writes.get(threading.current_thread().name, []).append(len(b))
                r = s.f.write(b)
                s.f.flush()
                return r

            def __enter__(s):
                return s

            def __exit__(s, *e):
                s.f.close()
                return False

            def __getattr__(s, n):
                return getattr(s.f, n)

        def op(p, m="r", *ar, **k):
            if str(p).endswith(".pymoca_cache") and "w" in m:
                sched.checkpoint()
                return F(builtins.open(p, m, *ar, **k))
            return builtins.open(p, m, *ar, **k)

        orig_load = a.load_model

        def load_model(*ar, **k):
            try:
                return orig_load(*ar, **k)
            finally:
                sched.checkpoint()

        res = {}

        def work(nm, o):
            try:
                a.transfer_model(d, name, json.loads(json.dumps(o)))
                res[nm] = "ok"
            except BaseException as e:  # noqa
                res[nm] = "Raised %s" % type(e).__name__
        a.load_model, a.open = load_model, op
        ths = [threading.Thread(daemon=True, target=sched.worker, name=nm, args=(nm, (lambda nm=nm, o=o: work(nm, o))))
               for nm, o in (("A", case["oa"]), ("B", case["ob"]))]
        for t in ths:
            t.start()
        try:
            for ch in case["schedule"]:
                sched.step(ch)
            a.load_model = orig_load
            a.__dict__.pop("open", None)
            cache = os.path.join(d, name + ".pymoca_cache")
            size = os.path.getsize(cache) if os.path.exists(cache) else None
            readers = {}
            for nm, o in (("rA", case["oa"]), ("rB", case["ob"])):
                snap = tempfile.mkdtemp(prefix="c21t_")
                tmp.append(snap)
                for f in os.listdir(d):
                    shutil.copy2(os.path.join(d, f), snap)
                start = len(PROXY.log)
                try:
                    m = a.transfer_model(snap, name, json.loads(json.dumps(o)))
                    ok = signature(m) == reference(name, text, o)
                    readers[nm] = {"out": "Loaded" if isinstance(m, a.CachedModel) else "Recompiled", "sig_ok": ok}
                except BaseException as e:  # noqa
                    readers[nm] = {"out": "Raised", "exc": type(e).__name__, "msg": str(e)[:160]}
                readers[nm]["pl"] = PROXY.log[start] if len(PROXY.log) > start else None
        finally:
            a.load_model, a.open = load_model, op
            for nm in ("A", "B"):
                while not sched.done[nm]:
                    sched.step(nm)
            for t in ths:
                t.join()
            a.load_model = orig_load
            a.__dict__.pop("open", None)
        final = {}
        for nm, o in (("fA", case["oa"]), ("fB", case["ob"])):
            try:
                m = a.transfer_model(d, name, json.loads(json.dumps(o)))
                final[nm] = {"out": "Loaded" if isinstance(m, a.CachedModel) else "Recompiled",
                             "sig_ok": signature(m) == reference(name, text, o)}
            except BaseException as e:  # noqa
                final[nm] = {"out": "Raised", "exc": type(e).__name__, "msg": str(e)[:160]}
        return {"writers": res, "write_calls": writes, "size_at_read": size, "readers": readers, "final": final}
    finally:
        a.load_model = getattr(a.load_model, "__wrapped__", a.load_model)
        for x in tmp:
            shutil.rmtree(x, ignore_errors=True)


def handler(case):
    if case["kind"] == "torn":
        return do_torn(case)
    if case["kind"] == "sweep":
        return do_sweep(case)
    if case["kind"] == "codegen":
        return do_codegen(case)
    return do_history(case)


if __name__ == "__main__":
    child_main(handler)
