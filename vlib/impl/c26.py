"""Child for C26: run tools/compiler.py main(argv) on a generated temp tree, and measure the
invocation facts independently (own path expansion, own parse / flatten / generate / transfer of
each model ALONE on a fresh copy of the tree).  Nothing here calls a helper of compiler.py except
`compiler.main` itself."""
import os
import shutil
import sys
import tempfile

from vlib.core import child_main


def build_tree(root, tree):
    for d in tree.get("dirs", []):
        os.makedirs(os.path.join(root, d), exist_ok=True)
    for rel, text in tree.get("files", {}).items():
        p = os.path.join(root, rel)
        os.makedirs(os.path.dirname(p), exist_ok=True)
        with open(p, "w", encoding="utf-8") as f:
            f.write(text)
    for rel, hx in tree.get("bin", {}).items():
        p = os.path.join(root, rel)
        os.makedirs(os.path.dirname(p), exist_ok=True)
        with open(p, "wb") as f:
            f.write(bytes.fromhex(hx))


def classify(e):
    if not isinstance(e, Exception):
        return "BASE"
    if isinstance(e, KeyError):
        return "EKey"
    if isinstance(e, AttributeError):
        return "EAttr"
    if isinstance(e, OSError):
        return "EOS"
    if isinstance(e, ValueError):
        return "EValue"
    return "EOther"


def run_main(argv):
    import compiler  # /repo/tools/compiler.py
    try:
        n = compiler.main(list(argv))
        return {"exit": int(n)}
    except SystemExit as e:
        code = e.code
        if code is None:
            code = 0
        elif not isinstance(code, int):
            code = 1
        return {"exit": code, "systemexit": True}
    except BaseException as e:  # noqa
        if isinstance(e, KeyboardInterrupt):
            raise
        return {"raises": classify(e), "cls": type(e).__name__, "msg": str(e)[:200]}


def in_fresh_tree(tree, fn):
    root = tempfile.mkdtemp(prefix="c26_")
    cwd = os.getcwd()
    try:
        build_tree(root, tree)
        os.chdir(root)
        return fn()
    finally:
        os.chdir(cwd)
        shutil.rmtree(root, ignore_errors=True)


def expand(paths):
    """The tool's documented reading of PATH: .mo files, and directory trees searched for *.mo."""
    from pathlib import Path
    out = []
    for p in paths:
        pp = Path(p)
        if pp.is_file() and p.endswith(".mo"):
            out.append(pp)
        elif pp.is_dir():
            out.extend(pp.glob("**/*.mo"))  # same enumeration order as any pathlib walk on this fs
    return out


def parse_one(path):
    import pymoca.parser
    try:
        with open(str(path), encoding="utf-8") as f:
            t = pymoca.parser.parse(f.read())
    except BaseException as e:  # noqa
        return None, {"parse": classify(e), "cls": type(e).__name__}
    if t is None:
        return None, {"parse": "none"}
    return t, {"parse": "ok"}


def fresh_library(files):
    import pymoca.ast
    lib = pymoca.ast.Tree(name="ModelicaTree")
    for p in files:
        t, _ = parse_one(p)
        if t is not None:
            lib.extend(t)
    return lib


def options_of(opts):
    d = {}
    for o in opts:
        if o.count("=") == 1:
            k, v = o.split("=")
            if v.lower() == "true":
                v = True
            elif v.lower() == "false":
                v = False
            d[k] = v
    return d


def solo_outcome(case, model, files):
    """The requested model alone, nothing shared with any other model."""
    import pymoca.ast
    target = case["target"]
    try:
        if target is None:
            import pymoca.tree
            lib = fresh_library(files)
            pymoca.tree.flatten(lib, pymoca.ast.ComponentRef.from_string(model))
        elif target == "sympy":
            import pymoca.backends.sympy.generator as sg
            lib = fresh_library(files)
            src = sg.generate(lib, model, options_of(case["options"]))
            with open(os.path.join(case["outdir"] or ".", model + ".py"), "w") as f:
                f.write(src)
        else:
            import pymoca.backends.casadi.api as api
            dirs = [str(p.parent) for p in files if p.stem == model]
            assert len(dirs) == 1
            api.transfer_model(dirs[0], model, options_of(case["options"]))
    except BaseException as e:  # noqa
        if isinstance(e, KeyboardInterrupt):
            raise
        return {"res": classify(e), "cls": type(e).__name__}
    return {"res": "ok"}


def measure(case):
    facts = {
        "outdir_ok": os.path.isdir(case["outdir"] or "."),
        "paths": [os.path.exists(p) for p in case["paths"]],
        "opts": [o.count("=") == 1 for o in case["options"]],
    }
    files = expand(case["paths"])
    frecs = []
    for p in files:
        if case["target"] == "casadi":
            r = {"parse": "ok", "unparsed": True}
        else:
            _, r = parse_one(p)
        r["path"] = str(p)
        frecs.append(r)
    facts["files"] = frecs
    usage = (not facts["outdir_ok"]) or not all(facts["paths"]) or not all(facts["opts"])
    reach = (case["argparse"] == "ok" and not usage and files
             and all(r["parse"] == "ok" for r in frecs))
    facts["reaches_models"] = bool(reach and case["models"])
    return facts, files, reach


def handler(case):
    import logging
    out = {}
    # the tree the judged invocation sees: earlier runs' outputs are NOT part of it for the reference
    final_tree = case["tree"]
    if case.get("delete"):
        final_tree = dict(case["tree"])
        final_tree["files"] = {k: v for k, v in case["tree"]["files"].items() if k not in case["delete"]}

    def seq():
        pre = []
        for argv in case.get("pre", []):        # earlier invocations sharing the directory tree (-o dir)
            pre.append(run_main(argv))
        for rel in case.get("delete", []):
            os.remove(rel)
        return pre, run_main(case["argv"])
    out["pre_observed"], out["observed"] = in_fresh_tree(case["tree"], seq)
    logging.getLogger("pymoca").setLevel(logging.WARNING)
    case = dict(case)
    case["tree"] = final_tree

    def ref():
        facts, files, reach = measure(case)
        ms = []
        for m in case["models"]:
            rec = {"name": m, "match": [p.stem == m for p in files], "res": "ok", "measured": False}
            if reach and (case["target"] != "casadi" or sum(rec["match"]) == 1):
                # each model on its own fresh copy of the tree
                rec.update(in_fresh_tree(case["tree"], lambda: solo_outcome(case, m, expand(case["paths"]))))
                rec["measured"] = True
            ms.append(rec)
        facts["models"] = ms
        return facts
    out["facts"] = in_fresh_tree(case["tree"], ref) if case["argparse"] == "ok" else None
    # metamorphic: the same invocation with one -m at a time
    solo = None
    if case.get("solo") and out["facts"] and out["facts"]["reaches_models"]:
        solo = []
        for m in case["models"]:
            argv = list(case["argv_pre"]) + ["-m", m] + list(case["argv_post"])
            solo.append(in_fresh_tree(case["tree"], lambda: run_main(argv)))
            logging.getLogger("pymoca").setLevel(logging.WARNING)
    out["solo"] = solo
    return out


if __name__ == "__main__":
    # compiler.py logs through logging.basicConfig(stream=sys.stderr): keep it out of the pipe's way
    sys.stderr = open(os.devnull, "w")
    child_main(handler)
