"""Child for C27: parse the files of a split library with the REAL parser, merge them with the REAL
Tree.extend in the requested orders, flatten the requested models with the REAL pymoca.tree.flatten,
and run the two directory-walking drivers (casadi api._compile_model, tools/compiler.parse_all).

Everything that is compared later is dumped in a canonical, address-free form."""
import hashlib
import os
import pickle
import shutil
import tempfile

from vlib.core import child_main

ATTRS = ("imports", "extends", "symbols", "functions", "initial_equations", "equations",
         "initial_statements", "statements", "annotation", "comment")
FLAGS = ("encapsulated", "partial", "final")


def _sha(x):
    return hashlib.sha1(str(x).encode()).hexdigest()[:8]


def _strip(d):
    """Drop Symbol.order (a per-FILE declaration counter: it depends on how the library is split
    into files, never on the order in which the files are merged)."""
    if isinstance(d, dict):
        return {k: _strip(v) for k, v in d.items() if k != "order"}
    if isinstance(d, list):
        return [_strip(v) for v in d]
    return d


def _sha_no(node):
    import json
    return hashlib.sha1(json.dumps(_strip(node.to_json(node)), sort_keys=True, default=str).encode()).hexdigest()[:8]


def _tokens(cls, attr):
    v = getattr(cls, attr)
    if attr == "comment":
        return [v] if v else []
    if attr == "annotation":
        return ["ann:" + _sha(v)] if v else []
    if attr == "symbols":
        # str(Symbol) leaves the declaration's modifier (and with it the declared value) out
        return ["%s:%s" % (k, _sha(str(x) + str(x.class_modification))) for k, x in v.items()]
    if attr in ("imports", "functions"):
        return ["%s:%s" % (k, _sha(x)) for k, x in v.items()]
    if attr == "extends":
        return ["%s:%s" % (e.component, _sha(str(e) + str(e.class_modification))) for e in v]
    return [_sha(e) for e in v]


BUILTIN = ("Real", "Integer", "String", "Boolean")


def qrefs(node):
    """Qualified component references (outermost references with at least two identifiers) below
    `node`, in the order pymoca's own TreeWalker meets them - what tree.ConstantReferenceApplier
    (tree.py:936-955) tries to resolve as package constants."""
    import pymoca.tree as T
    out = []

    class L(T.TreeListener):
        def __init__(self):
            self.depth = 0
            super().__init__()

        def enterComponentRef(self, tree):
            self.depth += 1
            if self.depth == 1 and tree.child:
                out.append([str(x) for x in tree.to_tuple()])

        def exitComponentRef(self, tree):
            self.depth -= 1

    T.TreeWalker().handle_walk(L(), node)
    return out


def _infos(cls, attr):
    """Structured content behind each token of _tokens(cls, attr), for the flattening model."""
    import pymoca.ast as ast
    v = getattr(cls, attr)
    if attr == "symbols":
        res = []
        for k, sym in v.items():
            ty = [str(x) for x in sym.type.to_tuple()] if isinstance(sym.type, ast.ComponentRef) else ["?"]
            vrefs, mrefs = [], []
            for a, val in sym.__dict__.items():
                if a == "type":
                    continue
                (mrefs if a == "class_modification" else vrefs).extend(qrefs(val))
            res.append({"n": k, "ty": ty, "b": ty[0] in BUILTIN, "v": vrefs, "m": mrefs})
        return res
    if attr == "extends":
        return [{"base": [str(x) for x in e.component.to_tuple()], "m": qrefs(e.class_modification)} for e in v]
    if attr == "imports":
        res = []
        for k, imp in v.items():
            if k == "*":
                res.append({"k": k, "star": True})
            elif isinstance(imp, ast.ImportClause):
                res.append({"k": k, "t": [str(x) for x in imp.components[0].to_tuple()]})
            else:
                res.append({"k": k, "t": [str(x) for x in imp.to_tuple()]})
        return res
    if attr in ("initial_equations", "equations", "initial_statements", "statements"):
        return [qrefs(e) for e in v]
    return None


def dump(cls):
    return {"n": cls.name, "t": cls.type,
            "a": [_tokens(cls, a) for a in ATTRS],
            "i": [_infos(cls, a) for a in ATTRS],
            "f": [bool(getattr(cls, f)) for f in FLAGS],
            "c": [dump(c) for c in cls.classes.values()],
            "k": list(cls.classes.keys())}


def parents_ok(cls):
    return all(c.parent is cls and parents_ok(c) for c in cls.classes.values())


def flat_result(blob, model):
    """Flatten `model` on a private copy of the merged tree."""
    import pymoca.ast as ast
    import pymoca.tree
    tree = pickle.loads(blob)
    try:
        flat = pymoca.tree.flatten(tree, ast.ComponentRef.from_string(model))
        c = flat.classes[model]
        return {"full": _sha(c) + _sha([str(e) for e in c.equations]) + _sha([str(s) for s in c.symbols.values()]),
                "sha": _sha_no(c), "symbols": list(c.symbols.keys()),
                "vars": [[k, str(s.type), "constant" in s.prefixes] for k, s in c.symbols.items()],
                "values": ["%s=%s" % (k, _sha_no(s)) for k, s in c.symbols.items()],
                "eqs": [_sha_no(e) for e in c.equations],
                "init": [_sha_no(e) for e in c.initial_equations],
                "funs": ["%s=%s" % (k, _sha_no(f)) for k, f in c.functions.items()]}
    except Exception as e:  # noqa - the exception class is the outcome
        return {"exc": type(e).__name__}


def flat_all(tree, models):
    blob = pickle.dumps(tree)
    return {m: flat_result(blob, m) for m in models}


def handler(case):
    import pymoca.ast as ast
    import pymoca.parser as parser

    captured = []
    orig_ftt = parser.file_to_tree

    def ftt(f):
        captured.append({"within": [list(w.to_tuple()) for w in f.within],
                         "classes": [dump(c) for c in f.classes.values()]})
        return orig_ftt(f)

    out = {}
    # ---- parse every file once with the real parser (cache bypassed: every tree is parsed here) ----
    parser.file_to_tree = ftt
    try:
        blobs, files = [], []
        for txt in case["files"]:
            n0 = len(captured)
            t = parser.parse(txt, bypass_cache=True)
            if t is None:
                files.append({"error": "syntax"})
                blobs.append(None)
                continue
            rec = captured[n0] if len(captured) > n0 else {"error": "file_to_tree not called"}
            rec["tree"] = dump(t)
            files.append(rec)
            blobs.append(pickle.dumps(t))
    finally:
        parser.file_to_tree = orig_ftt
    out["files"] = files
    if any(b is None for b in blobs):
        return out
    models = case["models"]

    # ---- the unsplit library (independent reference of the oracle) ----
    if case.get("mono"):
        t = parser.parse(case["mono"], bypass_cache=True)
        out["mono"] = {"exc": "syntax"} if t is None else {"flat": flat_all(t, models)}

    # ---- every requested order: fresh copies, real Tree.extend ----
    merged = []
    for order in case["orders"]:
        if case.get("style") == "compiler":
            tree = ast.Tree(name="ModelicaTree")
            rest = order
        else:
            tree = pickle.loads(blobs[order[0]])
            rest = order[1:]
        try:
            for i in rest:
                tree.extend(pickle.loads(blobs[i]))
            rec = {"tree": dump(tree), "parents": parents_ok(tree)}
            if case.get("flatten", True):
                rec["flat"] = flat_all(tree, models)
        except Exception as e:  # noqa
            rec = {"exc": type(e).__name__}
        merged.append(rec)
    out["merged"] = merged

    # ---- the two drivers that discover the files themselves ----
    if case.get("walk"):
        out["walk"] = walk_drivers(case, models)
    # ---- tools/compiler.parse_all used incrementally: several calls on ONE tree ----
    if case.get("inc"):
        out["inc"] = incremental_parse_all(case, models, blobs)
    return out


def incremental_parse_all(case, models, blobs):
    """For each (file order, partition of it into consecutive groups): one parse_all call per group on the same
    tree, against ONE parse_all call with the same file order on a fresh tree.  The parser is memoised (fresh
    copies of the trees parsed above); everything else is the real compiler.parse_all."""
    import pathlib
    import pymoca.ast as ast
    import pymoca.parser as parser
    import compiler as cli

    d = tempfile.mkdtemp(prefix="c27inc_")
    res = []
    by_text = {txt: i for i, txt in enumerate(case["files"])}
    orig_parse = parser.parse

    def memo_parse(txt, *a, **k):
        i = by_text.get(txt)
        return pickle.loads(blobs[i]) if i is not None else orig_parse(txt, *a, **k)

    parser.parse = memo_parse
    try:
        paths = []
        for i, txt in enumerate(case["files"]):
            p = pathlib.Path(d) / ("f%d.mo" % i)
            p.write_text(txt, encoding="utf-8")
            paths.append(p)
        one_cache = {}
        first = True
        for order, sizes in case["inc"]:
            rec = {"order": order, "groups": sizes}
            try:
                key = tuple(order)
                if key not in one_cache:
                    one = ast.Tree(name="ModelicaTree")
                    found, errs = cli.parse_all([paths[i] for i in order], one)
                    one_cache[key] = (one, dump(one), len(found), len(errs))
                one, done, nf, ne = one_cache[key]
                rec["one_nfiles"], rec["one_nerr"] = nf, ne
                if first:
                    rec["one_flat"] = flat_all(one, models)     # ties the one-call driver to the other orders
                    first = False
                inc = ast.Tree(name="ModelicaTree")
                k = 0
                for sz in sizes:
                    cli.parse_all([paths[i] for i in order[k:k + sz]], inc)
                    k += sz
                same = dump(inc) == done and parents_ok(inc)
                rec["same"] = same
                if not same:
                    rec["inc_flat"] = flat_all(inc, models)
                    rec["ref_flat"] = flat_all(one, models)
            except Exception as e:  # noqa
                rec["exc"] = "%s: %s" % (type(e).__name__, str(e)[:200])
            res.append(rec)
    finally:
        parser.parse = orig_parse
        shutil.rmtree(d, ignore_errors=True)
    return res


class _Captured(Exception):
    pass


def walk_drivers(case, models):
    import pathlib
    import pymoca.ast as ast
    import pymoca.parser as parser
    import pymoca.backends.casadi.api as api
    import compiler as cli  # /repo/tools/compiler.py

    d = tempfile.mkdtemp(prefix="c27lib_")
    res = {}
    try:
        by_text = {}
        for rel, txt in zip(case["walk"], case["files"]):
            p = os.path.join(d, rel)
            os.makedirs(os.path.dirname(p), exist_ok=True)
            with open(p, "w", encoding="utf-8") as f:
                f.write(txt)
            by_text[txt] = case["walk"].index(rel)
        seen = []
        orig_parse = parser.parse

        def rec_parse(txt, *a, **k):
            seen.append(by_text.get(txt, -1))
            return orig_parse(txt, *a, **k)

        parser.parse = rec_parse
        try:
            # (1) casadi api: the real os.walk loop; stop right after the merge
            holder = {}
            orig_gen = api.generator.generate

            def fake_generate(tree, name, opts):
                holder["tree"] = tree
                raise _Captured()

            api.generator.generate = fake_generate
            try:
                try:
                    api._compile_model(d, models[0] if models else "X", {"library_folders": []})
                except _Captured:
                    pass
            finally:
                api.generator.generate = orig_gen
            t = holder.get("tree")
            res["api"] = {"order": list(seen),
                          "tree": dump(t) if t is not None else None,
                          "flat": flat_all(t, models) if t is not None else None}
            # (2) tools/compiler.py: glob loop
            del seen[:]
            lib = ast.Tree(name="ModelicaTree")
            found, errs = cli.parse_all([pathlib.Path(d)], lib)
            res["compiler"] = {"order": list(seen), "nfiles": len(found), "nerr": len(errs),
                               "tree": dump(lib), "flat": flat_all(lib, models)}
        finally:
            parser.parse = orig_parse
    except Exception as e:  # noqa
        res["exc"] = "%s: %s" % (type(e).__name__, str(e)[:200])
    finally:
        shutil.rmtree(d, ignore_errors=True)
    return res


if __name__ == "__main__":
    child_main(handler)
