"""Child for C02: drive REAL pymoca.parser.parse() calls that share one cache database.

case modes
  {"mode": "sched", "kind": fresh|existing|wrong|wrongmeta|corrupt, "texts": [...], "pre": [ti...],
   "calls": [{"text": ti, "init": bool, "upd": bool}], "schedule": [call id, ...]}
      every call runs in its own thread; pymoca.parser's `sqlite3` and `os` are proxied so that a call
      pauses before each statement (connect / execute / commit / close / os.remove) and performs exactly
      one ATTEMPT of it per schedule entry.  Attempts use a short busy timeout: an attempt that fails
      with "database is locked" after waiting the whole timeout was BLOCKED (not delivered to parse(),
      retried at the call's next entry); one that fails at once is SQLITE_BUSY without busy handler
      (delivered).  After the schedule the calls are drained round-robin.
  {"mode": "locktable"}     two real connections, every (holder level x operation) pair
  {"mode": "stress", "n": N, "procs": bool, "kind": ..., "texts": [...], "per": k}
      N processes (or threads) released by a barrier, each doing `per` unproxied parse() calls.
"""
import hashlib
import multiprocessing as mp
import os
import shutil
import sqlite3
import tempfile
import threading
import time
from pathlib import Path

from vlib.core import child_main

import pymoca  # noqa: E402

pymoca.__version__ = "0.0.0+verif"          # a dirty work tree would make parse() bypass its cache
import pymoca.parser as P  # noqa: E402

TO = 0.06           # busy timeout of a single attempt
REAL_SQLITE = sqlite3
REAL_OS = os


# ---- canonical structural dump of a tree (no addresses) -------------------------------------------
def dump(obj):
    seen = {}
    out = []

    def rec(o):
        if o is None or isinstance(o, (bool, int, float, str, bytes)):
            out.append(repr(o))
            return
        i = id(o)
        if i in seen:
            out.append("<ref %d>" % seen[i])
            return
        seen[i] = len(seen)
        if isinstance(o, dict):
            out.append("%s{" % type(o).__name__)
            for k, v in o.items():
                rec(k); out.append(":"); rec(v); out.append(",")
            out.append("}")
        elif isinstance(o, (list, tuple)) or type(o).__name__ == "deque":
            out.append("%s[" % type(o).__name__)
            for v in o:
                rec(v); out.append(",")
            out.append("]")
        elif isinstance(o, (set, frozenset)):
            out.append("set{" + ",".join(sorted(dump(v) for v in o)) + "}")
        elif hasattr(o, "__dict__") and not isinstance(o, type):
            out.append("%s(" % type(o).__name__)
            d = vars(o)
            for k in sorted(d):
                out.append(k + "="); rec(d[k]); out.append(",")
            out.append(")")
        else:
            out.append("%s:%r" % (type(o).__name__, o))
    rec(obj)
    return hashlib.sha256("".join(out).encode()).hexdigest()[:20]


_fresh = {}


def fresh(txt):
    if txt not in _fresh:
        t = P.parse(txt, bypass_cache=True)
        _fresh[txt] = "none" if t is None else dump(t)
    return _fresh[txt]


def sha(txt):
    return hashlib.sha256(txt.encode("utf-8")).hexdigest()


def prepare(folder, kind, texts, pre):
    """initial database of the given kind; `pre` = indices of texts already cached"""
    db = os.path.join(folder, P.DEFAULT_MODEL_CACHE_DB)
    if kind == "fresh":
        return db
    if kind == "corrupt":
        open(db, "wb").write(b"this is not a database " * 200)
        return db
    if kind == "existing":
        if hasattr(P.parse, "initialized_dbs"):
            del P.parse.initialized_dbs
        P.parse("model Seed end Seed;", model_cache_folder=Path(folder))
        for ti, _age in [x[:2] for x in pre]:
            P.parse(texts[ti], model_cache_folder=Path(folder))
        c = sqlite3.connect(db)
        c.execute("DELETE FROM models WHERE txt_hash=?", (sha("model Seed end Seed;"),))
        now_us = time.time_ns() // 1000
        for ti, age in [x[:2] for x in pre]:      # age of the entry in days: last_hit is written directly
            c.execute("UPDATE models SET last_hit=? WHERE txt_hash=?", (now_us - int(age * 86400e6), sha(texts[ti])))
        c.commit(); c.close()
        return db
    c = sqlite3.connect(db)
    if kind == "wrongpk":
        # an older layout (other primary key) that still ANSWERS the lookup: rows [text, age, payload text]
        # hold, under the key of `text`, the pickled tree of `payload text`
        import pickle
        c.execute("CREATE TABLE models (txt_hash TEXT, pymoca_version TEXT, data BLOB, last_hit TIMESTAMP INTEGER, "
                  "PRIMARY KEY (txt_hash))")
        now_us = time.time_ns() // 1000
        for ti, age, pay in pre:
            c.execute("INSERT INTO models VALUES (?, ?, ?, ?)",
                      (sha(texts[ti]), pymoca.__version__, pickle.dumps(P.parse(texts[pay], bypass_cache=True)),
                       now_us - int(age * 86400e6)))
    elif kind == "wrong":
        c.execute("CREATE TABLE models (txt_hash TEXT, data BLOB)")
    elif kind == "wrongmeta":
        c.execute("CREATE TABLE models (txt_hash TEXT, pymoca_version TEXT, data BLOB, last_hit TIMESTAMP INTEGER, "
                  "PRIMARY KEY (txt_hash, pymoca_version))")
        c.execute("CREATE TABLE metadata (k TEXT)")
    c.commit(); c.close()
    return db


def final_state(db, texts):
    st = {"exists": os.path.exists(db), "integrity": None, "rows": []}
    if st["exists"]:
        try:
            c = sqlite3.connect(db)
            st["integrity"] = c.execute("PRAGMA integrity_check").fetchone()[0]
            hs = {sha(t): i for i, t in enumerate(texts)}
            st["rows"] = sorted(hs[h] for (h,) in c.execute("SELECT txt_hash FROM models") if h in hs)
            c.close()
        except Exception as e:  # noqa
            st["integrity"] = "%s: %s" % (type(e).__name__, e)
    return st


# ---- SQL classification ---------------------------------------------------------------------------
def classify(sql):
    s = " ".join(sql.split()).upper()
    if s.startswith("BEGIN IMMEDIATE") or s.startswith("BEGIN EXCLUSIVE"):
        return "begin_i"
    if s.startswith("BEGIN"):
        return "begin_d"
    if s.startswith("PRAGMA INTEGRITY_CHECK"):
        return "integrity"
    if s.startswith("SELECT") or s.startswith("PRAGMA TABLE_INFO"):
        return "read"
    if s.startswith("COMMIT") or s.startswith("END"):
        return "commit"
    if s.split()[0] in ("INSERT", "UPDATE", "DELETE", "DROP", "CREATE", "REPLACE", "ALTER"):
        return "write"
    return "other:" + s[:30]


# ---- schedule-driven execution --------------------------------------------------------------------
class Ctl:
    def __init__(self):
        self.trace = []          # [call id, kind, outcome]
        self.calls = {}          # thread ident -> Call
        self.open = {}           # id(proxy) -> (call id, real connection)
        self.lock = threading.Lock()


class Call:
    def __init__(self, cid):
        self.cid = cid
        self.at_gate = threading.Event()
        self.go = threading.Event()
        self.done = threading.Event()
        self.result = None
        self.conns = []


CTL = None


def gate(kind, fn):
    """one statement of the current call: wait for a schedule entry, attempt, classify"""
    call = CTL.calls.get(threading.get_ident())
    if call is None:
        return fn()
    while True:
        call.at_gate.set()
        call.go.wait()
        call.go.clear()
        best = None
        last_exc = None
        for _try in range(5):
            t0 = time.time()
            try:
                r = fn()
            except sqlite3.OperationalError as e:
                if "locked" not in str(e):
                    CTL.trace.append([call.cid, kind, "err"])
                    raise
                dt = time.time() - t0
                last_exc = e
                best = dt if best is None else min(best, dt)
                if dt < 0.005 or dt >= 0.8 * TO:
                    break
                continue          # ambiguous timing (machine busy): attempt again
            except sqlite3.DatabaseError:
                CTL.trace.append([call.cid, kind, "fail" if kind == "integrity" else "err"])
                raise
            except BaseException:
                CTL.trace.append([call.cid, kind, "err"])
                raise
            else:
                CTL.trace.append([call.cid, kind, "done"])
                return r
        if best < 0.5 * TO:
            CTL.trace.append([call.cid, kind, "busy"])
            raise sqlite3.OperationalError("database is locked")
        if getattr(call, "expire", False):
            # the schedule says: this call's busy timeout expires now - deliver what sqlite3 raised after waiting
            call.expire = False
            CTL.trace.append([call.cid, kind, "timeout"])
            raise last_exc
        CTL.trace.append([call.cid, kind, "blocked"])


class PCursor:
    def __init__(self, cur):
        self._c = cur

    def execute(self, sql, params=()):
        k = classify(sql)
        if k == "integrity":
            def run():
                self._c.execute(sql, params)
                row = self._c.fetchone()
                self._row = row
                if row != ("ok",):
                    raise sqlite3.DatabaseError("integrity: %r" % (row,))
            try:
                gate(k, run)
            except sqlite3.DatabaseError as e:
                if str(e).startswith("integrity: "):
                    return self       # let parse() look at the row itself
                raise
            return self
        gate(k, lambda: self._c.execute(sql, params))
        self._row = None
        return self

    def executescript(self, script):
        """sqlite3 semantics: COMMIT a pending transaction first, then run the statements one by one in autocommit"""
        conn = self._c.connection
        if conn.in_transaction:
            gate("commit", conn.commit)
        for stmt in [x.strip() for x in script.split(";") if x.strip()]:
            gate(classify(stmt), lambda st=stmt: self._c.execute(st))
        return self

    def fetchone(self):
        if getattr(self, "_row", None) is not None:
            r, self._row = self._row, None
            return r
        return self._c.fetchone()

    def fetchall(self):
        return self._c.fetchall()


class PConn:
    def __init__(self, real, cid):
        self._r = real
        self._cid = cid

    def cursor(self):
        return PCursor(self._r.cursor())

    def commit(self):
        gate("commit", self._r.commit)

    def close(self):
        def run():
            self._r.close()
            CTL.open.pop(id(self), None)
        gate("close", run)


class PSqlite:
    def __getattr__(self, name):
        return getattr(REAL_SQLITE, name)

    def connect(self, path, **kw):
        call = CTL.calls.get(threading.get_ident()) if CTL else None
        if call is None:
            return REAL_SQLITE.connect(path, **kw)
        call.kw = dict(kw)
        kw = dict(kw)
        kw["timeout"] = min(float(kw.get("timeout", 5.0)), TO)     # a smaller timeout asked by parse() is kept
        holder = {}

        def run():
            real = REAL_SQLITE.connect(path, **kw)
            pc = PConn(real, call.cid)
            CTL.open[id(pc)] = (call.cid, real)
            call.conns.append(real)
            holder["c"] = pc
        gate("connect", run)
        return holder["c"]


class POs:
    def __getattr__(self, name):
        return getattr(REAL_OS, name)

    def remove(self, path):
        call = CTL.calls.get(threading.get_ident()) if CTL else None
        if call is None:
            return REAL_OS.remove(path)

        def run():
            others = [c for (c, _r) in CTL.open.values() if c != call.cid]
            valid = False
            try:
                with open(path, "rb") as f:
                    head = f.read(16)
                valid = head == b"SQLite format 3\x00" or head == b""
            except OSError:
                pass
            REAL_OS.remove(path)
            if others and valid:
                raise _Viol()
        try:
            gate("remove", run)
        except _Viol:
            pass


class _Viol(BaseException):
    pass


def _gate_patch_viol():
    """a removal while another call has the (valid) database open is recorded as outcome 'viol'"""
    global gate
    inner = gate

    def gate2(kind, fn):
        try:
            return inner(kind, fn)
        except _Viol:
            CTL.trace[-1][2] = "viol"
            raise
    gate = gate2


_gate_patch_viol()


def run_sched(case):
    global CTL
    texts = case["texts"]
    folder = tempfile.mkdtemp(prefix="c02_")
    try:
        db = prepare(folder, case["kind"], texts, case.get("pre", []))
        want = [fresh(texts[c["text"]]) for c in case["calls"]]
        CTL = Ctl()
        P.sqlite3 = PSqlite()
        P.os = POs()
        plain = Path(folder)
        # same file, but a different key in parse.initialized_dbs for every initialising call: calls are
        # independent like calls of different processes (the in-process skipping of the check by a
        # later thread is exercised by the thread stress)
        def alias(i):
            return Path(folder) / ("alt%d" % i) / ".."
        P.parse.initialized_dbs = {plain / P.DEFAULT_MODEL_CACHE_DB}
        shared = bool(case.get("shared"))      # threads of ONE fresh process: same path key, nothing initialised
        if shared:
            P.parse.initialized_dbs = set()
            del P.parse.initialized_dbs
            if case.get("warm"):
                # the process has used ANOTHER cache database before (unproxied: P.sqlite3 is still the real module)
                P.sqlite3 = REAL_SQLITE
                P.os = REAL_OS
                warm = os.path.join(folder, "other_cache")
                P.parse("model Warm end Warm;", model_cache_folder=Path(warm))
                P.sqlite3 = PSqlite()
                P.os = POs()
        fs_gates = shared
        import pathlib
        real_exists, real_mkdir = pathlib.Path.exists, pathlib.Path.mkdir
        if fs_gates:
            # pause points at the file-system operations parse() performs outside SQL statements
            def g_exists(self, *a, **k):
                if CTL is not None and threading.get_ident() in CTL.calls:
                    return gate("fs", lambda: real_exists(self, *a, **k))
                return real_exists(self, *a, **k)

            def g_mkdir(self, *a, **k):
                if CTL is not None and threading.get_ident() in CTL.calls:
                    return gate("fs", lambda: real_mkdir(self, *a, **k))
                return real_mkdir(self, *a, **k)
            pathlib.Path.exists, pathlib.Path.mkdir = g_exists, g_mkdir
        # ... and around the grammar run of _parse(): a thread can be held just before / just after it
        real_sd = P.ModelicaParser.stored_definition
        if fs_gates:
            def g_sd(self, *a, **k):
                if CTL is not None and threading.get_ident() in CTL.calls:
                    gate("fs", lambda: None)
                    r = real_sd(self, *a, **k)
                    gate("fs", lambda: None)
                    return r
                return real_sd(self, *a, **k)
            P.ModelicaParser.stored_definition = g_sd
        ino0 = os.stat(db).st_ino if os.path.exists(db) else None
        calls = []
        threads = []

        def body(call, spec):
            CTL.calls[threading.get_ident()] = call
            try:
                t = P.parse(texts[spec["text"]],
                            model_cache_folder=(plain if (shared or not spec["init"]) else alias(call.cid)),
                            always_update_last_hit=bool(spec["upd"]),
                            cache_expiration_days=int(spec.get("exp", 30)))
                call.result = ["ok", "none" if t is None else dump(t)]
            except BaseException as e:  # noqa
                call.result = ["exc", type(e).__name__, str(e)[:120]]
                e.__traceback__ = None
            finally:
                for r in call.conns:          # what interpreter exit / garbage collection would do
                    try:
                        r.close()
                    except Exception:  # noqa
                        pass
                for k in [k for k, (c, _r) in CTL.open.items() if c == call.cid]:
                    CTL.open.pop(k, None)
                call.done.set()
                call.at_gate.set()

        for i, spec in enumerate(case["calls"]):
            call = Call(i)
            calls.append(call)
            th = threading.Thread(target=body, args=(call, spec), daemon=True)
            threads.append(th)
            th.start()
        for call in calls:
            call.at_gate.wait(60 * load_scale())
        effective = []

        def one(cid):
            expire = cid >= 100
            effective.append(cid)
            cid = cid % 100
            call = calls[cid]
            call.expire = expire
            if call.done.is_set():
                CTL.trace.append([cid, "none", "idle"])
                return
            n = len(CTL.trace)
            call.at_gate.clear()
            call.go.set()
            if not call.at_gate.wait(60 * load_scale()):
                raise Inconclusive("call %d did not reach its next statement within the load-scaled deadline" % cid)
            if len(CTL.trace) == n:
                CTL.trace.append([cid, "none", "idle"])

        for cid in case["schedule"]:
            one(cid)
        budget = 400
        while not all(c.done.is_set() for c in calls) and budget > 0:
            for c in calls:
                # run this call until it finishes or has to wait for another one
                while not c.done.is_set() and budget > 0:
                    one(c.cid)
                    budget -= 1
                    if CTL.trace[-1][2] == "blocked":
                        break
        for th in threads:
            th.join(5)
        trace = CTL.trace
        pathlib.Path.exists, pathlib.Path.mkdir = real_exists, real_mkdir
        P.ModelicaParser.stored_definition = real_sd
        kws = [getattr(c, "kw", None) for c in calls]
        CTL = None
        P.sqlite3 = REAL_SQLITE
        P.os = REAL_OS
        ino1 = os.stat(db).st_ino if os.path.exists(db) else None
        return {"inode_kept": (ino0 is None or ino0 == ino1), "trace": trace, "effective": effective, "results": [c.result for c in calls], "want": want,
                "final": final_state(db, texts), "connect_kw": [{k: repr(v) for k, v in (kw or {}).items()} for kw in kws],
                "undrained": budget <= 0}
    finally:
        P.sqlite3 = REAL_SQLITE
        P.os = REAL_OS
        CTL = None
        try:
            import pathlib as _pl
            _pl.Path.exists, _pl.Path.mkdir = real_exists, real_mkdir
            P.ModelicaParser.stored_definition = real_sd
        except NameError:
            pass
        shutil.rmtree(folder, ignore_errors=True)


# ---- lock table ------------------------------------------------------------------------------------
def run_locktable(case):
    d = tempfile.mkdtemp(prefix="c02lt_")
    p = os.path.join(d, "x.db")
    c0 = sqlite3.connect(p, isolation_level=None)
    c0.execute("create table t(a primary key, b)")
    c0.execute("insert into t values (1,1)")
    c0.close()

    def conn():
        return sqlite3.connect(p, isolation_level=None, timeout=TO)

    def attempt(f):
        best = None
        for _ in range(5):
            t0 = time.time()
            try:
                f()
                return "grant"
            except sqlite3.OperationalError as e:
                if "locked" not in str(e):
                    return "err:" + str(e)
                dt = time.time() - t0
                best = dt if best is None else min(best, dt)
                if dt < 0.005 or dt >= 0.8 * TO:
                    break
        return "busy" if best < 0.5 * TO else "block"

    rows = []
    extra = []
    for lv in ["U", "S", "R", "P", "X"]:
        for op in ["read_auto", "read_first", "read_again", "begin_imm", "write_first", "upgrade", "auto_write",
                   "commit_ro", "commit_w"]:
            needs_sh = op in ("read_again", "upgrade", "commit_ro")
            if lv == "X" and (needs_sh or op == "commit_w"):
                continue
            if lv in ("R", "P") and op == "commit_w":
                continue        # two writers cannot coexist
            q = conn()
            h = conn()
            try:
                if needs_sh:
                    q.execute("BEGIN"); q.execute("select * from t").fetchall()
                if op == "commit_w":
                    q.execute("BEGIN IMMEDIATE"); q.execute("update t set b=b+1")
                # holder
                if lv == "S":
                    h.execute("BEGIN"); h.execute("select * from t").fetchall()
                elif lv == "R":
                    h.execute("BEGIN IMMEDIATE"); h.execute("update t set b=b+1")
                elif lv == "P":
                    r = None
                    if not needs_sh:
                        r = conn(); r.execute("BEGIN"); r.execute("select * from t").fetchall()
                    h.execute("BEGIN IMMEDIATE"); h.execute("update t set b=b+1")
                    try:
                        h.execute("COMMIT")
                        extra.append("holder commit was not blocked")
                    except sqlite3.OperationalError:
                        pass
                    if r is not None:
                        r.close()
                elif lv == "X":
                    h.execute("BEGIN EXCLUSIVE")
                if op in ("read_first", "write_first"):
                    q.execute("BEGIN")
                f = {"read_auto": lambda: q.execute("select * from t").fetchall(),
                     "read_first": lambda: q.execute("select * from t").fetchall(),
                     "read_again": lambda: q.execute("select * from t").fetchall(),
                     "begin_imm": lambda: q.execute("BEGIN IMMEDIATE"),
                     "write_first": lambda: q.execute("delete from t where a=99"),
                     "upgrade": lambda: q.execute("update t set b=b+1"),
                     "auto_write": lambda: q.execute("update t set b=b+1"),
                     "commit_ro": lambda: q.execute("COMMIT"),
                     "commit_w": lambda: q.execute("COMMIT")}[op]
                rows.append([lv, op, attempt(f)])
            finally:
                q.close(); h.close()
    shutil.rmtree(d, ignore_errors=True)
    return {"rows": rows, "extra": extra, "sqlite": sqlite3.sqlite_version,
            "subclass": issubclass(sqlite3.OperationalError, sqlite3.DatabaseError)}


def load_scale():
    """deadlines of the harness are scaled by the machine load: a deadline is never an observation"""
    try:
        return max(1.0, os.getloadavg()[0] / float(os.cpu_count() or 1))
    except OSError:
        return 1.0


class Inconclusive(Exception):
    """a harness deadline expired before the calls produced anything to judge"""


# ---- free-running stress ---------------------------------------------------------------------------
def _stress_worker(folder, texts, order, bar, out, i, wait):
    res = []
    try:
        try:
            bar.wait(wait)
        except threading.BrokenBarrierError:
            res = "barrier"          # not released together with the others: nothing was run
            return
        for ti in order:
            t0 = time.time()
            try:
                t = P.parse(texts[ti], model_cache_folder=Path(folder))
                res.append([ti, "ok", "none" if t is None else dump(t), round(time.time() - t0, 2)])
            except BaseException as e:  # noqa
                res.append([ti, "exc", type(e).__name__ + ": " + str(e)[:100], round(time.time() - t0, 2)])
    finally:
        out.put((i, res))


def run_stress(case):
    """up to three attempts; an attempt in which some worker produced no complete call record (barrier broken,
    no report within the load-scaled deadline) is INCONCLUSIVE and is not judged"""
    why = None
    for _attempt in range(3):
        r = _run_stress_once(case)
        why = r.get("inconclusive")
        if not why:
            return r
    return {"inconclusive": why, "attempts": 3}


def _run_stress_once(case):
    texts = case["texts"]
    want = [fresh(t) for t in texts]
    folder = tempfile.mkdtemp(prefix="c02s_")
    scale = load_scale()
    try:
        db = prepare(folder, case["kind"], texts, case.get("pre", []))
        if hasattr(P.parse, "initialized_dbs"):
            del P.parse.initialized_dbs
        n = case["n"]
        if case["procs"]:
            ctx = mp.get_context("fork")
            bar = ctx.Barrier(n)
            out = ctx.Queue()
            ws = [ctx.Process(target=_stress_worker, args=(folder, texts, case["orders"][i], bar, out, i, 30 * scale))
                  for i in range(n)]
        else:
            import queue
            bar = threading.Barrier(n)
            out = queue.Queue()
            ws = [threading.Thread(target=_stress_worker, args=(folder, texts, case["orders"][i], bar, out, i, 30 * scale))
                  for i in range(n)]
        for w in ws:
            w.start()
        got = {}
        for _ in ws:
            try:
                i, res = out.get(timeout=180 * scale)
                got[i] = res
            except Exception:  # noqa
                break
        for w in ws:
            w.join(10 * scale)
        if case["procs"]:
            for w in ws:
                if w.is_alive():
                    w.terminate()
        results = [got.get(i) for i in range(n)]
        bad = [i for i, rs in enumerate(results)
               if rs is None or rs == "barrier" or len(rs) != len(case["orders"][i])]
        if bad:
            return {"inconclusive": "workers %s produced no complete call record (%s) at load scale %.1f"
                                    % (bad[:6], sorted({str(results[i])[:10] for i in bad})[:3], scale)}
        return {"results": results, "want": want, "final": final_state(db, texts)}
    finally:
        shutil.rmtree(folder, ignore_errors=True)


def handler(case):
    if case["mode"] == "sched":
        why = None
        for _attempt in range(3):
            try:
                return run_sched(case)
            except Inconclusive as e:
                why = str(e)
        return {"inconclusive": why, "attempts": 3}
    if case["mode"] == "locktable":
        return run_locktable(case)
    if case["mode"] == "stress":
        return run_stress(case)
    raise ValueError(case["mode"])


if __name__ == "__main__":
    child_main(handler)
