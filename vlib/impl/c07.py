"""Child (C07, shared by C08): parse + flatten a generated Modelica text with the REAL pymoca and
return the flat class in a plain canonical form:
  symbols : ordered list of [name, type, prefixes, dims, {attr: tree}, pending_mods]
  eqs     : list of ["eq", left, right] trees
Expression trees: ["num", v] ["bool", b] ["str", s] ["none"] ["ref", dotted, [idx...], raw_children]
["op", name, [args]] ["other", classname].  A reference is printed as its dotted name (name + child
chain joined with '.') with the literal indices of all parts concatenated; raw_children > 0 means the
reference was left un-flattened (it still has a child chain)."""
from vlib.core import child_main

ATTRS = ["value", "start", "min", "max", "nominal", "fixed", "unit", "quantity", "displayUnit"]


def ser(e, ast):
    if e is None:
        return ["none"]
    if isinstance(e, ast.Equation):
        return ["eq", ser(e.left, ast), ser(e.right, ast)]
    if isinstance(e, ast.Symbol):
        return ["ref", e.name, [], 0]
    if isinstance(e, ast.ComponentRef):
        names, idx, n = [e.name], [], 0
        c = e
        while True:
            for ia in c.indices:
                for i in ia:
                    if i is not None:
                        idx.append(ser(i, ast))
            if not c.child:
                break
            c = c.child[0]
            names.append(c.name)
            n += 1
        return ["ref", ".".join(names), idx, n]
    if isinstance(e, ast.Primary):
        v = e.value
        if v is None:
            return ["none"]
        if isinstance(v, bool):
            return ["bool", v]
        if isinstance(v, (int, float)):
            return ["num", v]
        return ["str", str(v)]
    if isinstance(e, ast.Expression):
        op = e.operator
        if isinstance(op, ast.ComponentRef):
            op = str(op)
        return ["op", str(op), [ser(o, ast) for o in e.operands]]
    if isinstance(e, ast.Array):
        return ["op", "array", [ser(o, ast) for o in e.values]]
    if isinstance(e, ast.ConnectClause):
        return ["connect", ser(e.left, ast), ser(e.right, ast)]
    return ["other", type(e).__name__]


def ser_dims(sym, ast):
    out = []
    for da in sym.dimensions or []:
        for d in da:
            t = ser(d, ast)
            if t != ["none"]:
                out.append(t)
    return out


def handler(case):
    import logging
    logging.disable(logging.CRITICAL)
    import pymoca.parser
    import pymoca.tree
    from pymoca import ast
    tree = pymoca.parser.parse(case["text"])
    if tree is None:
        return {"exc": "ParseFailed", "msg": "parser returned None"}
    flat = pymoca.tree.flatten(tree, ast.ComponentRef.from_string(case["top"]))
    cls = flat.classes[case["top"]]
    syms = []
    for name, s in cls.symbols.items():
        attrs = {}
        for a in ATTRS:
            t = ser(getattr(s, a), ast)
            if t != ["none"] and not (a == "fixed" and t == ["bool", False]):
                attrs[a] = t
        pend = 0 if s.class_modification is None else len(s.class_modification.arguments)
        ty = s.type
        ty = str(ty) if isinstance(ty, ast.ComponentRef) else "<%s>" % type(ty).__name__
        syms.append([name, ty, list(s.prefixes), ser_dims(s, ast), attrs, pend, s.name])
    return {"symbols": syms, "eqs": [ser(e, ast) for e in cls.equations],
            "ieqs": len(cls.initial_equations), "stmts": len(cls.statements)}


if __name__ == "__main__":
    child_main(handler)
