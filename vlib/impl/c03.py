"""Child: parse `model M ...; equation y = <expr>; end M;` with the REAL pymoca parser and serialise
the right-hand side tree (operator, operands, literal value + Python type)."""
import math

from vlib.core import child_main


def ser(e, ast):
    if isinstance(e, ast.Primary):
        v = e.value
        if isinstance(v, bool):
            return ["P", "bool", v]
        if isinstance(v, int):
            return ["P", "int", str(v)]
        if isinstance(v, float):
            if math.isfinite(v):
                n, d = v.as_integer_ratio()
                return ["P", "float", [str(n), str(d)]]
            return ["P", "float", repr(v)]
        if isinstance(v, str):
            return ["P", "str", v]
        return ["P", type(v).__name__, repr(v)]
    if isinstance(e, ast.ComponentRef):
        if not e.child and e.indices != [[None]] and len(e.indices) == 1 and all(i is not None for i in e.indices[0]):
            return ["VI", e.name, [ser(i, ast) for i in e.indices[0]]]      # subscripted name A[i, j]
        if e.child or e.indices != [[None]]:
            return ["?", "ComponentRef with child/indices"]
        return ["V", e.name]
    if isinstance(e, ast.Array):
        return ["A", [ser(v, ast) for v in e.values]]                         # array literal {a, b}
    if isinstance(e, ast.IfExpression):
        return ["IF", [ser(c, ast) for c in e.conditions], [ser(c, ast) for c in e.expressions]]
    if isinstance(e, ast.Expression):
        op = e.operator
        if isinstance(op, str):
            return ["E", op, [ser(o, ast) for o in e.operands]]
        if isinstance(op, ast.ComponentRef) and not op.child and op.indices == [[None]]:
            return ["C", op.name, [ser(o, ast) for o in e.operands]]
        return ["?", "operator %s" % type(op).__name__]
    if isinstance(e, list):
        return ["L", [ser(x, ast) for x in e]]
    return ["?", type(e).__name__]


def handler(case):
    from pymoca import ast, parser
    tree = parser.parse(case["text"], bypass_cache=True)
    if tree is None:
        return {"tree": None}
    cls = tree.classes["M"]
    eqs = cls.equations
    if len(eqs) != 1:
        return {"tree": None, "note": "%d equations" % len(eqs)}
    left = ser(eqs[0].left, ast)
    out = {"tree": ser(eqs[0].right, ast), "left": left}
    if case.get("binding"):
        # value bound in the declaration  parameter String s = <literal>;
        # (stored by the parser as the element modification `value` of the symbol's class_modification)
        out["binding"] = None
        cm = cls.symbols["s"].class_modification
        for arg in (cm.arguments if cm is not None else []):
            if arg.value.component.name == "value" and len(arg.value.modifications) == 1:
                out["binding"] = ser(arg.value.modifications[0], ast)
    return out


if __name__ == "__main__":
    child_main(handler)
