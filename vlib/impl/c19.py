"""Child for C19: run the REAL pymoca.backends.casadi.api on one generated Modelica model.

For a case {"text", "name", "opts", "mode": "cache"|"codegen"} it performs, in a temp folder,
  fresh  = transfer_model(folder, name, opts + cache off)       (reference, never touches the cache)
  first  = transfer_model(folder, name, opts + {mode: True})    (compiles and saves)
  loaded = transfer_model(folder, name, opts + {mode: True})    (must be served from the cache file)
and returns canonical observations of `fresh` and `loaded` (names, order, shapes, python types, per
variable aliases, attribute kinds and attribute values at three parameter valuations, outputs, delay
states, string variables, alias relation, the four functions evaluated at dyadic points, the delay
arguments evaluated at dyadic points), whether the second call really loaded (CachedModel, no
compile call), and - for the correspondence with the Coq model - what save_model stored
(dependency matrices, delay-duration dependency lists) together with the attribute expressions of
the saved model translated to a small AST over the flattened parameter vector.

Instrumentation of the environment only: api.__version__ is pinned and api._compile_model is
wrapped to count calls."""
import json
import os
import pickle
import shutil
import tempfile

from vlib.core import child_main

CATS = ["states", "der_states", "alg_states", "inputs", "parameters", "constants"]
META_CATS = ["states", "alg_states", "inputs", "parameters", "constants"]
FUNS = ["dae_residual", "initial_residual", "variable_metadata", "delay_arguments"]
NVAL = 3

_state = {"compiles": 0}
_patched = []


def _patch():
    if _patched:
        return _patched[0]
    import pymoca.backends.casadi.api as api
    orig = api._compile_model

    def wrapper(*a, **k):
        _state["compiles"] += 1
        return orig(*a, **k)

    api._compile_model = wrapper
    api.__version__ = "verif-c19"
    _patched.append(api)
    return api


def num(x):
    x = float(x)
    if x != x:
        return "nan"
    if x in (float("inf"), float("-inf")):
        return "inf" if x > 0 else "-inf"
    return x


NVAL_ALL = 5


def par_valuation(n, t):
    """dyadic, non-zero, distinct-ish values for the flattened parameter vector; t = 3: the last parameter
    element is NaN (a parameter without a value IS NaN in pymoca); t = 4: +inf first, -inf last"""
    if t >= 3:
        v = par_valuation(n, 0)
        if t == 3 and n:
            v[-1] = float("nan")
        if t == 4 and n:
            v[0] = float("inf")
            if n > 1:
                v[-1] = float("-inf")
        return v
    return [(((k * 5 + t * 3) % 7) + 1) / 2.0 * (-1 if (t == 1 and k % 2 == 1) else 1) for k in range(n)]


def fn_point(f, t):
    import casadi as ca
    import numpy as np
    args = []
    t0 = t if t < 2 else 0
    nonempty = [i for i in range(f.n_in()) if f.size1_in(i) * f.size2_in(i)]
    for i in range(f.n_in()):
        r, c = f.size1_in(i), f.size2_in(i)
        vals = [(((k * 7 + i * 3 + t0 * 5) % 11) + 1) / 4.0 for k in range(r * c)]
        # non-finite points: t = 2 NaN in the last element of the last non-empty input (parameters, when there
        # are any); t = 3 NaN in the first element of the second non-empty input (a state); t = 4 +inf / -inf
        if vals and nonempty:
            if t == 2 and i == nonempty[-1]:
                vals[-1] = float("nan")
            if t == 3 and i == nonempty[min(1, len(nonempty) - 1)]:
                vals[0] = float("nan")
            if t == 4 and i == nonempty[-1]:
                vals[-1] = float("inf")
            if t == 4 and i == nonempty[0] and len(nonempty) > 1:
                vals[0] = float("-inf")
        args.append(ca.DM(np.array(vals).reshape((r, c), order="F")) if r * c else ca.DM(r, c))
    return args


def flat(dm):
    import casadi as ca
    import numpy as np
    return [num(x) for x in np.array(ca.DM(dm)).flatten(order="F")]


def eval_fn(f):
    out = {"n_in": f.n_in(), "n_out": f.n_out(),
           "in": [[f.size1_in(i), f.size2_in(i)] for i in range(f.n_in())],
           "out": [[f.size1_out(i), f.size2_out(i)] for i in range(f.n_out())], "vals": []}
    for t in range(5):
        r = f.call(fn_point(f, t))
        out["vals"].append([flat(e) for e in r])
    return out


def py_canon(v):
    import numpy as np
    try:
        a = np.array(v, dtype=float)
        return [list(a.shape), [num(x) for x in a.flatten(order="F")]]
    except Exception:  # noqa
        return repr(v)


def attr_obs(model, var, attr, pvec):
    """{"k": "py", "t": type name, "v": canonical value}  or
       {"k": "mx", "shape": [r, c], "vals": [values broadcast to the symbol's shape, per valuation]}"""
    import casadi as ca
    val = getattr(var, attr)
    if not isinstance(val, ca.MX):
        return {"k": "py", "t": type(val).__name__, "v": py_canon(val)}
    n = var.symbol.size1() * var.symbol.size2()
    res = {"k": "mx", "shape": list(val.shape), "vals": []}
    try:
        f = ca.Function("e", [pvec], [val])
    except RuntimeError as e:
        res["vals"] = "free-symbols"
        return res
    for t in range(NVAL_ALL):
        r = flat(f(ca.DM(par_valuation(pvec.numel(), t))))
        if len(r) == 1 and n > 1:
            r = r * n          # broadcast exactly as variable_metadata_function does
        res["vals"].append(r)
    return res


def observe(model):
    import casadi as ca
    o = {"type": type(model).__name__}
    pvec = ca.veccat(*[v.symbol for v in model.parameters])
    for cat in CATS:
        o[cat] = []
        for v in getattr(model, cat):
            o[cat].append({"name": v.symbol.name(), "shape": [v.symbol.size1(), v.symbol.size2()],
                           "ptype": v.python_type.__name__, "aliases": sorted(v.aliases),
                           "attrs": [attr_obs(model, v, a, pvec) for a in ATTRS]})
    o["outputs"] = [str(x) for x in model.outputs]
    o["delay_states"] = [str(x) for x in model.delay_states]
    o["string_parameters"] = [v.to_dict() for v in model.string_parameters]
    o["string_constants"] = [v.to_dict() for v in model.string_constants]
    ar = model.alias_relation
    o["alias_relation"] = sorted([c, sorted(a)] for c, a in ar)
    names = sorted({v.symbol.name() for cat in CATS for v in getattr(model, cat)})
    o["canonical_signed"] = [[n, list(ar.canonical_signed(n))] for n in names]
    o["alias_sets"] = [[n, sorted(ar.aliases(n))] for n in names]
    o["functions"] = {}
    for fn in FUNS:
        try:
            o["functions"][fn] = eval_fn(getattr(model, fn + "_function"))
        except Exception as e:  # noqa
            o["functions"][fn] = {"exc": type(e).__name__, "msg": str(e)[:120]}
    # delay arguments as expressions of the model's own symbols
    o["delay_arguments"] = []
    syms = [model.time] + [v.symbol for cat in ["states", "der_states", "alg_states", "inputs", "constants", "parameters"]
                           for v in getattr(model, cat)]
    for da in model.delay_arguments:
        try:
            f = ca.Function("d", syms, [ca.MX(da.expr), ca.MX(da.duration)])
            o["delay_arguments"].append([[flat(e) for e in f.call(fn_point(f, t))] for t in range(3)])
        except Exception as e:  # noqa
            o["delay_arguments"].append({"exc": type(e).__name__, "msg": str(e)[:120]})
    return o


# ---------------------------------------------------------------------------
# attribute expressions of the saved model as an AST over the flattened parameter vector
# ---------------------------------------------------------------------------
def sx_ast(e, index):
    import casadi as ca
    if e.is_symbolic():
        return ["par", index[e.name()]]
    if e.is_constant():
        v = float(e)
        if v != v or v in (float("inf"), float("-inf")):
            raise ValueError("non-finite constant")
        return ["const", v]
    op = e.op()
    un = {ca.OP_NEG: "neg", ca.OP_SQ: "sq", ca.OP_TWICE: "twice"}
    bi = {ca.OP_ADD: "add", ca.OP_SUB: "sub", ca.OP_MUL: "mul", ca.OP_FMIN: "fmin", ca.OP_FMAX: "fmax"}
    if op == ca.OP_DIV and e.dep(1).is_constant() and float(e.dep(1)) not in (0.0, float("inf"), float("-inf")) \
            and float(e.dep(1)) == float(e.dep(1)):
        return ["mul", sx_ast(e.dep(0), index), ["const", 1.0 / float(e.dep(1))]]
    if op in un:
        return [un[op], sx_ast(e.dep(0), index)]
    if op in bi:
        return [bi[op], sx_ast(e.dep(0), index), sx_ast(e.dep(1), index)]
    raise ValueError("unsupported op %d" % op)


def translate_attrs(model):
    """per metadata category: per variable: [numel, [per attribute: None (python value) or list of ASTs
    (one per element of the MX value, column-major) or "unsupported"]]; plus MX's own view of the
    two predicates save_model uses."""
    import casadi as ca
    pvec = ca.veccat(*[v.symbol for v in model.parameters])
    n = pvec.numel()
    sp = ca.SX.sym("q", n)
    index = {"q_%d" % k: k for k in range(n)}
    out = {}
    for cat in META_CATS:
        out[cat] = []
        for v in getattr(model, cat):
            row = []
            for a in ATTRS:
                val = getattr(v, a)
                if not isinstance(val, ca.MX):
                    row.append(None)
                    continue
                try:
                    f = ca.Function("t", [pvec], [val])
                    sx = f.expand()(sp) if n else ca.SX(ca.DM(f(ca.DM(0, 1))))
                    sx = ca.vec(sx)
                    asts = [sx_ast(sx[k], index) for k in range(sx.numel())]
                    # sanity of the translation itself: the AST evaluates like the MX
                    for t in range(NVAL):
                        pv = par_valuation(n, t)
                        want = flat(f(ca.DM(pv)))
                        got = [ast_eval(x, pv) for x in asts]
                        if any(abs(w - g) > 1e-9 * max(1, abs(w)) for w, g in zip(want, got)):
                            raise ValueError("translation mismatch")
                    row.append(asts)
                except Exception as e:  # noqa
                    row.append("unsupported: %s" % str(e)[:60])
            out[cat].append([v.symbol.size1() * v.symbol.size2(), row])
    return out


def translate_delays(model):
    """durations of the delay arguments as ASTs over all_symbols (api.py:263-271 order), or None when a
    symbol is not scalar / an operation is outside the AST."""
    import casadi as ca
    if not model.delay_states:
        return []
    syms = [model.time] + [v.symbol for cat in ["states", "der_states", "alg_states", "inputs", "constants", "parameters"]
                           for v in getattr(model, cat)]
    if any(s.numel() != 1 for s in syms):
        return None
    sx = [ca.SX.sym("q_%d" % k) for k in range(len(syms))]
    index = {"q_%d" % k: k for k in range(len(syms))}
    out = []
    try:
        for da in model.delay_arguments:
            f = ca.Function("t", syms, [ca.MX(da.duration)])
            out.append(sx_ast(f.expand().call(sx)[0], index))
    except Exception:  # noqa
        return None
    return out


def ast_eval(a, pv):
    k = a[0]
    if k == "par":
        return pv[a[1]]
    if k == "const":
        return a[1]
    x = ast_eval(a[1], pv)
    if k == "neg":
        return -x
    if k == "sq":
        return x * x
    if k == "twice":
        return 2 * x
    y = ast_eval(a[2], pv)
    return {"add": x + y, "sub": x - y, "mul": x * y, "fmin": min(x, y), "fmax": max(x, y)}[k]


ATTRS = ("value", "min", "max", "start", "fixed", "nominal")


def handler(case):
    api = _patch()
    from pymoca.backends.casadi.model import CASADI_ATTRIBUTES
    if tuple(CASADI_ATTRIBUTES) != ATTRS:
        return {"harness": "CASADI_ATTRIBUTES changed: %r" % (CASADI_ATTRIBUTES,)}
    root = tempfile.mkdtemp(prefix="c19_")
    cwd = os.getcwd()
    try:
        os.chdir(root)          # _codegen_model uses os.path.relpath for the generated C file
        return run_case(api, root, case)
    finally:
        os.chdir(cwd)
        shutil.rmtree(root, ignore_errors=True)


def run_sequence(api, root, case):
    """Several option sets requested one after the other on the SAME folder (the cache file written for
    one request is on disk when the next one arrives).  For every step: fresh = uncached compile with
    that step's options; a = first call with {mode: True}; b = the same call again (must be served from
    the cache).  Each of a, b has to match fresh."""
    folder = os.path.join(root, "m")
    os.makedirs(folder)
    name = case["name"]
    with open(os.path.join(folder, name + ".mo"), "w") as f:
        f.write(case["text"])
    mode = case.get("mode", "cache")
    res = {"mode": mode, "steps": []}
    for opts in case["steps"]:
        rec = {}
        ref = dict(opts)
        ref["cache"] = False
        ref["codegen"] = False
        if mode == "cache":
            ref["expand_mx"] = True
        try:
            rec["fresh"] = observe(api.transfer_model(folder, name, ref))
        except Exception as e:  # noqa
            rec["fresh_exc"] = type(e).__name__
        copts = dict(opts)
        copts[mode] = True
        for key in ("a", "b"):
            c0 = _state["compiles"]
            try:
                rec[key] = observe(api.transfer_model(folder, name, dict(copts)))
            except Exception as e:  # noqa
                rec[key + "_exc"] = type(e).__name__
                rec[key + "_msg"] = str(e)[:200].replace(root, "<root>")
            rec[key + "_compiles"] = _state["compiles"] - c0
        res["steps"].append(rec)
    return res


def step_main():
    """`python -m vlib.impl.c19 --step <json>`: one transfer_model call in its own process; with kill_after = n the
    process kills itself (SIGKILL) right after the n-th _codegen_model call returns, i.e. after the last shared
    library has been rebuilt and before save_model writes the cache file."""
    import signal
    import sys
    spec = json.loads(sys.argv[2])
    api = _patch()
    if spec.get("kill_after"):
        orig = api._codegen_model
        count = {"n": 0}

        def dying(model_folder, f, library_name):
            lib = orig(model_folder, f, library_name)
            count["n"] += 1
            if count["n"] == spec["kill_after"]:
                os.kill(os.getpid(), signal.SIGKILL)
            return lib

        api._codegen_model = dying
    os.chdir(spec["cwd"])
    api.transfer_model(spec["folder"], spec["name"], spec["opts"])


def run_interrupted(api, root, case):
    """(1) complete codegen save with options A, own process; (2) codegen save with options B killed after the
    last _codegen_model call, own process; (3) here: load with A (twice) and compare with a fresh compile with A."""
    import subprocess
    import sys
    folder = os.path.join(root, "m")
    os.makedirs(folder)
    name = case["name"]
    with open(os.path.join(folder, name + ".mo"), "w") as f:
        f.write(case["text"])
    opts_a = dict(case["steps"][0], codegen=True)
    opts_b = dict(case["interrupted"]["opts_b"], codegen=True)
    res = {"mode": "codegen", "interrupted": True}
    for key, opts, kill in (("step1", opts_a, 0), ("step2", opts_b, len(FUNS))):
        spec = {"cwd": root, "folder": folder, "name": name, "opts": opts, "kill_after": kill}
        p = subprocess.run([sys.executable, "-m", "vlib.impl.c19", "--step", json.dumps(spec)],
                           capture_output=True, text=True, timeout=600)
        res[key + "_rc"] = p.returncode
        if key == "step1" and p.returncode != 0:
            return {"harness": "step 1 (complete codegen save) failed rc=%s: %s" % (p.returncode, p.stderr[-300:])}
    res["cache_file_after_interrupted_save"] = os.path.exists(os.path.join(folder, name + ".pymoca_cache"))
    rec = {}
    ref = dict(case["steps"][0], cache=False, codegen=False)
    try:
        rec["fresh"] = observe(api.transfer_model(folder, name, ref))
    except Exception as e:  # noqa
        rec["fresh_exc"] = type(e).__name__
    for key in ("a", "b"):
        c0 = _state["compiles"]
        try:
            rec[key] = observe(api.transfer_model(folder, name, dict(opts_a)))
        except Exception as e:  # noqa
            rec[key + "_exc"] = type(e).__name__
            rec[key + "_msg"] = str(e)[:200].replace(root, "<root>")
        rec[key + "_compiles"] = _state["compiles"] - c0
    res["steps"] = [rec]
    return res


def run_case(api, root, case):
    if "interrupted" in case:
        return run_interrupted(api, root, case)
    if "steps" in case:
        return run_sequence(api, root, case)
    folder = os.path.join(root, "m")
    os.makedirs(folder)
    name = case["name"]
    with open(os.path.join(folder, name + ".mo"), "w") as f:
        f.write(case["text"])
    mode = case.get("mode", "cache")
    opts = dict(case["opts"])
    ref = dict(opts)
    ref["cache"] = False
    ref["codegen"] = False
    if mode == "cache":
        ref["expand_mx"] = True            # caching implies expanding to SX (api.py transfer_model)
    res = {"mode": mode}
    try:
        fresh = api.transfer_model(folder, name, ref)
    except Exception as e:  # noqa
        res["fresh_exc"] = type(e).__name__
        res["fresh_msg"] = str(e)[:200]
        fresh = None
    if fresh is not None:
        res["fresh"] = observe(fresh)
    copts = dict(opts)
    copts[mode] = True
    c0 = _state["compiles"]
    try:
        first = api.transfer_model(folder, name, copts)
    except Exception as e:  # noqa
        res["first_exc"] = type(e).__name__
        res["first_msg"] = str(e)[:200]
        return res
    if fresh is None:
        res["first_exc"] = None
        return res
    res["first_compiles"] = _state["compiles"] - c0
    res["first_type"] = type(first).__name__
    res["first_equals_fresh"] = json.dumps(observe(first), sort_keys=True) == json.dumps(res["fresh"], sort_keys=True)
    # what save_model stored
    try:
        with open(os.path.join(folder, name + ".pymoca_cache"), "rb") as f:
            db = pickle.load(f)
        res["db"] = {"keys": sorted(k for k in db.keys()),
                     "dep": {cat: [[int(x) for x in row] for row in db[cat + "__metadata_dependent"]] for cat in META_CATS},
                     "delay_dep": [sorted(int(x) for x in d) for d in db.get("__delay_duration_dependent", [])],
                     "function_kinds": {o: type(db[o]).__name__ for o in FUNS}}
    except Exception as e:  # noqa
        res["db"] = {"exc": type(e).__name__, "msg": str(e)[:200]}
    res["attr_ast"] = translate_attrs(first)
    res["delay_ast"] = translate_delays(first)
    c1 = _state["compiles"]
    try:
        loaded = api.transfer_model(folder, name, copts)
    except Exception as e:  # noqa
        res["loaded_exc"] = type(e).__name__
        res["loaded_msg"] = str(e)[:300].replace(root, "<root>")
        return res
    res["loaded_compiles"] = _state["compiles"] - c1
    res["loaded"] = observe(loaded)
    return res


if __name__ == "__main__":
    import sys
    if len(sys.argv) > 2 and sys.argv[1] == "--step":
        step_main()
    else:
        child_main(handler)
