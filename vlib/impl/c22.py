"""Child: run the real transfer_model on a generated Modelica text with delay() calls and record
(a) the decision (ValueError of _post_checks / other exception / accepted) and, when accepted,
(b) whether Model.delay_arguments_function can be built and its outputs at the given integer points."""
import os
import re
import shutil
import tempfile

from vlib.core import child_main

REJECT_MSG = "Delay durations can only depend on parameters, constants and fixed inputs."


def _num(x):
    f = float(x)
    if f != f or f in (float("inf"), float("-inf")):
        return repr(f)
    n, d = f.as_integer_ratio()
    return n if d == 1 else "%d/%d" % (n, d)


def _vec(variables, lookup):
    import casadi as ca
    vals = []
    for v in variables:
        s = v.symbol
        n = s.size1() * s.size2()
        vals += [float(x) for x in lookup(s.name(), n)]
    return ca.DM(vals) if vals else ca.DM.zeros(0, 1)


def handler(case):
    """One result per transfer_model call on the same folder; calls after the first go into 'more'."""
    d = tempfile.mkdtemp(prefix="c22_")
    try:
        with open(os.path.join(d, "M.mo"), "w") as f:
            f.write(case["text"])
        results = [one_call(case, d) for _ in range(int(case.get("calls", 1)))]
    finally:
        shutil.rmtree(d, ignore_errors=True)
    out = results[0]
    if len(results) > 1:
        out["more"] = results[1:]
    return out


def one_call(case, d):
    import logging
    logging.disable(logging.CRITICAL)
    import pymoca
    if not pymoca.__version__.endswith(".dirty"):
        pymoca.__version__ += ".dirty"          # parser.parse then skips its sqlite cache (not C22's subject; 0.15 s/commit)
    from pymoca.backends.casadi.api import transfer_model
    try:
        m = transfer_model(d, "M", dict(case.get("options") or {}))
    except ValueError as e:
        if str(e) == REJECT_MSG:
            return {"status": "rejected"}
        return {"status": "error", "exc": "ValueError", "msg": str(e)[:300]}
    except Exception as e:  # noqa
        return {"status": "error", "exc": type(e).__name__, "msg": str(e)[:300]}
    out = {"status": "accepted", "cached": type(m).__name__ == "CachedModel",
           "delay_states": list(m.delay_states),
           "n_delay_arguments": len(m.delay_arguments),
           "inputs": [[v.symbol.name(), bool(v.fixed) if not hasattr(v.fixed, "is_constant") else str(v.fixed)]
                      for v in m.inputs],
           "lists": {k: [v.symbol.name() for v in getattr(m, k)]
                     for k in ("states", "der_states", "alg_states", "constants", "parameters")}}
    try:
        f = m.delay_arguments_function
    except Exception as e:  # noqa
        out["func"] = {"exc": type(e).__name__, "msg": str(e)[-260:]}
        return out
    out["func"] = None
    out["n_in"] = f.n_in()
    out["shapes"] = [list(f.size_out(i)) for i in range(f.n_out())]
    # the model's delay_arguments attribute (for a CachedModel rebuilt by load_model) as a function of the same inputs
    g = None
    if case.get("options", {}).get("cache") and m.delay_arguments:
        try:
            import casadi as ca
            sym = [m.time] + [ca.veccat(*[v.symbol for v in grp]) for grp in
                              (m.states, m.der_states, m.alg_states, m.inputs, m.constants, m.parameters)]
            g = ca.Function("attr", sym, [ca.MX(x) for a in m.delay_arguments for x in (a.expr, a.duration)])
        except Exception as e:  # noqa
            out["attr_exc"] = "%s: %s" % (type(e).__name__, str(e)[-200:])
    values, values2 = [], []
    for pt in case["points"]:
        def look(name, n, pt=pt):
            if name.startswith("der(") and name.endswith(")"):
                return [pt["der"].get(name[4:-1], 0)] * n
            shp = pt.get("shape") or {}
            if name in pt["vals"]:
                v = list(pt["vals"][name])
                if name in shp:                                       # whole matrix: casadi is column-major
                    r_, c_ = shp[name]
                    v = [v[i * c_ + j] for j in range(c_) for i in range(r_)]
                return (v + [0] * n)[:n]
            m_ = re.fullmatch(r"(.*?)\[(\d+)(?:,(\d+))?\]", name)     # expand_vectors: v[k], A[i,j], _pymoca_delay_j[1,1]
            if m_ and m_.group(1) in pt["vals"]:
                v = pt["vals"][m_.group(1)]
                k = int(m_.group(2)) - 1
                if m_.group(1) in shp:
                    k = k * shp[m_.group(1)][1] + int(m_.group(3)) - 1
                return [v[k] if k < len(v) else 0] * n
            return [0] * n
        args = [float(pt["time"]), _vec(m.states, look), _vec(m.der_states, look), _vec(m.alg_states, look),
                _vec(m.inputs, look), _vec(m.constants, look), _vec(m.parameters, look)]
        try:
            res = f(*args)
        except Exception as e:  # noqa
            out["func"] = {"exc": type(e).__name__, "msg": str(e)[-260:], "at": "call"}
            return out
        if f.n_out() == 0:
            res = []
        elif f.n_out() == 1:
            res = [res]
        values.append([[_num(x) for x in r.full().flatten(order="F")] for r in res])
        if g is not None:
            try:
                r2 = g(*args)
                r2 = [r2] if g.n_out() == 1 else list(r2)
                values2.append([[_num(x) for x in r.full().flatten(order="F")] for r in r2])
            except Exception as e:  # noqa
                out["attr_exc"] = "%s: %s" % (type(e).__name__, str(e)[-200:])
    out["values"] = values
    if g is not None and "attr_exc" not in out:
        out["attr_values"] = values2
    return out


if __name__ == "__main__":
    child_main(handler)
