"""Child: compile a generated Modelica alias model with the real casadi backend, run
Model.simplify(options) once per pass and record every remaining variable's metadata
(exactly, as integer ratios) together with its alias set in the set's own iteration order."""
import math

from vlib.core import child_main


def handler(case):
    import logging
    logging.getLogger("pymoca").setLevel(logging.ERROR)
    import casadi as ca
    from pymoca import parser
    from pymoca.backends.casadi import generator
    from pymoca.backends.casadi.model import _DefaultValue

    tree = parser.parse(case["text"])
    if tree is None:
        return {"exc": "ParseFailed", "msg": "parser.parse returned None"}
    model = generator.generate(tree, case["cls"])

    def num(x):
        x = float(x)
        if math.isnan(x):
            return "nan"
        if math.isinf(x):
            return "inf" if x > 0 else "-inf"
        n, d = x.as_integer_ratio()
        return "%d/%d" % (n, d)

    def ev(x):
        """exact value of an attribute (float / bool / DM / MX over the parameters)"""
        if isinstance(x, ca.MX):
            psyms = [p.symbol for p in model.parameters]
            pvals = [p.value for p in model.parameters]
            for _ in range(5):  # parameter values may themselves be MX in other parameters
                free = ca.symvar(x)
                if not free:
                    break
                x = ca.substitute([x], psyms, [ca.MX(v) for v in pvals])[0]
            f = ca.Function("ev", [], [x])
            return num(f()["o0"])
        if isinstance(x, ca.DM):
            return num(float(x))
        return num(x)

    def snap():
        out = []
        for kind, lst in (("state", model.states), ("der", model.der_states), ("alg", model.alg_states),
                          ("input", model.inputs), ("param", model.parameters), ("const", model.constants)):
            for v in lst:
                out.append({
                    "name": v.symbol.name(), "kind": kind,
                    "min": ev(v.min), "max": ev(v.max), "nominal": ev(v.nominal),
                    "fixed": ev(v.fixed),
                    "start": None if isinstance(v.start, _DefaultValue) else ev(v.start),
                    "start_symbolic": isinstance(v.start, ca.MX) and not v.start.is_constant(),
                    "aliases": list(v.aliases),      # iteration order of the very set simplify() looped over
                })
        return out

    if case.get("pre_options"):
        # array models: the per-element attributes exist only after _expand_vectors; take the "before the
        # merge" snapshot from a second instance of the model that is expanded but not alias-eliminated
        main_model = model
        model = generator.generate(parser.parse(case["text"]), case["cls"])
        model.simplify(dict(case["pre_options"]))
        pre = snap()
        model = main_model
        res = {"pre": pre, "passes": []}
    else:
        res = {"pre": snap(), "passes": []}
    for opts in case["passes"]:
        model.simplify(dict(opts))
        res["passes"].append(snap())
    # the metadata function must agree with the Variable objects for the canonical variables
    return res


if __name__ == "__main__":
    child_main(handler)
