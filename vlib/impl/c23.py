"""Child for C23: generate a tiny Modelica model with the real CasADi backend and report either the
exception class or the array elements the equation(s) selected.

case = {"text": <Modelica source of model M>, "dims": [n] | [n, m] | [], "params": {name: int}, "target": name}
The subscripted symbol is the algebraic variable `target` (default `x`; `a.x` / `a.v` for members of components).  Element (r, c) (1-based; c = 1 for 1-D) is given the value
1000*r + 100*c, every other variable 0, every parameter its declared value; the residual of the
single equation / for-equation `x[..] = rhs` (rhs = 0, or the loop variable) is evaluated, so residual
entry = 1000*r + 100*c - rhs identifies the selected element (and the loop iteration it was used in).
result = {"sel": [[r, c, rhs], ...]} in residual order | {"exc": class, "msg": ...} | {"other": ...}
"""
from vlib.core import child_main


def handler(case):
    import numpy as np
    import casadi as ca  # noqa
    from pymoca import parser
    from pymoca.backends.casadi import generator

    tree = parser.parse(case["text"])
    if tree is None:
        return {"exc": "ParseError", "msg": "parser returned None"}
    m = generator.generate(tree, "M", {})
    dims = case["dims"]          # [] = take the shape from the symbol (scalars, members of components)
    target = case.get("target", "x")
    f = m.dae_residual_function
    if f.n_out() == 0:
        return {"sel": [], "neq": 0}

    def vec(vars_, getter):
        out = []
        for v in vars_:
            s = v.symbol
            if s.name() == target:
                if dims:
                    assert list(s.shape) == [dims[0], dims[1] if len(dims) > 1 else 1], (s.shape, dims)
                # veccat is column-major
                if case.get("decode") == "powers":
                    # for-statement in a function: the residual is b - sum(x[selected]); element r weighs 8^(r-1)
                    out += [8 ** r for r in range(s.shape[0] * s.shape[1])]
                else:
                    out += [1000 * (r + 1) + 100 * (c + 1) for c in range(s.shape[1]) for r in range(s.shape[0])]
            else:
                out += [getter(s.name())] * (s.shape[0] * s.shape[1])
        return out

    params = case.get("params", {})
    args = [0.0,
            vec(m.states, lambda n: 0.0), vec(m.der_states, lambda n: 0.0),
            vec(m.alg_states, lambda n: 0.0), vec(m.inputs, lambda n: 0.0),
            vec(m.constants, lambda n: float(params.get(n, 0))),
            vec(m.parameters, lambda n: float(params[n]))]
    if target not in [v.symbol.name() for v in m.alg_states]:
        return {"other": "%s is not an algebraic state" % target}
    out = np.array(f(*args)).flatten(order="F")
    if case.get("decode") == "powers":
        v = abs(out[0])
        if len(out) != 1 or v != int(v):
            return {"other": "unexpected residual %r" % (list(out),)}
        v, sel, r = int(v), [], 1
        while v:
            sel += [[r, 1, 0]] * (v % 8)
            v //= 8
            r += 1
        return {"sel": sel, "neq": 1}
    sel = []
    for v in out:
        if v != v or v != int(v):
            return {"other": "non-integer residual %r" % (v,)}
        v = int(v)
        rhs = (-v) % 100
        q = (v + rhs) // 100
        sel.append([q // 10, q % 10, rhs])
    return {"sel": sel, "neq": len(sel)}


if __name__ == "__main__":
    child_main(handler)
