"""C02 — concurrent parses sharing a cache folder all succeed."""
import ast as pyast
import json
import os
from concurrent.futures import ThreadPoolExecutor

from . import core
from .core import cq_bool, cq_list, cq_nat

THEOREMS = ["C02_safe", "C02_skip_check_refuted", "C02_safe_modes", "C02_head_well_moded", "C02_refuted_deferred", "C02_head_on_witness",
            "C02_refuted_corrupt", "C02_refuted_split_lookup", "C02_timeout_guard", "C02_mutex", "C02_no_deadlock", "C02_m1_rejected", "C02_lock_mutex", "C02_busy_only_on_upgrade", "C02_example"]

KNOWN_TAG = "corrupt-db-concurrent-recovery"

TEXTS = [
    ["model A\n  parameter Real k = 2;\n  Real x(start=1);\nequation\n  der(x) = -k * x;\nend A;\n", True],
    ["model B\n  Real y;\n  input Real u;\nequation\n  y = 3 * u + 1;\nend B;\n", True],
    ["package P\n  model C\n    Real z;\n  equation\n    z = 1;\n  end C;\nend P;\n", True],
    ["model D\n  Real x\nequation\n  x = ;\nend D;\n", False],          # syntax error: parse() returns None, nothing cached
]

# ---------------------------------------------------------------------------------------------------
# T8: the SQL skeleton of parse() (with _check_database_structure inlined), regenerated from the source
# ---------------------------------------------------------------------------------------------------
REGS = {"table_exists": 0, "metadata_table_exists": 1, "columns": 2, "table_correct": 3,
        "metadata_table_correct": 4, "result": 5}
# python test -> (Coq cond, polarity): polarity False swaps the branches
CONDS = {
    "not hasattr(parse, 'initialized_dbs') or full_db_path not in parse.initialized_dbs": ("CInit", True),
    "full_db_path not in parse.initialized_dbs": ("CInit", True),
    "table_exists": ("CReg 0", True),
    "metadata_table_exists": ("CReg 1", True),
    "columns != expected_columns": ("CReg 2", False),
    "not table_correct": ("CReg 3", False),
    "not metadata_table_correct": ("CReg 4", False),
    "result": ("CReg 5", True),
    "always_update_last_hit or last_hit < yesterday": ("CUpd", True),
    "tree is None": ("CReg 5", False),       # not served from the cache (unpickling of a cached row succeeds: C01)
    "tree is not None": ("CTree", True),
}


class ProbeError(Exception):
    pass


def classify_sql(sql):
    s = " ".join(sql.split()).rstrip(";").strip()
    u = s.upper()
    if u.startswith("BEGIN"):
        if "IMMEDIATE" in u:
            return "SBegin true"
        if "EXCLUSIVE" in u:
            raise ProbeError("BEGIN EXCLUSIVE is not in the model")
        return "SBegin false"
    if u.startswith("PRAGMA INTEGRITY_CHECK"):
        return "INTEGRITY"
    for t, ct in (("models", "TModels"), ("metadata", "TMeta")):
        if u.startswith("SELECT NAME FROM SQLITE_MASTER") and ("NAME='%s'" % t.upper()) in u:
            return ("READ", "RMaster %s" % ct)
        if u.startswith("PRAGMA TABLE_INFO('%s')" % t.upper()):
            return ("READ", "RInfo %s" % ct)
        if u.startswith("DROP TABLE IF EXISTS %s" % t.upper()):
            return "SWrite (WDrop %s)" % ct
        if u.startswith("CREATE TABLE %s " % t.upper()) or u.startswith("CREATE TABLE %s(" % t.upper()):
            return "SWrite (WCreate %s)" % ct
    if u.startswith("SELECT") and "FROM MODELS" in u:
        return ("READ", "RLookup")
    if u.startswith("INSERT OR IGNORE INTO METADATA"):
        return "SWrite WMetaKeys"
    if u.startswith("DELETE FROM MODELS"):
        return "SWrite WPrune"
    if u.startswith("UPDATE METADATA"):
        return "SWrite WTouchMeta"
    if u.startswith("UPDATE MODELS"):
        return "SWrite WTouchRow"
    if u.startswith("INSERT OR REPLACE INTO MODELS") or u.startswith("REPLACE INTO MODELS"):
        return "SWrite (WInsert true)"
    if u.startswith("INSERT INTO MODELS") or u.startswith("INSERT OR ABORT INTO MODELS") or u.startswith("INSERT OR FAIL INTO MODELS"):
        return "SWrite (WInsert false)"
    raise ProbeError("unclassified SQL: %s" % s[:60])


def _const_str(node):
    if isinstance(node, pyast.Constant) and isinstance(node.value, str):
        return node.value
    if isinstance(node, pyast.BinOp) and isinstance(node.op, pyast.Add):
        return _const_str(node.left) + _const_str(node.right)
    if isinstance(node, pyast.JoinedStr):
        raise ProbeError("SQL built with an f-string")
    raise ProbeError("SQL text is not a constant")


class Probe:
    def __init__(self, src):
        self.tree = pyast.parse(src)
        self.funcs = {n.name: n for n in self.tree.body if isinstance(n, pyast.FunctionDef)}
        self.connect_kw = []
        self.busy_guard = None          # does the integrity handler re-raise a busy error before os.remove?
        self.mark_ok = None             # is the database marked initialised only after the start-up statements?
        self.init_uses = self.check_init_uses()

    def events_in(self, node, _seen=None):
        _seen = _seen if _seen is not None else set()
        for n in pyast.walk(node):
            if isinstance(n, pyast.Call) and isinstance(n.func, pyast.Name) and n.func.id in self.funcs \
                    and n.func.id not in _seen and n.func.id not in ("parse", "_parse"):
                _seen.add(n.func.id)
                if self.events_in(self.funcs[n.func.id], _seen):
                    return True
            if isinstance(n, pyast.Call) and isinstance(n.func, pyast.Attribute):
                if n.func.attr in ("execute", "executemany", "executescript", "commit", "close", "remove", "unlink",
                                   "connect", "rollback"):
                    return True
            if isinstance(n, pyast.Call) and isinstance(n.func, pyast.Name) and n.func.id == "_check_database_structure":
                return True
        return False

    def call_event(self, call, target):
        """Coq instr list for one call expression (or None when it is not an event)"""
        f = call.func
        if isinstance(f, pyast.Name) and f.id in self.funcs and f.id not in ("parse", "_parse") \
                and self.events_in(self.funcs[f.id]):
            # a module-level helper that touches the cache: inlined (fails closed on anything unsupported in it,
            # e.g. executescript, which COMMITs the open transaction before it runs)
            return self.block(self.funcs[f.id].body)
        if not isinstance(f, pyast.Attribute):
            return None
        recv = pyast.unparse(f.value)
        if f.attr == "connect" and recv == "sqlite3":
            kw = {k.arg: pyast.unparse(k.value) for k in call.keywords}
            self.connect_kw.append(kw)
            return ["IS SConnect"]
        if f.attr == "remove" and recv == "os":
            return ["IS SRemove"]
        if f.attr == "commit" and recv == "conn":
            return ["IS SCommit"]
        if f.attr == "close" and recv == "conn":
            return ["IS SClose"]
        if f.attr in ("executemany", "executescript", "rollback", "unlink"):
            raise ProbeError("unsupported call %s" % pyast.unparse(call)[:60])
        if f.attr == "execute":
            if recv not in ("cursor", "conn"):
                raise ProbeError("execute on %s" % recv)
            k = classify_sql(_const_str(call.args[0]))
            if k == "INTEGRITY":
                return ["IS (SIntegrity false)"]
            if isinstance(k, tuple):
                return [("READ", k[1])]
            return ["IS (%s)" % k]
        return None

    def block(self, stmts):
        out = []
        i = 0
        while i < len(stmts):
            st = stmts[i]
            i += 1
            if isinstance(st, pyast.If):
                test = pyast.unparse(st.test)
                has = self.events_in(st) or self.sets_reg(st)
                if not has:
                    continue
                if test not in CONDS and isinstance(st.test, pyast.BoolOp) and isinstance(st.test.op, pyast.Or):
                    # "refresh last_hit": any disjunction of these (a further disjunct only refreshes more often,
                    # which the model covers through always_update_last_hit / the stale register)
                    ds = {pyast.unparse(v) for v in st.test.values}
                    if ds <= {"always_update_last_hit", "not isinstance(last_hit, int)", "last_hit < yesterday"} \
                            and "last_hit < yesterday" in ds:
                        test = "always_update_last_hit or last_hit < yesterday"
                if test not in CONDS:
                    raise ProbeError("unknown branch condition around cache statements: %s" % test[:80])
                c, pol = CONDS[test]
                if c == "CInit":
                    self.mark_ok = self.check_mark(st.body)
                th, el = self.block(st.body), self.block(st.orelse)
                if not pol:
                    th, el = el, th
                out.append("IIf (%s) %s %s" % (c, cq_list(th), cq_list(el)))
            elif isinstance(st, pyast.Try):
                names = [pyast.unparse(h.type) if h.type is not None else "BaseException" for h in st.handlers]
                if any("sqlite3" in n for n in names):
                    body = self.block(st.body)
                    if not (len(body) >= 1 and body[0] == "IS (SIntegrity false)" and
                            all(b.startswith("IS (SSet") for b in body[1:])):
                        raise ProbeError("try/except sqlite3.* around something else than the integrity check")
                    if names != ["sqlite3.DatabaseError"] or len(st.handlers) != 1 or st.orelse or st.finalbody:
                        raise ProbeError("integrity check handler catches %s" % names)
                    self.busy_guard = self.check_guard(st.handlers[0])
                    out.append("IS (SIntegrity true)")
                    out.append("IIf CIFail %s []" % cq_list(self.block(st.handlers[0].body)))
                else:
                    out += self.block(st.body)
                    for h in st.handlers:
                        hb = self.block(h.body)
                        if [x for x in hb if x != "IS SClose"]:
                            raise ProbeError("cache statements in an exception handler")
                    out += self.block(st.orelse) + self.block(st.finalbody)
            elif isinstance(st, (pyast.For, pyast.While, pyast.With, pyast.FunctionDef, pyast.AsyncFunctionDef)):
                if self.events_in(st):
                    raise ProbeError("cache statements inside %s" % type(st).__name__)
            elif isinstance(st, pyast.Return):
                if out and i < len(stmts):
                    raise ProbeError("early return after cache statements")
            else:
                calls = [n for n in pyast.walk(st) if isinstance(n, pyast.Call)]
                evs = []
                for c in calls:
                    e = self.call_event(c, None)
                    if e:
                        evs.append(e)
                if len(evs) > 1:
                    raise ProbeError("two cache statements in one python statement")
                if evs:
                    ev = evs[0]
                    if ev and isinstance(ev[0], tuple):
                        # a read: its destination is the variable assigned from fetchone()/fetchall() next
                        dst = None
                        if i < len(stmts) and isinstance(stmts[i], pyast.Assign) and len(stmts[i].targets) == 1 \
                                and isinstance(stmts[i].targets[0], pyast.Name) \
                                and pyast.unparse(stmts[i].value) in ("cursor.fetchone()", "cursor.fetchall()"):
                            dst = stmts[i].targets[0].id
                            i += 1
                        elif i < len(stmts) and isinstance(stmts[i], pyast.Assign) and len(stmts[i].targets) == 1 \
                                and isinstance(stmts[i].targets[0], (pyast.Tuple, pyast.List)) \
                                and pyast.unparse(stmts[i].value) == "cursor.fetchone()" and ev[0][1] == "RLookup":
                            # the row is unpacked at once: raises TypeError when there is no row
                            i += 1
                            out.append("IS (SRead RFetch 7)")
                            continue
                        if dst not in REGS:
                            raise ProbeError("read whose result goes to %r" % dst)
                        out.append("IS (SRead (%s) %d)" % (ev[0][1], REGS[dst]))
                    else:
                        out += ev
                elif isinstance(st, pyast.Assign) and len(st.targets) == 1 and isinstance(st.targets[0], pyast.Name) \
                        and st.targets[0].id in REGS:
                    v = st.value
                    if isinstance(v, pyast.Constant) and isinstance(v.value, bool):
                        out.append("IS (SSet %d %s)" % (REGS[st.targets[0].id], cq_bool(v.value)))
                    elif pyast.unparse(v) in ("cursor.fetchone()", "cursor.fetchall()"):
                        pass     # the fetch of the integrity check (inside the try)
                    else:
                        raise ProbeError("assignment to %s" % st.targets[0].id)
        return out

    def check_init_uses(self):
        """every use of parse.initialized_dbs inside parse() must be one of: the (not) in test, `.add(x)`, or the
        assignment of a set display; iteration, other mutation, aliasing or passing it on is flagged"""
        fn = self.funcs.get("parse")
        parent = {}
        for n in pyast.walk(fn):
            for ch in pyast.iter_child_nodes(n):
                parent[ch] = n
        bad = []
        for n in pyast.walk(fn):
            if isinstance(n, pyast.Attribute) and n.attr == "initialized_dbs" and pyast.unparse(n.value) == "parse":
                p = parent.get(n)
                ok = False
                if isinstance(p, pyast.Compare) and n in p.comparators and all(isinstance(o, (pyast.In, pyast.NotIn)) for o in p.ops):
                    ok = True
                elif isinstance(p, pyast.Attribute) and p.attr == "add" and isinstance(parent.get(p), pyast.Call) \
                        and parent[p].func is p:
                    ok = True
                elif isinstance(p, pyast.Assign) and n in p.targets and isinstance(p.value, pyast.Set):
                    ok = True
                if not ok:
                    bad.append(pyast.unparse(parent.get(p, p) if p is not None else n)[:80])
        return bad

    def check_mark(self, body):
        """parse.initialized_dbs may be extended / assigned only after the last cache statement of the
        start-up block (otherwise another thread of the process skips checks that have not been done)"""
        last_event = -1
        marks = []
        for i, st in enumerate(body):
            if self.events_in(st):
                last_event = i
            if "initialized_dbs" in pyast.unparse(st) and any(
                    isinstance(n, (pyast.Assign, pyast.AugAssign)) or
                    (isinstance(n, pyast.Call) and isinstance(n.func, pyast.Attribute) and n.func.attr in ("add", "update"))
                    for n in pyast.walk(st)):
                marks.append(i)
        return bool(marks) and min(marks) > last_event

    def check_guard(self, handler):
        """ONLY a guard that really tests for the busy condition counts: `if <test>: raise` before os.remove where
        <test> is, up to `isinstance(e, sqlite3.OperationalError) and`, "'locked' in str(e)" or
        "e.sqlite_errorcode == sqlite3.SQLITE_BUSY" (SQLITE_LOCKED is a different condition)"""
        name = handler.name
        for st in handler.body:
            if any(isinstance(n, pyast.Call) and isinstance(n.func, pyast.Attribute) and n.func.attr in ("remove", "unlink")
                   for n in pyast.walk(st)):
                return False
            if isinstance(st, pyast.If) and len(st.body) == 1 and isinstance(st.body[0], pyast.Raise) \
                    and st.body[0].exc is None and name:
                parts = st.test.values if isinstance(st.test, pyast.BoolOp) and isinstance(st.test.op, pyast.And) else [st.test]
                texts = [pyast.unparse(x) for x in parts]
                ok_tests = {"'locked' in str(%s)" % name, "%s.sqlite_errorcode == sqlite3.SQLITE_BUSY" % name,
                            "sqlite3.SQLITE_BUSY == %s.sqlite_errorcode" % name}
                allowed = ok_tests | {"isinstance(%s, sqlite3.OperationalError)" % name}
                if any(t in ok_tests for t in texts) and all(t in allowed for t in texts):
                    return True
        return False

    def sets_reg(self, node):
        for n in pyast.walk(node):
            if isinstance(n, pyast.Assign) and len(n.targets) == 1 and isinstance(n.targets[0], pyast.Name) \
                    and n.targets[0].id in REGS and isinstance(n.value, pyast.Constant):
                return True
        return False


def probe_program(repo):
    src = open(os.path.join(repo, "src/pymoca/parser.py")).read()
    p = Probe(src)
    prog = p.block(p.funcs["parse"].body)
    return prog, p.connect_kw, p


# ---------------------------------------------------------------------------------------------------
# cases
# ---------------------------------------------------------------------------------------------------
KINDS = ["fresh", "existing", "wrong", "wrongmeta", "corrupt"]


def db0(kind, pre):
    if kind == "fresh":
        return "(Some empty_db)"
    if kind == "existing":
        return "(Some (Db TGood TGood true %s))" % cq_list(["(%s, %s)" % (cq_nat(x[0]), cq_nat(x[1])) for x in pre])
    if kind in ("wrong", "wrongpk"):
        return "(Some (Db TWrong TMissing false []))"
    if kind == "wrongmeta":
        return "(Some (Db TGood TWrong false []))"
    return "None"


def sched_case(kind, calls, schedule, pre=(), shared=False):
    return {"mode": "sched", "kind": kind, "texts": [t for t, _ in TEXTS], "pre": list(pre),
            "calls": calls, "schedule": list(schedule), "shared": shared}


def shared_cases(rng=None, n=0):
    """threads of ONE process (same key in parse.initialized_dbs, nothing initialised yet) on a database whose
    `models` table has an older layout that still answers the lookup and holds, under the text's key, ANOTHER
    model's tree; call 1's lookup is interleaved into call 0's start-up.  Oracle only (the model treats calls as
    processes)."""
    cs = []
    for k in (1, 2, 3, 5, 6, 8):
        cs.append(sched_case("wrongpk", [call(0), call(0)], [0] * k + [1] * 8, pre=[[0, 0, 1]], shared=True))
    cs.append(sched_case("wrongpk", [call(0), call(1), call(0)], [0, 0, 0, 1, 1, 1, 1, 1, 1, 2, 2, 2, 2, 2, 2],
                         pre=[[0, 0, 2], [1, 0, 2]], shared=True))
    cs.append(sched_case("fresh", [call(0), call(0), call(1)], [0, 0, 1, 1, 1, 1, 2, 2, 0, 0, 0], shared=True))
    for _ in range(n):
        m = rng.choice([2, 3])
        sched = []
        for _i in range(rng.randint(3, 8)):
            sched += [rng.randrange(m)] * rng.randint(1, 6)
        cs.append(sched_case(rng.choice(["wrongpk", "wrongpk", "wrong", "fresh"]),
                             [call(rng.choice([0, 0, 1])) for _i in range(m)], sched,
                             pre=[[0, 0, 1], [1, 0, 2]], shared=True))
    # the process has used ANOTHER cache database before ("warm"); one thread is held between entering parse()
    # and its first statement (pause points at Path.mkdir / Path.exists) while another completes its start-up
    for kind in ("fresh", "wrongpk"):
        for k in (1, 2):
            cs.append(dict(sched_case(kind, [call(0), call(0)], [1] * k + [0] * 40 + [1] * 4, pre=[[0, 0, 1]], shared=True),
                           warm=True))
    cs.append(dict(sched_case("fresh", [call(0), call(1), call(0)], [2, 1, 0, 0] + [0] * 36 + [1] * 6 + [2] * 4,
                              shared=True), warm=True))
    # one invalid text among threads of one process (seeded m9): a thread is held just before / just after the
    # grammar run inside _parse() while another one runs through its own
    for ka in (24, 25, 26):
        for kb in (4, 5, 6):
            cs.append(sched_case("fresh", [call(3), call(0)], [0] * ka + [1] * kb + [0] * 12 + [1] * 12, shared=True))
    for kb in (24, 25, 26):
        cs.append(sched_case("fresh", [call(3), call(0)], [1] * kb + [0] * 6 + [1] * 12 + [0] * 12, shared=True))
    for c in cs:
        if c["kind"] != "wrongpk":
            c["pre"] = []
    return cs


def timeout_cases():
    """the 'pending writer': C holds SHARED between its lookup and the commit, A sits in COMMIT with PENDING,
    the late starter B cannot get SHARED for its integrity check and ITS busy timeout expires (entry 100 + call)"""
    cs = []
    C, A, B = 0, 1, 2
    for pre in ([[0, 0]], [[0, 40]]):
        cs.append(sched_case("existing", [call(0, init=False), call(1, init=False), call(2)],
                             [C] * 3 + [A] * 7 + [B, 100 + B] + [B] * 4 + [C] * 3 + [A] * 3, pre=pre))
    # the same with the time-out hitting an ordinary statement (B already initialised: its lookup)
    cs.append(sched_case("existing", [call(0, init=False), call(1, init=False), call(2, init=False)],
                         [C] * 3 + [A] * 7 + [B, B, 100 + B] + [C] * 3 + [A] * 3, pre=[[0, 0]]))
    return cs


def call(text, init=True, upd=False, exp=30):
    return {"text": text, "init": init, "upd": upd, "exp": exp}


def directed():
    cs = []
    # (i) single-call statement traces, every scenario
    for kind in KINDS:
        for ti in (0, 3):
            cs.append(sched_case(kind, [call(ti)], []))
    # a caller decides to recreate a table, loses the write lock before the DROP, the other one stores its entry
    # (seeded m8: executescript commits first)
    for kind, pre in (("wrong", []), ("wrongpk", [[0, 0, 1]])):
        cs.append(sched_case(kind, [call(0), call(1)], [0] * 6 + [1] * 6 + [0] * 40 + [1] * 40, pre=pre))
    cs.append(sched_case("wrongpk", [call(0)], [], pre=[[0, 0, 1]]))
    cs.append(sched_case("wrongpk", [call(0), call(0)], [0, 1] * 6, pre=[[0, 0, 1]]))
    cs.append(sched_case("existing", [call(0)], [], pre=[[0, 0]]))                 # hit
    cs.append(sched_case("existing", [call(0, upd=True)], [], pre=[[0, 0]]))       # hit + last_hit update
    cs.append(sched_case("existing", [call(1, init=False)], [], pre=[[0, 0]]))     # already initialised, miss
    cs.append(sched_case("existing", [call(0, init=False, upd=True)], [], pre=[[0, 0]]))
    # (iii) the witness schedule of C02_refuted_deferred and its variants, on every non-garbage kind
    w = [0, 1, 0, 1, 0, 1, 0, 1, 0, 1]
    for kind in ("fresh", "wrong", "wrongmeta", "existing"):
        cs.append(sched_case(kind, [call(0), call(0)], w))
        cs.append(sched_case(kind, [call(0), call(1)], w + [0] * 12 + [1] * 6))
        cs.append(sched_case(kind, [call(0), call(1), call(0)], [0, 1, 2] * 8))
    # two inserters of the same text (INSERT OR REPLACE), reader holding SHARED while a writer commits
    cs.append(sched_case("existing", [call(0, init=False), call(0, init=False)], [0, 1] * 10))
    cs.append(sched_case("existing", [call(0, init=False, upd=True), call(0, init=False, upd=True)], [0, 1] * 10, pre=[[0, 0]]))
    cs.append(sched_case("existing", [call(1, init=False), call(0, init=False, upd=True), call(2)],
                         [0, 0, 0, 1, 1, 1, 1, 0, 0, 1, 2, 2, 0, 1, 2], pre=[[0, 0]]))
    # prune vs lookup: entries that are stale (> 1 day: last_hit is refreshed), nearly expired (20 days: kept by a
    # 30-day caller, pruned by a 10-day caller) and expired (40 days); the pruning caller runs its whole start-up
    # check after the other caller's lookup (4 attempts: connect, BEGIN, SELECT, COMMIT) / inside its UPDATE
    for age, exp in ((40, 30), (20, 10), (20, 30), (2, 30)):
        for k in (4, 5, 6, 7):
            cs.append(sched_case("existing", [call(0, init=False), call(1, exp=exp)], [0] * k + [1] * 32 + [0] * 8,
                                 pre=[[0, age]]))
    cs.append(sched_case("existing", [call(0, exp=30), call(0, exp=10), call(2, init=False)],
                         [0] * 20 + [1] * 22 + [2] * 3 + [0, 1] * 8, pre=[[0, 20], [2, 40]]))
    cs.append(sched_case("existing", [call(0, exp=10)], [], pre=[[0, 20], [1, 2]]))
    cs.append(sched_case("existing", [call(1, init=False)], [], pre=[[1, 2]]))
    return cs


def corrupt_cases():
    return [sched_case("corrupt", [call(0), call(0)], [0, 1, 0, 0, 0, 0, 1, 1, 1]),      # C02_refuted_corrupt (1)
            sched_case("corrupt", [call(0), call(1)], [0, 1, 0, 1, 0, 1, 0, 1])]         # C02_refuted_corrupt (2)


def random_case(rng):
    kind = rng.choice(["fresh", "fresh", "existing", "existing", "wrong", "wrongmeta"])
    n = rng.choice([2, 2, 3])
    pre = [[t, rng.choice([0, 0, 2, 20, 40])] for t in (0, 1, 2) if rng.random() < 0.5] if kind == "existing" else []
    calls = []
    for _ in range(n):
        ti = rng.choice([0, 0, 1, 2, 3])
        init = True if kind != "existing" else rng.random() < 0.5
        calls.append(call(ti, init=init, upd=rng.random() < 0.4, exp=rng.choice([30, 30, 10])))
    sched = []
    if kind == "existing" and rng.random() < 0.5:
        # let a call get past its lookup, then run another one for a long stretch (its start-up prune)
        a = rng.randrange(n)
        sched += [a] * rng.randint(3, 8) + [rng.choice([x for x in range(n) if x != a])] * rng.randint(20, 32)
    for _ in range(rng.randint(4, 14)):
        sched += [rng.randrange(n)] * rng.randint(1, 5)
    return sched_case(kind, calls, sched, pre)


def stress_case(rng, n, procs, kind="fresh"):
    orders = [[rng.choice([0, 0, 1, 2, 3]) for _ in range(1 if procs else 2)] for _ in range(n)]
    return {"mode": "stress", "n": n, "procs": procs, "kind": kind, "texts": [t for t, _ in TEXTS],
            "orders": orders, "pre": []}


# ---------------------------------------------------------------------------------------------------
# oracle (independent of the Coq model)
# ---------------------------------------------------------------------------------------------------
def judge_sched(c, r):
    if "trace" not in r:
        return "harness/child failure: %s" % (r,)
    if r.get("undrained"):
        return "calls did not terminate (deadlock or livelock under the drained schedule)"
    # statement-level observable: parse() absorbs sqlite3.DatabaseError (uncached fall-back, a7369f2), so a lock
    # error no longer reaches the caller - the proxied sqlite3 inside pymoca.parser still sees it
    timed_out = {o[0] for o in r["trace"] if o[2] == "timeout"}      # injected by the schedule (100 + call)
    if c["kind"] != "corrupt" and r.get("inode_kept") is False:
        return "the database file was replaced or removed (inode changed)"
    for o in r["trace"]:
        if o[0] in timed_out and o[2] in ("timeout", "fail"):
            continue
        if o[2] in ("busy", "err") or (o[2] == "fail" and c["kind"] != "corrupt"):
            return "call %d: statement %s inside parse() raised (%s)%s" % (
                o[0], o[1], "database is locked, at once" if o[2] == "busy" else o[2],
                "" if (r["results"][o[0]] or ["?"])[0] != "ok" else "; absorbed by the uncached fall-back")
    for i, (res, want) in enumerate(zip(r["results"], r["want"])):
        if res is None or res[0] != "ok":
            return "call %d raised %s" % (i, res)
        if res[1] != want:
            return "call %d returned a tree different from the uncached parse" % i
    if any(o[2] == "viol" for o in r["trace"]):
        return "a call removed the database file another call had open"
    f = r["final"]
    if not f["exists"] or f["integrity"] != "ok":
        return "database afterwards: exists=%s integrity=%s" % (f["exists"], f["integrity"])
    # rows: every successfully parsed text and every pre-populated entry, except that an entry older than the
    # shortest expiration of an initialising (= pruning) call may legitimately be gone
    exps = [cl.get("exp", 30) for cl in c["calls"] if cl["init"]]
    old = c["kind"] == "wrongpk"            # rows under the old layout go away with the table
    prunable = {x[0] for x in c["pre"] if old or (exps and x[1] > min(exps))}
    # a timed-out call falls back to an uncached parse: its own text need not be cached (unless another call has it)
    prunable |= ({c["calls"][i]["text"] for i in timed_out} -
                 {cl["text"] for i, cl in enumerate(c["calls"]) if i not in timed_out} - {x[0] for x in c["pre"]})
    allrows = {cl["text"] for cl in c["calls"] if TEXTS[cl["text"]][1]} | {x[0] for x in c["pre"]}
    if not (allrows - prunable <= set(f["rows"]) <= allrows):
        return "cache rows afterwards %s, expected %s minus possibly %s (cache not used or entries lost)" % (
            f["rows"], sorted(allrows), sorted(prunable))
    return None


def judge_stress(c, r):
    if "results" not in r:
        return "harness/child failure: %s" % (r,)
    for i, rs in enumerate(r["results"]):
        if rs is None:
            return "worker %d did not report" % i
        for ti, st, d, _dt in rs:
            if st != "ok":
                return "worker %d: parse raised %s after %.1f s" % (i, d, _dt)
            if d != r["want"][ti]:
                return "worker %d: tree differs from the uncached parse" % i
    f = r["final"]
    if not f["exists"] or f["integrity"] != "ok":
        return "database afterwards: exists=%s integrity=%s" % (f["exists"], f["integrity"])
    need = sorted({ti for o in c["orders"] for ti in o if TEXTS[ti][1]})
    if f["rows"] != need:
        return "cache rows afterwards %s, expected %s" % (f["rows"], need)
    return None


TIMEOUT_TAG = "busy-timeout-under-contention"
BUSY_TIMEOUT = 5.0      # sqlite3.connect default; parse() passes none (tie:connect obligation)


def tag_of(c, r=None):
    if c["kind"] == "corrupt" and (c["mode"] == "stress" or len(c["calls"]) >= 2):
        return KNOWN_TAG
    if c["mode"] == "stress" and r and r.get("results"):
        # every failing call waited (at least) the whole busy timeout, or failed after some call of the round
        # had waited that long (an integrity check that times out is taken for corruption and removes the
        # file under the others) - as opposed to the immediate SQLITE_BUSY of a lock upgrade
        calls = [x for rs in r["results"] if rs for x in rs]
        fails = [x for x in calls if x[1] != "ok"]
        thr = 0.9 * max(BUSY_TIMEOUT, 5.0)
        cascade = ("disk I/O error", "readonly database", "FileNotFoundError", "unable to open database")
        slow = [x for x in calls if x[3] >= thr]
        if fails and slow and all((x[3] >= thr and "locked" in x[2]) or any(k in x[2] for k in cascade)
                                  for x in fails):
            return TIMEOUT_TAG
    return "%s-%s" % (c["mode"], c["kind"])


# ---------------------------------------------------------------------------------------------------
# Coq encodings
# ---------------------------------------------------------------------------------------------------
KIND = {"connect": "KConnect", "integrity": "KIntegrity", "remove": "KRemove", "begin_d": "KBeginD",
        "begin_i": "KBeginI", "read": "KRead", "write": "KWrite", "commit": "KCommit", "close": "KClose",
        "none": "KNone"}
OUT = {"timeout": "OTimeout", "done": "ODone", "blocked": "OBlocked", "busy": "OBusy", "fail": "OFail", "err": "OErr", "viol": "OViol",
       "idle": "OIdle"}


def encode_sched(c, r, progname, guard=True):
    pars = cq_list(["Par %s %s %s %s %s" % (cq_nat(cl["text"]), cq_bool(cl["init"]), cq_bool(cl["upd"]),
                                            cq_bool(TEXTS[cl["text"]][1]), cq_nat(cl.get("exp", 30)))
                    for cl in c["calls"]])
    obs = cq_list(["(%s, %s, %s)" % (cq_nat(o[0]), KIND.get(o[1], "KNone"), OUT[o[2]]) for o in r["trace"]])
    st = []
    for i, res in enumerate(r["results"]):
        # status of the call INSIDE parse() (the fall-back wrapper hides DatabaseErrors from the caller)
        outs = [o[2] for o in r["trace"] if o[0] == i]
        if "busy" in outs or any(o[0] == i and o[2] == "timeout" and o[1] != "integrity" for o in r["trace"]):
            st.append(2)
        elif "err" in outs or (res is not None and res[0] != "ok"):
            st.append(3)
        elif res is None:
            st.append(0)
        else:
            st.append(1)
    return "(%s, %s, %s, %s, %s, %s, %s, %s)" % (
        progname, cq_bool(guard), db0(c["kind"], c["pre"]), pars, cq_list([cq_nat(x) for x in r["effective"]]), obs,
        cq_list([cq_nat(x) for x in st]), cq_list([cq_nat(x) for x in r["final"]["rows"]]))


LV = {"U": "Unl", "S": "Sh", "R": "Res", "P": "Pen", "X": "Exc"}
OPS = {"read_auto": ("Unl", "LRead false"), "read_first": ("Unl", "LRead true"), "read_again": ("Sh", "LRead true"),
       "begin_imm": ("Unl", "LBeginImm"), "write_first": ("Unl", "LWrite true"), "upgrade": ("Sh", "LWrite true"),
       "auto_write": ("Unl", "LWrite false"), "commit_ro": ("Sh", "LCommit"), "commit_w": ("Res", "LCommit")}


def _locktable_ok(ctx, r):
    """quick pre-check without recording an obligation: all rows present and no 'err' entries"""
    rows = (r or {}).get("rows") or [] if isinstance(r, dict) else []
    return len(rows) >= 36 and not (r or {}).get("extra") and _lt_bad(ctx, rows) == []


def _lt_bad(ctx, rows):
    items = []
    for lv, op, got in rows:
        mine, lop = OPS[op]
        items.append("(match acquire %s [%s] (%s) with Grant _ => 0 | Block _ => 1 | Busy => 2 end, %d)"
                     % (mine, LV[lv], lop, {"grant": 0, "block": 1, "busy": 2}.get(got, 9)))
    text = (core.HEADER + "From Coq Require Import List Arith.\nImport ListNotations.\n"
            "From PV Require Import Lib.Lock.\n"
            "Definition rows : list (nat * nat) := %s.\n"
            "Eval vm_compute in (map (fun x => Nat.eqb (fst x) (snd x)) rows).\n" % cq_list(items))
    ok, out, err = core.coq_run(ctx, "LockTablePre", text)
    if not ok:
        return ["coqc"]
    vals = core.coq_results(out)[-1]
    flags = [x.strip() for x in vals.strip("[] ").split(";")]
    return [rows[i] for i, f in enumerate(flags) if f != "true"]


def locktable_check(ctx, r):
    rows = r.get("rows") or []
    items = []
    for lv, op, got in rows:
        mine, lop = OPS[op]
        items.append("(match acquire %s [%s] (%s) with Grant _ => 0 | Block _ => 1 | Busy => 2 end, %d)"
                     % (mine, LV[lv], lop, {"grant": 0, "block": 1, "busy": 2}.get(got, 9)))
    text = (core.HEADER + "From Coq Require Import List Arith.\nImport ListNotations.\n"
            "From PV Require Import Lib.Lock.\n"
            "Definition rows : list (nat * nat) := %s.\n"
            "Eval vm_compute in (map (fun x => Nat.eqb (fst x) (snd x)) rows).\n" % cq_list(items))
    ok, out, err = core.coq_run(ctx, "LockTable", text)
    bad = []
    if ok:
        vals = core.coq_results(out)[-1]
        flags = [x.strip() for x in vals.strip("[] ").split(";")]
        bad = [rows[i] for i, f in enumerate(flags) if f != "true"]
    good = ok and len(rows) >= 36 and not bad and not r.get("extra") and r.get("subclass") is True
    ctx.oblige("correspondence:Lock.acquire-vs-real-sqlite3", good,
               "rows=%d mismatching=%s extra=%s coq=%s" % (len(rows), bad[:6], r.get("extra"), err[-300:] if not ok else ""))
    return good


# ---------------------------------------------------------------------------------------------------
def load_scale():
    try:
        return max(1.0, os.getloadavg()[0] / float(os.cpu_count() or 1))
    except OSError:
        return 1.0


def inconclusive(r):
    """a harness deadline expired before the calls produced anything to judge (never a verdict)"""
    if not isinstance(r, dict):
        return "no result"
    if r.get("inconclusive"):
        return r["inconclusive"]
    if r.get("crash") == -999:
        return "child process hit the harness timeout"
    return None


def run_children(ctx, cases, workers=4):
    """shard the cases over `workers` child processes (deadline per shard scaled by size and machine load)"""
    shards = [cases[i::workers] for i in range(workers)]
    with ThreadPoolExecutor(max_workers=workers) as ex:
        outs = list(ex.map(lambda s: core.run_child(ctx, "c02", s, timeout=(300 + 20 * len(s)) * load_scale())
                           if s else [], shards))
    res = [None] * len(cases)
    for w, out in enumerate(outs):
        for j, r in enumerate(out):
            res[w + j * workers] = r
    return res


def run(ctx):
    import time
    tm = {}
    t0 = time.time()
    core.check_props(ctx, "C02.v", THEOREMS)
    tm["props"] = round(time.time() - t0, 1)
    fp, _n = core.fingerprint(core.REPO + "/src/pymoca/parser.py", {"parse", "_check_database_structure"})
    ctx.notes["source_fingerprint"] = {"parser.py:parse+_check_database_structure": fp}

    # ---- S1: regenerate the skeleton, tie the side condition ----
    progname = "prog_head"
    guard = True
    try:
        prog, kws, pr = probe_program(core.REPO)
        guard = bool(pr.busy_guard)
        ctx.oblige("tie:integrity handler re-raises a busy error ('locked' / SQLITE_BUSY) before os.remove",
                   pr.busy_guard is True, "busy_guard=%r" % pr.busy_guard)
        ctx.oblige("tie:database marked initialised only after the start-up checks", pr.mark_ok is True,
                   "mark_ok=%r" % pr.mark_ok)
        ctx.oblige("tie:parse.initialized_dbs is only tested with `in` and extended by add / a set display "
                   "(no iteration, no other mutation)", pr.init_uses == [], "other uses: %s" % pr.init_uses)
        gen = (core.HEADER + "From Coq Require Import List Bool Arith.\nImport ListNotations.\n"
               "From PV Require Import Lib.Lock Model.C02_conc.\n"
               "Definition gen_prog : prog := %s.\n"
               "(* Tie_C02: the side conditions of C02_safe on the regenerated skeleton *)\n"
               "Eval vm_compute in (side_ok gen_prog).\n"
               "Eval vm_compute in (match ty gen_prog MClosed with Some MClosed => true | _ => false end).\n"
               "Eval vm_compute in (Nat.eqb (size gen_prog) (size prog_head)).\n"
               "Eval vm_compute in (sch_ok gen_prog).\n" % cq_list(prog))
        ok, out, err = core.coq_run(ctx, "Gen", gen)
        ctx.oblige("tie:T8-skeleton-compiles", ok, err[-800:])
        if ok:
            progname = "gen_prog"
            vals = core.coq_results(out)
            ctx.oblige("tie:side_ok(regenerated skeleton): no write under a SHARED-only transaction, no remove "
                       "outside the corruption handler, INSERT OR REPLACE, no unpacked re-read of a cached row",
                       vals[:2] == ["true", "true"], "%s" % (vals,))
            ctx.notes["skeleton_same_size_as_static_copy"] = vals[2:3] == ["true"]
            ctx.oblige("tie:sch_ok(regenerated skeleton): DROP TABLE only under a layout read of the same write "
                       "transaction, CREATE only after the own DROP, tables known good where used",
                       vals[3:4] == ["true"], "%s" % (vals,))
        kw_ok = bool(kws) and all(k.get("isolation_level") == "None" and
                                  ("timeout" not in k or _num(k["timeout"]) >= 5.0) for k in kws)
        ctx.oblige("tie:connect(isolation_level=None, busy timeout >= default 5 s)", kw_ok, json.dumps(kws))
        ctx.notes["skeleton"] = prog
        global BUSY_TIMEOUT
        BUSY_TIMEOUT = min([_num(k["timeout"]) for k in kws if "timeout" in k] or [5.0])
    except (ProbeError, KeyError, SyntaxError, IndexError) as e:
        ctx.oblige("tie:T8-skeleton-probe (fail closed)", False, repr(e))

    tm["tie"] = round(time.time() - t0, 1)
    # ---- S3: cases ----
    n_rand = ctx.scaled(30, 600)
    dcs = directed()
    rcs = [random_case(ctx.rng) for _ in range(n_rand)]
    ccs = corrupt_cases() + timeout_cases()
    shs = shared_cases(ctx.rng, ctx.scaled(4, 60))
    stress = []
    for i in range(ctx.scaled(3, 20)):
        stress.append(stress_case(ctx.rng, ctx.scaled(8, 16), True, ctx.rng.choice(["fresh", "fresh", "wrong"])))
    for i in range(ctx.scaled(2, 6)):
        stress.append(stress_case(ctx.rng, ctx.scaled(6, 12), False, "fresh"))
    lt = [{"mode": "locktable"}]
    sched_cases = dcs + rcs + ccs + shs
    results = run_children(ctx, sched_cases + lt, workers=4)
    lt_res = results[-1]
    sres = results[:-1]
    tm["sched_children"] = round(time.time() - t0, 1)
    stress_res = []
    for i0 in range(0, len(stress), 5):       # chunks, each with its own load-scaled deadline
        chunk = stress[i0:i0 + 5]
        stress_res += core.run_child(ctx, "c02", chunk, timeout=(120 + 180 * len(chunk)) * load_scale())
    tm["stress"] = round(time.time() - t0, 1)
    skipped = []

    # (ii) lock table (timing-classified: one more attempt before the obligation is recorded)
    if inconclusive(lt_res) or not _locktable_ok(ctx, lt_res):
        lt_res = core.run_child(ctx, "c02", lt, timeout=600 * load_scale())[0]
    if inconclusive(lt_res):
        skipped.append({"mode": "locktable", "reason": inconclusive(lt_res)})
        ctx.notes["locktable"] = "skipped: " + inconclusive(lt_res)
    else:
        locktable_check(ctx, lt_res if isinstance(lt_res, dict) else {})

    # (a) oracle
    n_blocked = n_steps = 0
    distinct = set()
    for c, r in zip(sched_cases, sres):
        if inconclusive(r):
            skipped.append({"mode": "sched", "kind": c["kind"], "reason": inconclusive(r)})
            continue
        why = judge_sched(c, r)
        if "trace" in r:
            n_steps += len(r["trace"])
            n_blocked += sum(1 for o in r["trace"] if o[2] == "blocked")
            if len(c["calls"]) >= 2:
                distinct.add(json.dumps([c["kind"], c["calls"], r["effective"]]))
        if why:
            core.report(ctx, tag_of(c), why, {"input": c, "observed": {k: r.get(k) for k in ("results", "final")},
                                              "trace_tail": r.get("trace", [])[-8:]})
    for c, r in zip(stress, stress_res):
        if inconclusive(r):
            skipped.append({"mode": "stress", "n": c["n"], "procs": c["procs"], "reason": inconclusive(r)})
            continue
        why = judge_stress(c, r)
        if why:
            core.report(ctx, tag_of(c, r), why, {"input": c, "observed": r.get("final"), "calls": r.get("results")})

    # (b) correspondence (i)+(iii): model run on the effective schedule vs the observed attempts
    idx = [i for i, r in enumerate(sres) if "trace" in r and not sched_cases[i].get("shared")]
    n_shared = sum(1 for c in sched_cases if c.get("shared"))
    enc = [encode_sched(sched_cases[i], sres[i], progname, guard) for i in idx]
    pre = "From Coq Require Import Bool Arith.\nImport ListNotations.\nFrom PV Require Import Lib.Lock Model.C02_conc.\n"
    if progname == "gen_prog":
        pre += "From Run%s Require Import Gen.\n" % ctx.pid
    bad = core.coq_eval_cases(ctx, "sched", pre, "case", enc, "check_case", shard=40)
    if bad and len(bad) <= 12:
        # the blocked / failed-at-once classification of an attempt is by timing: run a mismatching case once
        # more before it counts (a real disagreement reproduces)
        again = [idx[j] for j in bad]
        res2 = run_children(ctx, [sched_cases[i] for i in again], workers=min(4, len(again)))
        keep = []
        for i, r2 in zip(again, res2):
            if inconclusive(r2) or "trace" not in r2:
                skipped.append({"mode": "sched-rerun", "kind": sched_cases[i]["kind"], "reason": inconclusive(r2) or "no trace"})
                continue
            sres[i] = r2
            keep.append(i)
        bad2 = core.coq_eval_cases(ctx, "sched2", pre, "case",
                                   [encode_sched(sched_cases[i], sres[i], progname, guard) for i in keep], "check_case",
                                   shard=40) if keep else []
        ctx.notes["correspondence_reruns"] = {"first": len(bad), "still": len(bad2 or [])}
        idx2 = keep
        bad = bad2
        mism = [idx2[j] for j in (bad or [])]
    else:
        mism = [idx[j] for j in (bad or [])]
    n_skip = sum(1 for r in sres if inconclusive(r))
    ctx.notes["inconclusive_skipped"] = {"count": len(skipped), "items": skipped[:10]}
    n_notrace = sum(1 for i, r in enumerate(sres) if "trace" not in r and not inconclusive(r))
    ctx.oblige("correspondence:model-vs-parse()-per-attempt", bad == [] and n_notrace == 0 and
               n_skip <= max(2, len(sres) // 10),
               "mismatching cases: %s; cases without trace: %d; inconclusive: %d" % (mism[:10], n_notrace, n_skip))
    if (bad or n_notrace) and not [v for v in ctx.violations if not v["no_input"]]:
        j = mism[0] if mism else [i for i, r in enumerate(sres) if "trace" not in r and not inconclusive(r)][0]
        core.violation(ctx, "correspondence-broken", {"input": sched_cases[j], "observed": sres[j]}, no_input=True)

    tm["coq_cases"] = round(time.time() - t0, 1)
    ctx.notes["phase_seconds_cumulative"] = tm
    # S4
    core.replay_known(ctx, lambda e: still_fails(ctx, e))

    ctx.cov["evaluations"] = len(sched_cases) + len(stress) + 1
    ctx.cov["distinct_nontrivial"] = len(distinct)
    ctx.cov["rule"] = ("schedule-driven runs of real parse() calls in threads (one attempt of one statement per schedule "
                       "entry): %d directed (every scenario single-call; witness schedule of C02_refuted_deferred on every "
                       "kind), %d random schedules of 2-3 calls over fresh/existing/wrong-layout databases, %d on a garbage "
                       "file; %d free-running stress rounds (processes and threads released by a barrier); lock table of "
                       "Lock.v vs real sqlite3 (%s rows). non-trivial = >= 2 calls, distinct (kind, calls, effective schedule)"
                       % (len(dcs), len(rcs), len(ccs), len(stress), len((lt_res or {}).get("rows", []) if isinstance(lt_res, dict) else [])))
    ctx.cov["samples"] = [{"kind": c["kind"], "calls": c["calls"], "schedule": c["schedule"][:20]} for c in rcs[:2]]
    kinds = {}
    for c in sched_cases:
        kinds[c["kind"]] = kinds.get(c["kind"], 0) + 1
    ctx.notes["input_distribution"] = {"kinds": kinds, "attempts": n_steps, "blocked_attempts": n_blocked,
                                       "stress": [[c["n"], "procs" if c["procs"] else "threads", c["kind"]] for c in stress][:8],
                                       "sqlite": (lt_res or {}).get("sqlite") if isinstance(lt_res, dict) else None}
    ctx.assumptions += [
        "fairness: a statement that needs a lock held by another connection waits in SQLite's busy handler and is retried; "
        "the 5 s busy timeout never expires (a lock holder makes progress)",
        "SQLite implements the lock table of Lib/Lock.v (compared on every run with two real connections)",
        "C02_safe assumes that calls which skip the start-up check (path already in parse.initialized_dbs) start on a "
        "database whose tables have the expected layout (tie: the path is marked only after the start-up statements)",
        "a database file that is garbage is outside the theorem (known finding %s)" % KNOWN_TAG,
    ]


def _num(s):
    try:
        return float(s)
    except ValueError:
        return -1.0


def still_fails(ctx, e):
    if e.get("tag") != KNOWN_TAG:
        return None
    c = e["replay"]["input"]
    r = core.run_child(ctx, "c02", [c])[0]
    return judge_sched(c, r) is not None


def replay(ctx, path):
    rec = json.load(open(path))
    c = rec.get("input")
    if not c:
        print("replay: no input recorded (broken obligation): %s" % rec.get("broken"))
        return 1
    n = 1 if c["mode"] == "sched" else 5
    why = None
    for _ in range(n):
        r = core.run_child(ctx, "c02", [c], timeout=900)[0]
        why = judge_sched(c, r) if c["mode"] == "sched" else judge_stress(c, r)
        if why:
            break
    print("replay:", why or "property holds on this input")
    return 1 if why else 0
