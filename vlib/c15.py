"""C15 — simplification keeps regular systems square and self-contained.
Same generator, child, Gallina model and correspondence as C14 (vlib/c14.py); the implementation
oracle is the bookkeeping one: (#der_states + #alg_states) - #equations is unchanged by
simplify() on the generated regular models, and dae_residual_function /
initial_residual_function can be built (CasADi refuses free symbols) with one row per equation."""
from . import c14, core

THEOREMS = ["C15_square_constant_assignments", "C15_square_eliminable", "C15_square_detect_aliases",
            "C15_simplify_once_square", "C15_square", "C15_square_example", "C15_closed_substitution",
            "C15_closed_eliminable", "C15_loop_closed_form", "C15_closed_eliminable_acyclic",
            "C15_closed_constant_assignments", "C15_closed_replace_parameter_values",
            "C15_closed_replace_expressions", "C15_closed_replace_constant_values", "C15_closed_detect_aliases",
            "C15_vals_closed_checked", "C15_closed_simplify_once_partial", "C15_closed_cyclic_refuted", "C15_example"]


def run(ctx):
    core.check_props(ctx, "C15.v", THEOREMS)
    c14.shared_run(ctx, c14.judge_c15, "C15")


def replay(ctx, path):
    return c14.shared_replay(ctx, path, c14.judge_c15)
