"""C01 — parse cache is transparent over any cache history."""
import ast as pyast
import json
import os
import pickle
import sqlite3
from concurrent.futures import ThreadPoolExecutor

from . import core
from .core import cq_bool, cq_list, cq_nat, cq_Z

THEOREMS = ["C01_transparent", "C01_rows_sound", "C01_transparent_reload_partial",
            "C01_transparent_refuted_dberr", "C01_transparent_refuted_uncaught", "C01_example",
            "C01_example_unrepairable"]

EXN = ["UnpicklingError", "EOFError", "AttributeError", "ModuleNotFoundError", "ImportError", "TypeError",
       "ValueError", "IndexError", "KeyError", "MemoryError", "OverflowError", "UnicodeDecodeError", "OtherExn"]
ENTRY_KINDS = ["not_pickle", "empty", "truncate", "truncate1", "bad_module", "bad_class", "bad_args",
               "pickled_none", "int_value", "null_value", "text_value", "flip"]
# right names + primary key, other declared types/affinities: usable by SELECT/INSERT, rejected by the layout check
RETYPE_KINDS = ["models_lasthit_text", "models_lasthit_real", "models_data_text", "models_hash_blob", "models_untyped"]
LAYOUT_KINDS = (["models_dropped", "models_wrong", "models_extra", "models_view", "meta_dropped", "meta_wrong", "meta_emptied"]
                + RETYPE_KINDS)
LAYOUT_COQ = {"models_dropped": "LModelsDropped", "models_wrong": "LModelsWrong", "models_extra": "LModelsExtra",
              "models_view": "LModelsView",
              "meta_dropped": "LMetaDropped", "meta_wrong": "LMetaWrong", "meta_emptied": "LMetaEmptied"}
LAYOUT_COQ.update({k: "LModelsExtra" for k in RETYPE_KINDS})
# the expected layout with ONE column declared differently (every column in turn; other affinity, NOT NULL, DEFAULT)
_COLS = {"models": [("txt_hash", "TEXT"), ("pymoca_version", "TEXT"), ("data", "BLOB"), ("last_hit", "TIMESTAMP INTEGER")],
         "metadata": [("key", "TEXT"), ("value", "TEXT")]}
RETYPE_POOL = []
for _t, _cs in _COLS.items():
    for _c, _d in _cs:
        for _decl in ["TEXT", "BLOB", "INTEGER", "REAL", "", _d + " NOT NULL", _d + " DEFAULT 0"] + \
                (["DATETIME TEXT", "VARCHAR(32)", "INTEGER"] if _c == "last_hit" else []):
            if _decl != _d and "retype:%s:%s:%s" % (_t, _c, _decl) not in RETYPE_POOL:
                RETYPE_POOL.append("retype:%s:%s:%s" % (_t, _c, _decl))


def layout_coq(kind):
    if kind.startswith("retype:models"):
        return "LModelsExtra"       # usable by SELECT/INSERT, rejected by the layout check
    if kind.startswith("retype:metadata"):
        return "LMetaWrong"
    return LAYOUT_COQ[kind]
FILE_KINDS = ["delete", "zero", "truncate", "garbage", "directory"]
BREAKING = ({("layout", "models_dropped"), ("layout", "models_wrong"), ("layout", "models_view")}
            | {("file", k) for k in FILE_KINDS})
LOCK_MODES = ["reserved", "exclusive", "release"]
MUTATE_KINDS = ["add_class", "extend", "rename_first", "clear_classes"]   # the caller edits the returned tree in place
KNOWN_TAG_LASTHIT = "lasthit-text-affinity-after-init-same-process"
SWAP = "index_swap_restart"   # rowids behind two keys of the primary-key index swapped, then a process restart
DAY = 86400 * 10**6
DAYS_COMMON = [0, 1, 1, 2, 30, 30, 30]
# flag extremes.  On /repo HEAD the cut-off now - days*86400e6 is handed to SQLite as an INTEGER, so parse() is total
# for |days| up to ~1.06e8 (int64 microseconds, ~292 000 years); beyond that sqlite3 raises OverflowError, from
# 1e9 days on (and for inf/nan) datetime.timedelta itself raises - same on HEAD, mirrored: not generated.  Floats
# are accepted by the API and generated.
DAYS_EXTREME = [29, 31, 365, 10**4, 740000, 10**6, 10**7, 10**8, -1, -30, -10**6, -10**8, 0.5, 1e-9, 2.5, -0.5]
KNOWN_TAG = "db-fault-after-init-same-process"


# ---------------------------------------------------------------------------
# T7: caught-exception tables read off the source (fail-closed)
# ---------------------------------------------------------------------------
def _resolve(node):
    import builtins
    mods = {"pickle": pickle, "sqlite3": sqlite3}
    if node is None:
        return [BaseException]
    if isinstance(node, pyast.Tuple):
        out = []
        for e in node.elts:
            out += _resolve(e)
        return out
    if isinstance(node, pyast.Name) and isinstance(getattr(builtins, node.id, None), type):
        return [getattr(builtins, node.id)]
    if (isinstance(node, pyast.Attribute) and isinstance(node.value, pyast.Name) and node.value.id in mods
            and isinstance(getattr(mods[node.value.id], node.attr, None), type)):
        return [getattr(mods[node.value.id], node.attr)]
    raise core.Fail("except clause not recognised: %s" % pyast.dump(node))


def _calls(nodes, pred):
    for st in nodes:
        for n in pyast.walk(st):
            if isinstance(n, pyast.Call) and pred(n):
                return True
    return False


def probe_source():
    """Returns {"caught": {exn: bool}, "integrity_caught": bool, "handlers": {...}} or raises core.Fail."""
    import builtins
    src = open(os.path.join(core.REPO, "src/pymoca/parser.py")).read()
    tree = pyast.parse(src)

    def is_loads(c):
        return isinstance(c.func, pyast.Attribute) and c.func.attr == "loads"

    def is_integrity(c):
        return (isinstance(c.func, pyast.Attribute) and c.func.attr == "execute" and c.args
                and isinstance(c.args[0], pyast.Constant) and isinstance(c.args[0].value, str)
                and "integrity_check" in c.args[0].value)
    tries_loads = [n for n in pyast.walk(tree) if isinstance(n, pyast.Try) and _calls(n.body, is_loads)]
    tries_integ = [n for n in pyast.walk(tree) if isinstance(n, pyast.Try) and _calls(n.body, is_integrity)]
    n_loads = sum(1 for n in pyast.walk(tree) if isinstance(n, pyast.Call) and is_loads(n))
    if n_loads == 1 and not tries_loads:
        # one level of indirection: the single loads() sits in a module-level helper whose body has no try of its own,
        # and that helper is called exactly once in the module, inside a try (e.g. an lru_cache'd _unpickle_tree)
        helpers = [f for f in tree.body if isinstance(f, pyast.FunctionDef) and _calls(f.body, is_loads)
                   and not any(isinstance(n, pyast.Try) for n in pyast.walk(f))]
        if len(helpers) == 1:
            def is_helper(c, name=helpers[0].name):
                return isinstance(c.func, pyast.Name) and c.func.id == name
            if sum(1 for n in pyast.walk(tree) if isinstance(n, pyast.Call) and is_helper(n)) == 1:
                tries_loads = [n for n in pyast.walk(tree) if isinstance(n, pyast.Try) and _calls(n.body, is_helper)]
    if len(tries_loads) != 1 or n_loads != 1:
        raise core.Fail("expected exactly one pickle.loads inside exactly one try (found %d calls, %d try)"
                        % (n_loads, len(tries_loads)))
    if len(tries_integ) != 1:
        raise core.Fail("expected exactly one try around PRAGMA integrity_check (found %d)" % len(tries_integ))

    busy = []

    def is_busy_guard(test, name):
        """exactly: isinstance(<name>, sqlite3.OperationalError) and "locked" in str(<name>)"""
        if not (name and isinstance(test, pyast.BoolOp) and isinstance(test.op, pyast.And) and len(test.values) == 2):
            return False
        a, b = test.values
        ok_a = (isinstance(a, pyast.Call) and isinstance(a.func, pyast.Name) and a.func.id == "isinstance"
                and len(a.args) == 2 and not a.keywords
                and isinstance(a.args[0], pyast.Name) and a.args[0].id == name
                and isinstance(a.args[1], pyast.Attribute) and isinstance(a.args[1].value, pyast.Name)
                and a.args[1].value.id == "sqlite3" and a.args[1].attr == "OperationalError")
        ok_b = (isinstance(b, pyast.Compare) and len(b.ops) == 1 and isinstance(b.ops[0], pyast.In)
                and isinstance(b.left, pyast.Constant) and b.left.value == "locked" and len(b.comparators) == 1
                and isinstance(b.comparators[0], pyast.Call) and isinstance(b.comparators[0].func, pyast.Name)
                and b.comparators[0].func.id == "str" and len(b.comparators[0].args) == 1
                and isinstance(b.comparators[0].args[0], pyast.Name) and b.comparators[0].args[0].id == name)
        return ok_a and ok_b

    def handler_classes(t, allow_busy_reraise=False):
        out = []
        for h in t.handlers:
            raises = [n for st in h.body for n in pyast.walk(st) if isinstance(n, pyast.Raise)]
            if raises:
                # the one recognised shape (integrity check only): a bare `raise` as the whole body of an
                # else-less top-level `if` guarded by the "database is locked" test = the BUSY class, which the
                # single-process histories of C01 never produce; every other DatabaseError is still handled
                guards = [st for st in h.body if isinstance(st, pyast.If) and is_busy_guard(st.test, h.name)
                          and not st.orelse and len(st.body) == 1 and isinstance(st.body[0], pyast.Raise)
                          and st.body[0].exc is None]
                if not (allow_busy_reraise and len(raises) == 1 and len(guards) == 1 and guards[0].body[0] is raises[0]):
                    continue  # a handler that re-raises (in any other way) does not catch
                busy.append("OperationalError with 'locked' in its message is re-raised")
            out += _resolve(h.type)
        return out
    hl = handler_classes(tries_loads[0])
    hi = handler_classes(tries_integ[0], allow_busy_reraise=True)
    caught = {}
    for e in EXN:
        if e == "OtherExn":
            caught[e] = any(h in (Exception, BaseException) for h in hl)
        else:
            cls = pickle.UnpicklingError if e == "UnpicklingError" else getattr(builtins, e)
            caught[e] = any(issubclass(cls, h) for h in hl)
    return {"caught": caught,
            "integrity_caught": any(issubclass(sqlite3.DatabaseError, h) for h in hi),
            "handlers": {"pickle.loads": [h.__name__ for h in hl], "integrity_check": [h.__name__ for h in hi],
                         "integrity_check_excluded_busy_class": busy}}


# ---------------------------------------------------------------------------
# generators
# ---------------------------------------------------------------------------
GOOD = [
    "model {M}\n  parameter Real {a} = {n};\n  Real {b}(start={k});\nequation\n  der({b}) = -{a} * {b};\nend {M};\n",
    "model {M}\n  Real {a}, {b};\nequation\n  {a} = {n} * time;\n  {b} = sin({a}) + {k};\nend {M};\n",
    "package {M}\n  connector C\n    Real e;\n    flow Real f;\n  end C;\n  model Q\n    C {a}, {b};\n  equation\n"
    "    connect({a}, {b});\n  end Q;\nend {M};\n",
    "model {M}\n  parameter Integer n = {k};\n  Real {a}[n];\nequation\n  for i in 1:n loop\n    {a}[i] = i * {n};\n"
    "  end for;\nend {M};\n",
    "function {M}\n  input Real {a};\n  output Real {b};\nalgorithm\n  {b} := if {a} > {n} then {a} else -{a};\nend {M};\n",
    "model {M} \"café {k}\"\n  Real {a}(min={n});\n  Boolean {b};\nequation\n  {b} = {a} > {k};\n  {a} = time;\nend {M};\n",
    "within {M};\nmodel W\n  extends {M}.Base({a}={n});\n  Real {b} = {k};\nend W;\n",
]
BROKEN = [
    "model {M}\n  parameter Real {a} {b};\nend {M};\n",
    "model {M}\n  Real {a};\nequation\n  {a} = ;\nend {M};\n",
    "model {M}\n  Real {a};\nequation\n  {a} = {n};\n",
    "model {M}\n  Real {a}\n  Real {b};\nequation\n  {a} = {b} +* {n};\nend {M};\n",
    "modle {M}\n  Real {a};\nend {M};\n",
]


def families(rng):
    """Families of DIFFERENT texts that a too-tolerant cache key would identify (validates the model's assumption
    'key = text'): members differ only by trailing blanks, line terminators, blank lines, BOM, case, inner blanks,
    non-ASCII characters, Unicode normal form, or far behind a long common prefix.  Some members have a syntax error
    while their sibling has not, some parse to different trees (string literal contents, commented-out code); what
    each member really is comes from the real uncached parser at run time."""
    a, b = rng.sample(["x", "y", "z", "u", "v", "w", "p", "q"], 2)
    M = rng.choice(["A", "B", "Tank", "Sys"])
    k = rng.randint(2, 9)
    lit = ("model %s\n  parameter String banner = \"first line   \n  second %d\";\n  Real %s;\nequation\n  %s = %d;\nend %s;\n"
           % (M, k, a, a, k, M))
    seps = ["\x0c", "\x0b", "\x1c", "\x1d", "\x1e", "\x85", "\u2028", "\u2029", "\r"]
    sep1, sep2 = rng.sample(seps, 2)
    com = "model %s // helper\n  Real %s;\n  Real %s;\nend %s;\n" % (M, a, b, M)
    clo = "model %s Real %s = %d; // closing\nend %s;\n" % (M, a, k, M)
    plain = "model %s\n  Real %s(start=%d);\nequation\n  der(%s) = -%s;\nend %s;\n" % (M, a, k, a, a, M)
    uni = "model %s \"caf\u00e9 %d\"\n  Real %s;\nequation\n  %s = time;\nend %s;\n" % (M, k, a, a, M)
    longc = "// " + "filler " * 1300 + "\n"
    fams = [
        [lit, lit.replace("first line   \n", "first line\n"), lit.replace("first line   \n", "first line\t\n"),
         lit.replace("\n", "\r\n"), lit.replace("first line   \n", "first line   \r"), lit.replace("   \n  second", "   " + sep1 + "  second")],
        [com, com.replace("helper\n", "helper" + sep1), com.replace("helper\n", "helper" + sep2), com.replace("helper\n", "helper  \n")],
        [clo, clo.replace("closing\n", "closing" + sep1), clo.replace("closing\n", "closing" + sep2), clo.replace("closing\n", "closing \r\n")],
        [plain, "\n\n" + plain, plain + "\n\n", plain[:-1], "\ufeff" + plain, plain.replace("\n", " \n"), plain.replace("\n", "\r\n"),
         plain.replace("\n", "\r")],
        [plain, plain.replace("Real " + a, "Real " + a.upper()), plain.replace("  Real", "\tReal"), plain.replace("der(", "der ("),
         plain.replace("end %s;" % M, "end %s" % M), plain.lower()],
        [uni, uni.replace("caf\u00e9", "cafe\u0301"), uni.replace("caf\u00e9", "caf"), uni.replace("caf\u00e9", "caf?"),
         uni.replace("caf\u00e9 %d" % k, "caf\u00e9  %d" % k), uni.replace("caf\u00e9", "CAF\u00c9")],
        [longc + plain, longc + plain.replace("start=%d" % k, "start=%d" % (k + 1)), longc + plain.replace("end %s;" % M, "end;")],
    ]
    out = []
    for f in fams:
        g = []
        for t in f:
            if t not in g:
                g.append(t)
        out.append(g)
    return out


def family_corpus(rng):
    """every member of a family parsed against the same cache folder, in several orders, with reloads between"""
    cases = []
    for f in families(rng):
        n = len(f)
        order = list(range(n))
        P = lambda t: ["parse", t, 30, 0]  # noqa: E731
        hs = [[P(t) for t in order] + [P(t) for t in order],
              [P(t) for t in reversed(order)] + [P(0)]]
        sh = order[:]
        rng.shuffle(sh)
        h3 = []
        for t in sh:
            h3 += [P(t), ["reload"]] if rng.random() < 0.4 else [P(t)]
        hs.append(h3 + [P(t) for t in sh])
        cases += [{"texts": f, "ops": h} for h in hs]
    return cases


def gen_texts(rng):
    """4 texts that should parse + 2 with a syntax error (what the real parser says is recorded per run)."""
    def fill(t):
        names = rng.sample(["x", "y", "z", "u", "v", "w", "p", "q", "r1", "s_2", "alpha", "T"], 2)
        return t.format(M=rng.choice(["A", "B", "Tank", "M1", "Sys"]), a=names[0], b=names[1],
                        n=rng.choice(["1", "2.5", "3e-2", "10"]), k=rng.randint(1, 9))
    texts = [fill(t) for t in rng.sample(GOOD, 4)] + [fill(t) for t in rng.sample(BROKEN, 2)]
    if rng.random() < 0.6:       # two siblings of one normalisation family among the texts
        fam = rng.choice(families(rng))
        texts[2:4] = rng.sample(fam, 2)
    out = []
    for t in texts:  # distinct texts (distinct keys)
        while t in out:
            t += "\n"
        out.append(t)
    return out


def _first_use(ops):
    """no parse since the start of the process / the last restart: the next parse runs the once-per-process block"""
    for o in reversed(ops):
        if o[0] == "parse":
            return False
        if o[0] == "reload" or (o[0] == "file" and o[1] == SWAP):
            return True
    return True


def gen_history(rng, texts, nops, with_locks=False):
    nt = len(texts)
    ops = []
    parsed = []
    for _ in range(nops):
        x = rng.random()
        if x < 0.46 or not ops:
            ti = rng.choice(parsed) if parsed and rng.random() < 0.55 else rng.randrange(nt)
            first_use = _first_use(ops)
            days = rng.choice(DAYS_EXTREME) if rng.random() < (0.5 if first_use else 0.15) else rng.choice(DAYS_COMMON)
            ops.append(["parse", ti, days, int(rng.random() < 0.35)])
            if rng.random() < 0.12:
                ops.append(["mutate", rng.choice(MUTATE_KINDS)])
            if ti not in parsed:
                parsed.append(ti)
        elif x < 0.58:
            ops.append(["reload"])
        elif x < 0.65:
            ops.append(["setver", rng.choice([0, 0, 1, 2]), int(rng.random() < 0.2)])
        elif x < 0.74:
            ops.append(["advance", rng.choice([0, 1, DAY // 2, DAY - 1, DAY, DAY + 1, 2 * DAY, 2 * DAY + 1, 31 * DAY])])
        elif x < 0.87:
            ti = rng.choice(parsed) if parsed else rng.randrange(nt)
            ops.append(["entry", ti, rng.choice(ENTRY_KINDS), rng.randrange(100000)])
        elif x < 0.935:
            ops.append(["layout", rng.choice(RETYPE_POOL) if rng.random() < 0.3 else rng.choice(LAYOUT_KINDS)])
        elif x < 0.95 and with_locks:
            ops.append(["lock", rng.choice(LOCK_MODES)])
        else:
            ops.append(["file", rng.choice(FILE_KINDS + [SWAP, SWAP])])
    return {"texts": texts, "ops": ops}


def corpus(texts, all_retypes=True, rot=0):
    """targeted short histories: every mechanism / fault kind the property names, with and without a reload"""
    g, g2, b = 0, 1, len(texts) - 1
    P = lambda t, d=30, u=0: ["parse", t, d, u]  # noqa: E731
    hs = [[P(g), P(g), P(b), P(b), P(g2)],
          [P(b), ["reload"], P(b), P(g), P(b)],
          [P(g), ["setver", 1, 0], P(g), ["setver", 0, 0], P(g), ["setver", 0, 1], P(g), P(b), ["setver", 2, 0], P(b), P(g)],
          [P(g), P(g2), ["advance", 31 * DAY], P(g), ["reload"], P(g2), P(g)],
          [P(g), ["advance", DAY + 1], P(g), ["advance", 29 * DAY], ["reload"], P(g), P(g)],
          [P(g), ["advance", DAY], P(g, 1), ["reload"], P(g, 1), ["advance", 1], ["reload"], P(g, 1), P(g, 0)],
          [P(g, 30, 1), ["advance", 2 * DAY], ["reload"], P(g, 2, 1), ["reload"], P(g, 0, 0), ["reload"], P(g, 0, 0)]]
    for k in ENTRY_KINDS:
        hs.append([P(g), ["entry", g, k, 17], P(g), P(g)])
        hs.append([P(g), P(g2), ["entry", g, k, 4711], ["reload"], P(g2), P(g, 30, 1)])
    for fam, kinds in (("layout", LAYOUT_KINDS), ("file", FILE_KINDS)):
        for k in kinds:
            hs.append([P(g), [fam, k], P(g), P(g)])
            hs.append([P(g), [fam, k], ["reload"], P(g), P(b), P(g)])
            hs.append([[fam, k], P(g), P(g)])
            hs.append([P(g), ["reload"], [fam, k], P(g2), P(g)])
    for k in MUTATE_KINDS:    # the caller edits the tree it got, then asks for the same text again (hit and miss paths)
        hs.append([P(g), P(g), ["mutate", k], P(g), ["mutate", k], P(g), P(g2), ["mutate", k], P(g2), ["reload"], P(g),
                   ["mutate", k], P(g), P(g)])
    for k in (RETYPE_POOL if all_retypes else RETYPE_POOL[rot % 2::2]):     # a pre-existing database that differs from the expected layout in ONE column declaration
        hs.append([P(g), P(g2), ["advance", 3 * DAY], ["layout", k], ["reload"], P(g, 2), P(g2, 2), P(g, 2, 1)])
    for mode in ("reserved", "exclusive"):     # another connection holds a lock during the calls
        hs.append([P(g), P(g2), ["lock", mode], P(g), P(g, 30, 1), P(2), P(b), ["reload"], P(g), P(g2, 30, 1),
                   ["lock", "release"], P(g), P(2), P(g2)])
        hs.append([["lock", mode], P(g), P(g), ["reload"], P(g)])
        hs.append([P(g), ["lock", mode], ["entry", g, "empty", 5], ["layout", "models_wrong"], P(g), ["file", "garbage"], P(g), P(g)])
    for k in RETYPE_KINDS + ["models_view", "models_extra"]:   # miss then hit, both update flags, same process and after reload
        hs.append([P(g), P(g2), ["layout", k], P(g), P(g, 30, 1), P(2), P(2), P(2, 30, 1), P(b), ["reload"], P(2), P(2), P(g), P(g, 30, 1), P(g)])
    for d in DAYS_EXTREME:      # extremes of cache_expiration_days on the first use in a process and after a reload
        hs.append([P(g, d), P(g, d), P(b, d), ["reload"], P(g, d), ["advance", DAY], ["reload"], P(g2, d), P(g, d)])
    g3 = 2
    hs.append([P(g), P(g2), P(g3), ["file", SWAP], P(g2), P(g3), P(g)])
    hs.append([P(g), P(g2), P(g3), ["setver", 1, 0], P(g2), ["file", SWAP], P(g3), ["setver", 0, 0], P(g2), P(g3)])
    hs.append([P(g3), P(g2), P(g), P(b), ["file", SWAP], P(g), P(g2), ["entry", g, "empty", 3], P(g), P(g3)])
    return [{"texts": texts, "ops": h} for h in hs]


# ---------------------------------------------------------------------------
# property oracle on the implementation (independent of the Coq model)
# ---------------------------------------------------------------------------
def startup_facts(lay, ref, op, cur_ver, clock_us):
    if "models" not in ref:
        return ("no-reference-layout", "no reference layout could be obtained from a fresh database: %s" % ref.get("error"))
    for t in ("models", "metadata"):
        if lay.get(t) is not None and lay[t] != ref[t]:
            diff = [(a, b) for a, b in zip(lay[t], ref[t]) if a != b] or [(lay[t], ref[t])]
            return ("layout-not-restored", "table %s still has a layout other than the one a fresh cache database gets "
                    "(PRAGMA table_info: %s, expected %s)" % (t, diff[0][0], diff[0][1]))
    cutoff = clock_us - exp_us(op[2])
    for ti, ver, ty, lh in lay.get("rows") or []:
        if ty != "integer":
            return ("lasthit-not-integer", "a stored last_hit has SQLite type %s" % ty)
        mine = ti == op[1] and ver == "0.0.%d+verif" % cur_ver      # stored / refreshed by this very call
        if lh is not None and lh < cutoff and not mine:
            return ("expired-entry-not-pruned", "the row of text %d (%s) has last_hit %d us, older than the cut-off %d us"
                    % (ti, ver, lh, cutoff))
    return None


def judge(case, res):
    """None if the property holds on this history, else (tag, description, op index)."""
    if "obs" not in res:
        return ("harness-or-crash", "history could not be run: %s" % json.dumps(res)[:300], 0)
    fresh = res["fresh"]
    sig = res.get("fresh_sig") or list(range(len(fresh)))
    initialized = False       # has this process already checked the database (clean version parse since reload)
    fault_since = False       # a models-breaking fault happened while initialized, no reload since
    clean = True
    cur_ver = 0
    parsed_under = set()      # (text, version) pairs parsed so far with caching enabled
    none_injected = set()
    lasthit_text_live = False
    clock_us = 0
    lock_held = False
    ref = res.get("reference_layout") or {}
    for i, (op, ob) in enumerate(zip(case["ops"], res["obs"])):
        k = op[0]
        if k == "file":
            lock_held = False       # the harness lets go of its lock before it replaces the file
        if k == "reload" or (k == "file" and op[1] == SWAP):
            initialized, fault_since, lasthit_text_live = False, False, False
        elif k == "setver":
            clean = not op[2]
            cur_ver = op[1]
        elif k == "lock":
            lock_held = ob.get("applied") == "ok"
        elif k == "advance":
            clock_us += int(op[1])
        elif (k, op[1]) in BREAKING and k in ("layout", "file"):
            if initialized:
                fault_since = True
            lasthit_text_live = False
        elif k == "layout" and op[1].startswith("models_") and ob.get("applied") == "ok":
            # the models table now has last_hit with TEXT affinity, in a process that will not check the layout again
            lasthit_text_live = (op[1] == "models_lasthit_text" and initialized) or \
                                (lasthit_text_live and op[1] == "models_extra")
        elif k == "entry" and op[2] == "pickled_none":
            none_injected.add(op[1])
        elif k == "parse":
            want = fresh[op[1]]
            got = ob["out"]
            if got == "exc":
                if ob.get("db") and clean and initialized and fault_since:
                    return (KNOWN_TAG, "op %d: parse raised %s (%s) after the database was damaged in a process that "
                            "had already checked it" % (i, ob["cls"], ob.get("msg")), i)
                if ob["cls"] == "TypeError" and clean and initialized and lasthit_text_live:
                    return (KNOWN_TAG_LASTHIT, "op %d: parse raised TypeError (%s) on a cache hit after the models table got "
                            "a last_hit column of TEXT affinity in a process that had already checked the layout"
                            % (i, ob.get("msg")), i)
                return ("parse-raised-" + ob["cls"], "op %d: parse raised %s: %s" % (i, ob["cls"], ob.get("msg")), i)
            if got != want:
                return ("wrong-result", "op %d: parse returned %s, an uncached parse of the same text gives %s"
                        % (i, {"tree": "the same tree", "none": "None", "other": "a DIFFERENT tree/object"}[got],
                           {"tree": "a tree", "none": "None"}[want]), i)
            if clean:
                if got == "tree" and ob.get("fresh_calls") == 0 and (sig[op[1]], cur_ver) not in parsed_under:
                    return ("served-without-being-stored", "op %d: text %d was served from the cache under version %d "
                            "although no text with this tree was parsed under that version in this history (entry "
                            "of another version served)" % (i, op[1], cur_ver), i)
                parsed_under.add((sig[op[1]], cur_ver))
                lay = ob.get("layout")
                if not initialized and not lock_held and isinstance(lay, dict) and not lay.get("view"):
                    # this parse ran the once-per-process start-up block on a plain database file: afterwards the layout
                    # is exactly the one this implementation creates, last_hit values are integers, expired rows are gone
                    why = startup_facts(lay, ref, op, cur_ver, clock_us)
                    if why:
                        return (why[0], "op %d: after the start-up check %s" % (i, why[1]), i)
                initialized, fault_since = True, False
        st = ob.get("store")
        if isinstance(st, list):
            for row in st:
                ver = row[1]
                # every text of the history that has this row's key (a row no text can be attributed to is not judged)
                for ti, status in (row[3] if len(row) > 3 else ([[row[0], row[2]]] if row[0] >= 0 else [])):
                    if fresh[ti] == "none":
                        return ("failed-parse-stored", "op %d: a row exists under the key of text %d, which has a "
                                "syntax error (blob: %s)" % (i, ti, status), i)
                    if status == "other" or (status == "none" and ti not in none_injected):
                        return ("row-not-own-tree", "op %d: the row under the key of text %d (%s) unpickles to %s" %
                                (i, ti, ver, "None" if status == "none" else "something that is not that text's tree"), i)
    return None


# ---------------------------------------------------------------------------
# Coq encoding
# ---------------------------------------------------------------------------
def exp_us(days):
    """cache_expiration_days in microseconds: exact for integers of any size; a float goes through timedelta's own
    rounding to microseconds, like in _microseconds_since_epoch"""
    if isinstance(days, int):
        return int(days) * DAY
    from datetime import timedelta
    return -int(timedelta(days=-days).total_seconds() * 1e6)


def enc_exn(name):
    return name if name in EXN[:-1] else "OtherExn"


def enc_blob(s):
    if s.startswith("raises:"):
        return "(Raises %s)" % enc_exn(s[7:])
    return {"none": "PickledNone", "other": "OtherObject", "good": "OtherObject"}[s]


def enc_ver(v):
    return int(str(v).split(".")[2].split("+")[0])


def enc_store(st):
    if not isinstance(st, list):
        return "SUnreadable"
    items = []
    for row in st:
        ti, ver, status = row[0], row[1], row[2]
        if ti < 0:
            continue
        b = {"good": "BGood", "none": "BNone", "other": "BOther"}.get(status) or "(BRaises %s)" % enc_exn(status[7:])
        items.append("(%s, %s, %s)" % (cq_nat(ti), cq_nat(enc_ver(ver)), b))
    return "(SRows %s)" % cq_list(items)


def encode_case(case, res):
    sy = cq_list([cq_bool(f == "tree") for f in res["fresh"]])
    ops, obs = [], []
    for op, ob in zip(case["ops"], res["obs"]):
        k = op[0]
        out = "ONone"
        if k == "parse":
            ops.append("Parse %s %s %s" % (cq_nat(op[1]), cq_Z(exp_us(op[2])), cq_bool(op[3])))
            o = ob["out"]
            if o == "tree":
                out = "(OTree %s)" % cq_nat(op[1])
            elif o == "none":
                out = "ONoTree"
            elif o == "other":
                out = "OOther"
            elif ob.get("db"):
                out = "(ODbRaise %s)" % ("OperationalError" if "OperationalError" in ob.get("mro", []) else "DatabaseError")
            else:
                out = "(ORaise %s)" % enc_exn(ob["cls"])
        elif k == "reload":
            ops.append("Reload")
        elif k == "setver":
            ops.append("SetVersion (%s %s)" % ("Dirty" if op[2] else "Clean", cq_nat(op[1])))
        elif k == "advance":
            ops.append("Advance %s" % cq_Z(op[1]))
        elif k == "entry":
            if ob.get("applied") != "ok":
                continue            # the UPDATE did not go through (no usable table, NOT NULL constraint): nothing happened
            ops.append("CorruptEntry %s %s" % (cq_nat(op[1]), enc_blob(ob["blob"])))
        elif k == "layout":
            ops.append("CorruptLayout %s" % layout_coq(op[1]))
        elif k == "mutate":
            continue                # the returned tree is a value in the model: editing it changes nothing
        elif k == "lock":
            raise ValueError("histories with lock ops are judged by the oracle only")
        elif k == "file" and op[1] == "directory":
            ops.append("MakeDir")
        elif k == "file" and op[1] == SWAP:
            if ob.get("applied") == "ok":     # model: the file fails the integrity check, then the process restarts
                ops.append("CorruptFile")
                obs.append("(ONone, 0%%nat, %s)" % enc_store(ob.get("store")))
            ops.append("Reload")
        elif k == "file":
            ops.append({"delete": "DeleteFile", "zero": "ZeroFile"}.get(op[1], "CorruptFile"))
        obs.append("(%s, %s, %s)" % (out, cq_nat(ob.get("fresh_calls", 0)), enc_store(ob.get("store"))))
    return "(%s, %s, %s)" % (sy, cq_list(ops), cq_list(obs))


# ---------------------------------------------------------------------------
def run_impl(ctx, cases, workers=4):
    """real parse() in child processes (<= 4 at a time)"""
    if len(cases) < 40:
        return core.run_child(ctx, "c01", cases)
    n = (len(cases) + workers - 1) // workers
    chunks = [cases[i:i + n] for i in range(0, len(cases), n)]
    with ThreadPoolExecutor(max_workers=workers) as ex:
        parts = list(ex.map(lambda ch: core.run_child(ctx, "c01", ch, timeout=1500), chunks))
    return [r for p in parts for r in p]


def eval_both(ctx, pre, enc, shard=100):
    """one coqc per shard evaluating BOTH the property-level check and the model-internal one.
    Returns (bad indices property-level | None, bad indices internal | None)."""
    items, parts = [], []
    for s0 in range(0, len(enc), shard):
        part = list(range(s0, min(len(enc), s0 + shard)))
        parts.append(part)
        text = (core.HEADER + pre +
                "Fixpoint pv_bad {A} (f : A -> bool) (l : list A) (i : nat) : list nat :=\n"
                "  match l with nil => nil | cons x l' => (if f x then nil else cons i nil) ++ pv_bad f l' (S i) end.\n"
                "Definition pv_cases : list case :=\n [ %s ].\n"
                "Eval vm_compute in (pv_bad (check_case gen_caught gen_handles_dberr) pv_cases 0).\n"
                "Eval vm_compute in (pv_bad (check_case_internal gen_caught gen_handles_dberr) pv_cases 0).\n"
                % ";\n   ".join(enc[i] for i in part))
        items.append(("cases_%d" % s0, text))
    bad, bad_int = [], []
    for part, (ok, out, err) in zip(parts, core.coq_run_many(ctx, items, workers=4)):
        vals = core.coq_results(out) if ok else []
        if not ok or len(vals) < 2:
            ctx.oblige("correspondence:coqc", False, err[-1200:])
            return None, None
        bad += [part[j] for j in core.parse_nat_list(vals[-2])]
        bad_int += [part[j] for j in core.parse_nat_list(vals[-1])]
    return bad, bad_int


PROBES = [[["parse", 0, 30, 0], ["file", "garbage"], ["parse", 0, 30, 0], ["parse", 0, 30, 0]],
          [["parse", 0, 30, 0], ["file", "delete"], ["parse", 0, 30, 0], ["parse", 0, 30, 0]],
          [["parse", 0, 30, 0], ["layout", "models_wrong"], ["parse", 0, 30, 0], ["parse", 0, 30, 0]]]


def shrink(ctx, case, tag):
    """delta-debug the op list (one removal at a time, candidates batched per child run)"""
    cur = case
    for _ in range(40):
        cands = [{"texts": cur["texts"], "ops": cur["ops"][:i] + cur["ops"][i + 1:]} for i in range(len(cur["ops"]))]
        if not cands:
            break
        rs = core.run_child(ctx, "c01", cands)
        nxt = None
        for c, r in zip(cands, rs):
            v = judge(c, r)
            if v and v[0] == tag:
                nxt = c
                break
        if nxt is None:
            break
        cur = nxt
    used = sorted({op[1] for op in cur["ops"] if op[0] in ("parse", "entry")})
    remap = {t: i for i, t in enumerate(used)}
    ops = [[op[0], remap[op[1]]] + op[2:] if op[0] in ("parse", "entry") else op for op in cur["ops"]]
    small = {"texts": [cur["texts"][t] for t in used], "ops": ops}
    # dropping the unused texts must not lose the failure (a colliding sibling text may be what the store facts
    # are about): keep the full text list unless the same tag reproduces without it
    v = judge(small, core.run_child(ctx, "c01", [small])[0])
    return small if v and v[0] == tag else cur


def run(ctx):
    props_pool = ThreadPoolExecutor(max_workers=1)
    props_future = props_pool.submit(core.check_props, ctx, "C01.v", THEOREMS)   # S2, overlapped with S3's child runs
    fp, _ = core.fingerprint(os.path.join(core.REPO, "src/pymoca/parser.py"),
                             {"parse", "_check_database_structure", "_calculate_txt_hash", "_microseconds_since_epoch"})
    ctx.notes["source_fingerprint"] = {"parser.py:parse+_check_database_structure": fp}

    # ---- S1 (T7): except-clause tables from the source -------------------------------------------
    try:
        tab = probe_source()
        ctx.oblige("tie:T7-except-clauses-recognised", True)
    except (core.Fail, OSError, SyntaxError) as e:
        tab = {"caught": {e_: False for e_ in EXN}, "integrity_caught": False, "handlers": {}}
        ctx.oblige("tie:T7-except-clauses-recognised", False, str(e))
    ctx.notes["except_tables"] = tab
    if tab["handlers"].get("integrity_check_excluded_busy_class"):
        ctx.assumptions.append("the integrity-check handler re-raises sqlite3.OperationalError whose message contains "
                               "'locked' (database busy, C02's concern): not a fault of C01's list and never produced by "
                               "its single-process histories (any exception escaping parse() is still a violation for "
                               "the oracle); every other DatabaseError is routed to remove + recreate")

    # ---- cases ---------------------------------------------------------------------------------
    rng = ctx.rng
    base_texts = gen_texts(rng)
    cases = [{"texts": base_texts, "ops": p} for p in PROBES]
    n_probe = len(cases)
    cases += corpus(base_texts, all_retypes=(ctx.tier == "thorough"), rot=ctx.seed)   # quick: every other retype kind
    cases += family_corpus(rng)
    try:
        cases += json.load(open(core.VERIF + "/corpus/C01/cases.json"))
    except OSError:
        pass
    n_corpus = len(cases) - n_probe
    n_rand = ctx.scaled(160, 4000)
    max_ops = ctx.scaled(12, 24)
    texts = base_texts
    for i in range(n_rand):
        if i % 25 == 0:
            texts = gen_texts(rng)
        cases.append(gen_history(rng, texts, rng.randint(3, max_ops), with_locks=(i % 6 == 3)))
    import time as _t
    t_impl = _t.time()
    known_entries = [e for e in core.load_known(ctx.pid) if (e.get("replay") or {}).get("history")]
    n_main = len(cases)
    cases_all = cases + [e["replay"]["history"] for e in known_entries]   # S4 replays ride along
    results_all = run_impl(ctx, cases_all)
    known_results = {e["tag"]: (c, r) for e, c, r in zip(known_entries, cases_all[n_main:], results_all[n_main:])}
    results = results_all[:n_main]
    props_future.result()
    props_pool.shutdown()
    ctx.notes["timing_s"] = {"implementation_children": round(_t.time() - t_impl, 1)}
    # a case whose child died or hung is re-run once alone in a fresh child: only a reproducible
    # failure is judged (the first outcome and the watchdog traceback are kept in the evidence)
    for i, r in enumerate(results):
        if "obs" not in r:
            again = core.run_child(ctx, "c01", [cases[i]])[0]
            hang = ""
            try:
                hang = open(os.path.join(ctx.tmp, "c01_hang.txt")).read()[-1500:]
            except OSError:
                pass
            ctx.notes.setdefault("child_failures", []).append(
                {"history": cases[i]["ops"], "first": r, "rerun_ok": "obs" in again, "watchdog_traceback": hang})
            results[i] = again

    # ---- F: behaviour tables measured on the running code -----------------------------------------
    handled = []
    for c, r in zip(cases[:n_probe], results[:n_probe]):
        handled.append("obs" in r and r["obs"][2].get("out") == "tree")
    flag = all(handled)
    seen_classes = {}
    rows_seen = 0
    for c, r in zip(cases, results):
        if "obs" not in r:
            continue
        rows_seen += r.get("rows_seen", 0)
        for op, ob in zip(c["ops"], r["obs"]):
            if op[0] == "entry" and ob["blob"].startswith("raises:"):
                seen_classes.setdefault(op[2], set()).add(ob["blob"][7:])
    all_seen = sorted({x for v in seen_classes.values() for x in v})
    ctx.notes["behaviour_tables"] = {
        "handles_database_error_after_init": {"garbage": handled[0], "delete": handled[1], "models_wrong": handled[2]},
        "pickle_loads_exception_class_per_corruption_kind": {k: sorted(v) for k, v in sorted(seen_classes.items())},
    }
    ctx.oblige("vacuity:cache-rows-observed-in-sqlite-file", rows_seen > 0,
               "no row attributable to a text of the histories was ever seen in the cache database: the cache is being "
               "bypassed (dirty version?) or the key derivation is not observable (_calculate_txt_hash / sha256)")

    # ---- S2: Gen.v + Tie_C01.v --------------------------------------------------------------------
    gen = ("From Coq Require Import List.\nImport ListNotations.\nFrom PV Require Import Model.C01_cache.\n"
           "Definition gen_caught (e : exn) : bool :=\n  match e with\n%s  end.\n"
           "Definition gen_integrity_caught : bool := %s.\n"
           "Definition gen_handles_dberr : bool := %s.\n"
           "Definition gen_seen : list exn := %s.\n"
           % ("".join("  | %s => %s\n" % (e, cq_bool(tab["caught"][e])) for e in EXN),
              cq_bool(tab["integrity_caught"]), cq_bool(flag), cq_list([enc_exn(x) for x in all_seen])))
    ok, out, err = core.coq_run(ctx, "Gen", gen)
    ctx.oblige("tie:Gen.v-compiles", ok, err[-800:])
    tie_head = ("From Coq Require Import List Bool ZArith.\nImport ListNotations.\n"
                "From PV Require Import Model.C01_cache Proofs.C01_cache.\nFrom RunC01 Require Import Gen.\n")
    ties = {
        "tie:every-unpickle-exception-class-is-caught":
            "Lemma t : forall e, gen_caught e = true. Proof. intros []; vm_compute; reflexivity. Qed.\n",
        "tie:classes-raised-by-real-pickle-are-caught":
            "Lemma t : forallb gen_caught gen_seen = true. Proof. vm_compute. reflexivity. Qed.\n",
        "tie:integrity-check-catches-DatabaseError":
            "Lemma t : gen_integrity_caught = true. Proof. vm_compute. reflexivity. Qed.\n",
    }
    if flag:
        ties["tie:C01_transparent-instantiated-for-this-source"] = (
            "Lemma c : forall e, gen_caught e = true. Proof. intros []; vm_compute; reflexivity. Qed.\n"
            "Theorem C01_tied (sy : nat -> bool) (s : state) (h : list op) :\n"
            "  legal h = true -> Inv sy s -> transparent sy gen_caught gen_handles_dberr s h.\n"
            "Proof. exact (transparent_fixed sy gen_caught gen_handles_dberr c eq_refl s h). Qed.\n"
            "Print Assumptions C01_tied.\n")
    else:
        ties["tie:C01_transparent_reload-instantiated-for-this-source"] = (
            "Lemma c : forall e, gen_caught e = true. Proof. intros []; vm_compute; reflexivity. Qed.\n"
            "Theorem C01_tied (sy : nat -> bool) (s : state) (h : list op) :\n"
            "  legal h = true -> Inv sy s -> s_init s = false -> benign (s_db s) ->\n"
            "  disciplined false false (is_clean (s_ver s)) h = true ->\n"
            "  transparent sy gen_caught gen_handles_dberr s h.\n"
            "Proof. exact (transparent_reload sy gen_caught gen_handles_dberr c s h). Qed.\n"
            "Print Assumptions C01_tied.\n"
            "Theorem C01_tied_refuted (sy : nat -> bool) : exists h, legal h = true /\\\n"
            "  ~ transparent sy gen_caught gen_handles_dberr init_state h.\n"
            "Proof. exact (refuted_dberr sy gen_caught gen_handles_dberr eq_refl). Qed.\n")
    names = list(ties)
    together = tie_head + "".join("Module T%d.\n%sEnd T%d.\n" % (i, ties[n_], i) for i, n_ in enumerate(names))
    ok, out, err = core.coq_run(ctx, "Tie_C01", together)
    if ok and "Closed under the global context" in out:
        for name in names:
            ctx.oblige(name, True)
    else:  # pinpoint which side condition broke
        items = [("Tie_C01_%d" % i, tie_head + ties[name]) for i, name in enumerate(names)]
        for name, (ok, out, err) in zip(names, core.coq_run_many(ctx, items, workers=4)):
            closed = "Print Assumptions" not in ties[name] or "Closed under the global context" in out
            ctx.oblige(name, ok and closed, (err or out)[-800:])

    # ---- (a) property oracle --------------------------------------------------------------------
    opcount, kinds, nontrivial = {}, {}, set()
    n_parse = n_hit = n_raise_none = 0
    first_bad = {}
    verdict_tag = {}
    for idx, (c, r) in enumerate(zip(cases, results)):
        for op in c["ops"]:
            opcount[op[0]] = opcount.get(op[0], 0) + 1
            if op[0] in ("entry", "layout", "file"):
                kk = "%s:%s" % (op[0], op[2] if op[0] == "entry" else op[1])
                kinds[kk] = kinds.get(kk, 0) + 1
        if "obs" in r:
            for op, ob in zip(c["ops"], r["obs"]):
                if op[0] == "parse":
                    n_parse += 1
                    n_hit += int(ob.get("fresh_calls") == 0 and ob["out"] == "tree")
                    n_raise_none += int(ob["out"] == "none")
            if sum(1 for op in c["ops"] if op[0] == "parse") >= 2 and any(op[0] != "parse" for op in c["ops"]):
                nontrivial.add(json.dumps(c["ops"]))
        v = judge(c, r)
        if v:
            verdict_tag[idx] = v[0]
            first_bad.setdefault(v[0], []).append(idx)
    for tag, idxs in sorted(first_bad.items()):
        idx = min(idxs, key=lambda j: len(cases[j]["ops"]))
        c, r = cases[idx], results[idx]
        v = judge(c, r)
        known = any(e.get("tag") == tag for e in core.load_known(ctx.pid))
        small = c if known else shrink(ctx, c, tag)
        rs = r if known else core.run_child(ctx, "c01", [small])[0]
        v2 = judge(small, rs) or v
        core.report(ctx, tag, v2[1], {"history": small, "observed": rs.get("obs"), "fresh": rs.get("fresh"),
                                      "failing_histories_this_run": len(idxs),
                                      "expected": "every parse returns what parse(text, bypass_cache=True) returns; "
                                                  "no row under a failing text; rows unpickle to their own tree or fail"})

    ctx.notes["timing_s"]["until_correspondence"] = round(_t.time() - ctx.t0, 1)
    # ---- (b) correspondence, inside Coq -----------------------------------------------------------
    # not evaluated on the model: histories with lock ops (the lock of another connection is not in the model: oracle
    # only) and histories whose verdict is a LISTED known finding (the model describes the repaired behaviour)
    known_tags = {e.get("tag") for e in core.load_known(ctx.pid)}
    oracle_only = [i for i, c in enumerate(cases) if any(op[0] == "lock" for op in c["ops"])
                   or verdict_tag.get(i) in known_tags]
    ctx.notes["histories_judged_by_oracle_only"] = {
        "with_lock_ops": sum(1 for c in cases if any(op[0] == "lock" for op in c["ops"])),
        "known_finding_verdict": sum(1 for i in range(len(cases)) if verdict_tag.get(i) in known_tags)}
    idx_ok = [i for i, r in enumerate(results) if "obs" in r and i not in set(oracle_only)]
    enc = [encode_case(cases[i], results[i]) for i in idx_ok]
    pre = "From Coq Require Import ZArith List.\nImport ListNotations.\nFrom PV Require Import Model.C01_cache.\nFrom RunC01 Require Import Gen.\n"
    bad, bad_int = eval_both(ctx, pre, enc)
    mism = list(range(len(cases))) if bad is None else [idx_ok[j] for j in bad]
    crashed = [i for i, r in enumerate(results) if "obs" not in r]
    ctx.oblige("correspondence:model-vs-parser.parse", not mism and not crashed,
               "mismatching histories: %s; not run: %s" % (mism[:10], crashed[:5]))
    if (mism or crashed) and not [v for v in ctx.violations if not v["no_input"]]:
        j = (mism or crashed)[0]
        core.violation(ctx, "correspondence-broken",
                       {"correspondence": "Model/C01_cache.v check_case vs pymoca.parser.parse",
                        "first_mismatching_history": cases[j], "observed": results[j]}, no_input=True)
    ctx.notes["model_internal_agreement"] = {
        "what": "hit/miss (number of _parse calls) and the exact row set after every op; logged, not an obligation",
        "histories": len(enc), "disagreeing": None if bad_int is None else len(bad_int),
        "first": None if not bad_int else cases[idx_ok[bad_int[0]]]["ops"]}

    ctx.notes["timing_s"]["after_correspondence"] = round(_t.time() - ctx.t0, 1)
    # ---- S4 known findings ------------------------------------------------------------------------
    def still_fails(e):
        c, r = known_results.get(e["tag"]) or (e["replay"]["history"], None)
        if r is None or "obs" not in r:
            r = core.run_child(ctx, "c01", [c])[0]
        v = judge(c, r)
        return bool(v and v[0] == e["tag"])
    core.replay_known(ctx, still_fails)

    ctx.cov["evaluations"] = len(cases)
    ctx.cov["distinct_nontrivial"] = len(nontrivial)
    ctx.cov["rule"] = ("%d random histories of 3..%d ops over 6 generated texts (2 with syntax errors) + %d targeted "
                       "histories (every fault kind with/without reload) + %d behaviour probes; non-trivial = at least "
                       "two parses and one other op, distinct op lists" % (n_rand, max_ops, n_corpus, n_probe))
    ctx.cov["samples"] = [cases[n_probe]["ops"], cases[-1]["ops"][:10], base_texts[0], base_texts[-1]]
    ctx.notes["input_distribution"] = {"ops": opcount, "fault_kinds": kinds, "parses": n_parse, "cache_hits": n_hit,
                                       "parses_returning_None": n_raise_none, "rows_seen_in_sqlite": rows_seen,
                                       "histories": len(cases)}
    ctx.assumptions += [
        "_parse is a deterministic function of the text (model: section variable syntax_ok; tree = text id)",
        "start-up facts of the oracle (layout = PRAGMA table_info of a fresh database created by the same code, integer "
        "last_hit, expired rows pruned) are judged only after a parse that certainly ran the once-per-process block on a "
        "plain database file (no view named models, no lock held by the harness)",
        "the cache key is injective on texts (model: key = text id; anchored as sha256(text)): validated on every run by "
        "families of DIFFERENT texts that a tolerant key would merge (trailing blanks, CRLF/CR/LF and the other "
        "str.splitlines() separators, blank lines, BOM, case, inner blanks, non-ASCII/NFC-NFD, long common prefix), "
        "including siblings where one has a syntax error or the trees differ; collisions of SHA-256 itself are assumed away",
        "pickle.loads of a damaged value either raises or returns None; a VALID pickle of a different object placed "
        "in a row is outside the property's fault list (the model serves it: OOther) and is not generated",
        "SQLite: a file that is not a database / is truncated fails PRAGMA integrity_check with DatabaseError; "
        "page-level corruption that passes the integrity check is not modelled",
        "process restart = importlib.reload(pymoca.parser); time.time_ns and pymoca.__version__ are patched in the child",
    ]
    if not flag:
        ctx.assumptions.append("this source does NOT handle a DatabaseError after initialisation (measured): the positive "
                               "theorem used is C01_transparent_reload_partial (every database fault is followed by a "
                               "reload before the next parse); C01_transparent_refuted_dberr is the witness")


def replay(ctx, path):
    rec = json.load(open(path))
    if isinstance(rec, list):      # a findings/known.d file: replay its first entry
        rec = rec[0]
    case = rec.get("history") or rec.get("first_mismatching_history") or (rec.get("replay") or {}).get("history")
    res = core.run_child(ctx, "c01", [case])[0]
    v = judge(case, res)
    if v:
        print("replay: VIOLATED [%s] %s" % (v[0], v[1]))
        for op, ob in zip(case["ops"], res.get("obs", [])):
            print("   ", op, {k: ob[k] for k in ob if k in ("out", "cls", "msg", "blob", "fresh_calls")})
        return 1
    print("replay: property holds on this history")
    return 0
