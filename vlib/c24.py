"""C24 — SymPy backend emits code with the flat model's meaning."""
import ast as pyast
import json
from fractions import Fraction

from . import core
from .core import cq_str

THEOREMS = ["C24_meaning", "C24_meaning_expr", "C24_lists", "C24_injective", "C24_unclean_collides",
            "C24_injective_refuted", "C24_time_refuted", "C24_example"]

GEN = "/src/pymoca/backends/sympy/generator.py"

# the strings the theorems were proved for (Model/C24_sympy.v)
MODEL_FMT = ["sympy.sympify({var:s}).diff(self.t)", "({left:s}) {op:s} ({right:s})", "{op:s} ({expr:s})",
             "{tree.operator.name:s}({operand_src:s})", "{:s}", "{left:s} - ({right:s})", ",", "**"]
FMT_NAMES = ["FMT_DER", "FMT_BIN", "FMT_UN", "FMT_CALL", "FMT_PRIM", "FMT_EQ", "SEP_ARGS", "POW_PY"]

KEYS = "xuycpv"
PREFIX_OF = {"x": "state", "u": "input", "y": "output", "c": "constant", "p": "parameter"}


# ---------------------------------------------------------------------------
# independent reference: the flat classification (the property's text)
# ---------------------------------------------------------------------------
def expected_lists(syms):
    """syms: [[flat name, prefixes]] in Symbol.order.  x/u/y/c/p = the symbols carrying that prefix;
    v = the symbols without any prefix, then the outputs that are not states."""
    out = {k: [n for n, p in syms if PREFIX_OF[k] in p] for k in "xuycp"}
    out["v"] = [n for n, p in syms if not p] + [n for n, p in syms if "output" in p and "state" not in p]
    return out


class Skip(Exception):
    pass


def has_der(node):
    if node[0] == "op" and node[1] == "der":
        return True
    return any(has_der(c) for c in node[2:] if isinstance(c, list))


EPS = 1e-13          # generous bound on the relative rounding of one operation in the generated code
                     # (binary64 folding of literals, 15-digit sympy Floats)


def ref_eval(node, env, mp, d=False):
    """Evaluation of a dumped flat expression with 50-digit mpmath numbers, in DUAL numbers when d is
    set (under a der()).  Returns (value, time derivative or 0, M, E): M = sum of magnitudes of all
    intermediates, E = rigorous-style forward bound on the absolute error the emitted code may make when it
    evaluates the same expression with EPS-accurate operations (first-order propagation through + - * / ^
    and the calls).  Points where the bound is useless (ill-conditioned: huge trig arguments, cancellation
    amplified by a product, ...) raise Skip and are counted; floats of such expressions are never compared."""
    k = node[0]
    zero = mp.mpf(0)
    if k == "var":
        if node[1] == "time" and not env["decl_time"]:
            return env["t"], mp.mpf(1), abs(env["t"]), zero
        v = env["var"][node[1]]
        dv = env["der"][node[1]] if d and node[1] in env["der"] else zero
        if d and node[1] not in env["der"] and node[1] not in env["const"]:
            raise Skip("derivative of %s not supplied" % node[1])
        return v, dv, abs(v) + abs(dv), zero
    if k == "sym":
        v = env["var"][node[1]]
        return v, (env["der"].get(node[1], zero) if d else zero), abs(v), zero
    if k == "num":
        if node[2] not in ("int", "float"):
            raise Skip("literal kind " + node[2])
        f = Fraction(node[1])
        v = mp.mpf(f.numerator) / mp.mpf(f.denominator)
        return v, zero, abs(v), (EPS * abs(v) if node[2] == "float" else zero)
    try:
        if k == "op" and node[1] == "der" and len(node) == 3:
            if has_der(node[2]):
                raise Skip("nested der")
            _, dv, m, _ = ref_eval(node[2], env, mp, True)
            # inside der(): moderate values only; the symbolic derivative is evaluated with the same operations
            return dv, zero, m + abs(dv), 100 * EPS * (m + abs(dv))
        if k == "op" and len(node) == 4:
            a, da, ma, ea = ref_eval(node[2], env, mp, d)
            b, db, mb, eb = ref_eval(node[3], env, mp, d)
            o = node[1]
            dv = zero
            # sympy flattens nested sums and adds the numeric terms in its own order: the rounding of a
            # sum is bounded relative to the magnitudes of the terms, not of the result
            if o == "+":
                v, dv, e = a + b, da + db, ea + eb + EPS * (abs(a) + abs(b))
            elif o == "-":
                v, dv, e = a - b, da - db, ea + eb + EPS * (abs(a) + abs(b))
            elif o == "*":
                v, dv, e = a * b, da * b + a * db, abs(a) * eb + abs(b) * ea + ea * eb
            elif o == "/":
                if b == 0 or eb >= abs(b) / 2:
                    raise Skip("division by (nearly) zero")
                v, dv = a / b, (da * b - a * db) / (b * b)
                e = 2 * (ea + abs(v) * eb) / abs(b)
            elif o == "^":
                if a == 0 and (mp.re(b) <= 0 or ea > 0) and b != 0:
                    raise Skip("zero to a negative power / inexact zero base")
                if abs(b) > 40 or abs(a) > 1e8:
                    raise Skip("huge power")
                v = mp.power(a, b)
                if a == 0 or b == 0:
                    e = zero if ea == 0 and eb == 0 else None
                    if e is None:
                        raise Skip("power at an inexact zero")
                else:
                    if ea >= abs(a) / 2:
                        raise Skip("base known too inexactly")
                    e = 2 * abs(v) * (abs(b) * ea / abs(a) + abs(mp.log(a)) * eb)
                if d:
                    if a == 0:
                        raise Skip("derivative of a power at base 0")
                    dv = v * (db * mp.log(a) + b * da / a)
            else:
                raise Skip("operator " + o)
            if not mp.isfinite(v) or abs(v) > 1e60 or not mp.isfinite(dv) or abs(dv) > 1e60:
                raise Skip("overflow")
            return v, dv, ma + mb + abs(v) + abs(dv), e + EPS * abs(v)
        if k == "op" and len(node) == 3 and node[1] in "+-":
            a, da, ma, ea = ref_eval(node[2], env, mp, d)
            if node[1] == "-":
                a, da = -a, -da
            return a, da, ma + abs(a), ea
        if k == "call" and len(node) == 3 and node[1] == "abs":
            if d:
                raise Skip("derivative of abs")
            a, da, ma, ea = ref_eval(node[2], env, mp, d)
            return abs(a), zero, ma + abs(a), ea
        if k == "call" and len(node) == 3 and node[1] in ("sin", "cos", "tan"):
            a, da, ma, ea = ref_eval(node[2], env, mp, d)
            if abs(a) > 1e6 or ea > 1e-3:
                raise Skip("ill-conditioned trigonometric argument")
            v = getattr(mp, node[1])(a)
            dv = zero
            slope = 1 + abs(v) ** 2 if node[1] == "tan" else 1
            if d:
                dv = {"sin": lambda: mp.cos(a), "cos": lambda: -mp.sin(a),
                      "tan": lambda: 1 / mp.cos(a) ** 2}[node[1]]() * da
            if not mp.isfinite(v) or abs(v) > 1e6 or abs(dv) > 1e30:
                raise Skip("pole")
            return v, dv, ma + abs(v) + abs(dv), 2 * slope * ea * mp.exp(abs(mp.im(a))) + EPS * (abs(v) + 1)
    except ZeroDivisionError:
        raise Skip("division by zero")
    raise Skip("outside the subset: %s" % node[:2])


def repl(n):
    return n.replace(".", "__")


def collision_tag(a, b, builtins):
    """Narrow tag of a collision between two distinct flat names, from their shapes."""
    if repl(a) == repl(b):
        if "__" in a or "__" in b:
            return "mangle-collision-dot-vs-double-underscore"
        if "_." in a or "_." in b:
            return "mangle-collision-underscore-next-to-dot"
        return "mangle-collision-other"
    for s, o in ((a, b), (b, a)):
        r = repl(s)
        if r in builtins and repl(o).startswith(r) and set(repl(o)[len(r):]) == {"_"}:
            return "mangle-collision-reserved-name-underscore"
    return "mangle-collision-other"


def refs_var(node, name):
    if node[0] == "var":
        return node[1] == name
    return any(refs_var(c, name) for c in node[2:] if isinstance(c, list))


def judge(case, res):
    """Property oracle on the implementation (independent of the Coq model).
    Returns (findings [(tag, why, detail)], stats)."""
    import mpmath
    mp = mpmath.mp.clone()
    mp.dps = 50
    F = []
    st = {"evals": 0, "skipped": 0}
    if "exc" in res or "crash" in res:
        F.append(("generate-raised", "generate()/flatten raised on a model of the subset: %s" % res, {}))
        return F, st
    if res.get("exec") != "ok":
        F.append(("module-not-executable", "generated module is not valid / does not instantiate: %s" % res.get("exec"),
                  {"src_tail": res.get("src_tail")}))
        return F, st
    syms = res["syms"]
    exp = expected_lists(syms)
    objs = res["list_objs"]
    for k in KEYS:
        if len(objs[k]) != len(exp[k]):
            F.append(("list-mismatch", "list %s has %d entries %s, the flat classification gives %s"
                      % (k, len(objs[k]), objs[k], exp[k]), {}))
    if res["n_eqs"] != len(res["eqs"]):
        F.append(("equation-count", "%d emitted equations for %d flat equations" % (res["n_eqs"], len(res["eqs"])), {}))
    if F:
        return F, st
    # distinct flat variables -> distinct Python identifiers and distinct symbols (positional identification)
    by_obj = {"Symbol('t')": "<builtin time>"}
    name_obj = {}
    collided = False
    by_id, name_id = {}, {}
    for k in KEYS:
        ids = [x for x in (res["lists"].get(k) or "").split(", ") if x]
        if len(ids) != len(exp[k]):
            continue
        for n, ident in zip(exp[k], ids):
            if name_id.setdefault(n, ident) != ident:
                continue
            if ident in by_id and by_id[ident] != n:
                collided = True
                F.append((collision_tag(by_id[ident], n, res["builtins"]),
                          "distinct flat variables %s and %s are bound to the same Python identifier %s"
                          % (by_id[ident], n, ident), {"pair": [by_id[ident], n]}))
            else:
                by_id[ident] = n
    for k in KEYS:
        for n, o in zip(exp[k], objs[k]):
            if n in name_obj:
                if name_obj[n] != o:
                    F.append(("list-mismatch", "flat variable %s is two different symbols %s / %s" % (n, name_obj[n], o), {}))
                continue
            name_obj[n] = o
            if o in by_obj and by_obj[o] != n:
                other = by_obj[o]
                collided = True
                if other == "<builtin time>":
                    tag = "symbol-named-t-aliases-time"
                else:
                    tag = collision_tag(other, n, res["builtins"])
                F.append((tag, "distinct flat variables %s and %s are the same Python symbol %s" % (other, n, o),
                          {"pair": [other, n]}))
            else:
                by_obj[o] = n
    if collided:
        return F, st
    decl_time = any(n == "time" for n, _ in syms)
    for pi, pt in enumerate(case.get("points", [])):
        env = {"var": {n: mp.mpf(Fraction(v).numerator) / Fraction(v).denominator for n, v in pt["var"].items()},
               "der": {n: mp.mpf(Fraction(v).numerator) / Fraction(v).denominator for n, v in pt["der"].items()},
               "t": mp.mpf(Fraction(pt["t"]).numerator) / Fraction(pt["t"]).denominator,
               "decl_time": decl_time,
               "const": {n for n, p in syms if "parameter" in p or "constant" in p}}
        for ei, (l, r) in enumerate(res["eqs"]):
            try:
                a, _, ma, ea = ref_eval(l, env, mp)
                b, _, mb, eb = ref_eval(r, env, mp)
            except Skip as sk:
                st["skipped"] += 1
                if "ill-conditioned" in str(sk):
                    st["illcond"] = st.get("illcond", 0) + 1
                continue
            except KeyError:
                st["skipped"] += 1
                continue
            want = a - b
            tol = 4 * (ea + eb + EPS * (abs(a) + abs(b))) + mp.mpf("1e-11") * abs(want) + mp.mpf("1e-25")
            if tol > mp.mpf("1e-6") * (abs(a) + abs(b)):
                # the residual cannot be compared meaningfully at this point (cancellation / amplification)
                st["skipped"] += 1
                st["illcond"] = st.get("illcond", 0) + 1
                continue
            got = res["vals"][pi][ei]
            st["evals"] += 1
            if got[0] in ("nonnumeric", "error"):
                # sympy may refuse where the exact evaluation is fine only at singular points
                F.append(("eval-mismatch", "equation %d at point %d: generated code gives %s, flat equation gives %s"
                          % (ei, pi, got, mp.nstr(want, 20)), {"equation": ei, "point": pi, "line": res["eqlines"][ei]}))
                continue
            g = mp.mpc(mp.mpf(got[0]), mp.mpf(got[1]))
            if abs(g - want) > tol:
                tag = "eval-mismatch"
                if decl_time and (refs_var(l, "time") or refs_var(r, "time")):
                    tag = "declared-variable-named-time"
                F.append((tag, "equation %d at point %d: generated line %r evaluates to %s, lhs - rhs of the flat equation is %s"
                          % (ei, pi, res["eqlines"][ei], mp.nstr(g, 20), mp.nstr(want, 20)),
                          {"equation": ei, "point": pi, "line": res["eqlines"][ei], "flat": [l, r]}))
    return F, st


# ---------------------------------------------------------------------------
# generators
# ---------------------------------------------------------------------------
BIN = ["+", "-", "*", "/", "^"]
VALS = ["1/2", "1", "3/2", "2", "5/2", "3", "1/4", "3/4", "5/4", "7/4"]
PLAIN = ["x", "y", "z", "w", "q1", "r2", "alpha", "vel", "h"]
BUILTIN_LIKE = ["copy", "values", "psi", "get", "items", "keys", "pop", "update", "clear",   # renamed by the generator
                "print", "list", "max", "id", "len", "sum", "min"]                             # Python builtins
ODD = ["z_", "_y", "k_1", "copy_x", "t0", "Time", "self_", "a_b"]
RARE = ["copy_", "a__b", "t", "values_"]
INNER = ["b", "c_", "_d", "v", "copy"]
INST = ["a", "x_", "g", "comp"]
LITS = ["1", "2", "3", "4", "5", "0.5", "0.25", "1.5", "2.0", "1e-1", "10", "0.1", "100.0", "9.81"]
# the whole float range, incl. literals whose Python repr is in exponent notation (exponents ending in 0 too)
WIDE = ["1e-10", "1e-20", "3e-10", "1.5e-07", "1e-05", "2.5e+30", "1e16", "1e20", "1e+16", "123456789.0",
        "1234.5", "2500.0", "6.02e23", "1e-30", "7e10", "0.001", "1000000"]
SIDE = ["0", "0.0", "0", "0.0", "3", "1", "2.0", "1e-10", "0.5", "1e20"]   # literals used as a whole side


def mo(e):
    """Modelica text of an expression tree; every non-atomic operand is parenthesised."""
    k = e[0]
    if k == "v":
        return e[1]
    if k == "n":
        return e[1]
    if k == "t":
        return "time"
    if k == "d":
        return "der(%s)" % e[1]
    if k == "D":
        return "der(%s)" % mo(e[1])
    if k == "c":
        return "%s(%s)" % (e[1], mo(e[2]))
    if k == "u":
        return "%s%s" % (e[1], wrap(e[2]))
    return "%s %s %s" % (wrap(e[2]), e[1], wrap(e[3]))


def wrap(e):
    return mo(e) if e[0] in "vntdcD" else "(" + mo(e) + ")"


def nops(e):
    if e[0] in "vntd":
        return 0
    if e[0] == "D":
        return 1 + nops(e[1])
    return 1 + sum(nops(c) for c in e[2:] if isinstance(c, tuple))


def rleaf(rng, env, tame=False):
    x = rng.random()
    if x < 0.6:
        return ("v", rng.choice(env["names"]))
    if x < 0.85:
        if not tame and rng.random() < 0.3:
            return ("n", rng.choice(WIDE))
        return ("n", rng.choice(LITS))
    if x < 0.91 or not env["states"]:
        return ("t",)
    if rng.random() < 0.5:
        return ("D", dcomp(rng, 2, env))               # der() of a compound of time-varying quantities
    return ("d", rng.choice(env["states"]))


def dcomp(rng, depth, env):
    """argument of a compound der(): states, literals and time under + - * / ^2 sin cos unary minus;
    literal-only arguments (der(2*0.5): plain Python numbers in the generated code) included"""
    if rng.random() < 0.12:
        return rng.choice([("n", rng.choice(LITS)), ("b", rng.choice(["+", "*", "/", "^"]), ("n", rng.choice(LITS)), ("n", "2")),
                           ("u", "-", ("n", rng.choice(LITS)))])
    return dcomp0(rng, depth, env)


def dcomp0(rng, depth, env):
    if depth <= 0 or rng.random() < 0.15:
        x = rng.random()
        if x < 0.75:
            return ("v", rng.choice(env["states"]))
        return ("t",) if x < 0.85 else ("n", rng.choice(LITS))
    x = rng.random()
    if x < 0.7:
        return ("b", rng.choice(["+", "-", "*", "*", "/"]), dcomp0(rng, depth - 1, env), dcomp0(rng, depth - 1, env))
    if x < 0.8:
        return ("b", "^", dcomp0(rng, depth - 1, env), ("n", rng.choice(["2", "3"])))
    if x < 0.9:
        return ("u", "-", dcomp0(rng, depth - 1, env))
    return ("c", rng.choice(["sin", "cos"]), dcomp0(rng, depth - 1, env))


def rexpr(rng, depth, env, tame=False):
    if depth <= 0 or rng.random() < 0.18:
        return rleaf(rng, env, tame)
    x = rng.random()
    if x < 0.68:
        o = rng.choice(["+", "-", "*"] if tame is True else BIN)
        if o == "^":
            base = rexpr(rng, depth - 1, env, tame="base")   # no huge/tiny literals under a power
            if rng.random() < 0.6:
                ex = ("n", rng.choice(["2", "3"]))
            else:
                ex = rexpr(rng, 1, env, tame=True)
            return ("b", o, base, ex)
        return ("b", o, rexpr(rng, depth - 1, env, tame), rexpr(rng, depth - 1, env, tame))
    if x < 0.86:
        return ("u", "-" if rng.random() < 0.8 else "+", rexpr(rng, depth - 1, env, tame))
    return ("c", rng.choice(["sin", "cos", "tan", "abs"]), rexpr(rng, depth - 1, env, tame))


def make_case(rng, decls, comp, insts, eqs, states, label):
    """decls: [(prefix, name, value or None)], comp: inner variable names of class C, insts: instance names."""
    lines = []
    if insts:
        lines.append("model C")
        for v in comp:
            lines.append("  Real %s;" % v)
        lines.append("end C;")
    lines.append("model M")
    for i in insts:
        lines.append("  C %s;" % i)
    for pre, n, val in decls:
        lines.append("  %sReal %s%s;" % (pre + " " if pre else "", n, " = %s" % val if val is not None else ""))
    lines.append("equation")
    for l, r in eqs:
        lines.append("  %s = %s;" % (mo(l), mo(r)))
    lines.append("end M;")
    names = [i + "." + v for i in insts for v in comp] + [n for _, n, _ in decls]
    pts = []
    for _ in range(2):
        pts.append({"var": {n: rng.choice(VALS) for n in names},
                    "der": {n: rng.choice(VALS + ["-1", "-3/2"]) for n in states},
                    "t": rng.choice(VALS)})
    return {"text": "\n".join(lines) + "\n", "name": "M", "points": pts, "label": label,
            "n_ops": sum(nops(l) + nops(r) for l, r in eqs)}


def gen_random(rng, depth, edit=False):
    pool = PLAIN + rng.sample(BUILTIN_LIKE, 4) + rng.sample(ODD, 2)
    if rng.random() < 0.06:
        pool += rng.sample(RARE, 1)
    rng.shuffle(pool)
    nvar = rng.randint(3, 7)
    top = pool[:nvar]
    insts, comp = [], []
    if rng.random() < 0.5:
        comp = rng.sample(INNER, rng.randint(1, 3))
        insts = rng.sample(INST, rng.randint(1, 2))
    decls = []
    for n in top:
        x = rng.random()
        if x < 0.45:
            decls.append(("", n, rng.choice(LITS) if rng.random() < 0.12 else None))
        elif x < 0.6:
            decls.append(("parameter", n, rng.choice(LITS)))
        elif x < 0.7:
            decls.append(("constant", n, rng.choice(LITS)))
        elif x < 0.82:
            decls.append(("input", n, None))
        else:
            decls.append(("output", n, None))
    reals = [n for pre, n, val in decls if pre in ("", "output") and val is None] + \
            [i + "." + v for i in insts for v in comp]
    states = [n for n in reals if rng.random() < 0.4]
    names = [n for _, n, _ in decls] + [i + "." + v for i in insts for v in comp]
    env = {"names": names, "states": states}
    eqs = []
    for n in reals:
        lhs = ("d", n) if n in states else ("v", n)
        if rng.random() < 0.15:
            lhs = rexpr(rng, 2, env)                   # a general expression on the left
        rhs = rexpr(rng, depth, env)
        x = rng.random()
        if x < 0.10:
            lhs = ("n", rng.choice(SIDE))              # implicit form  0 = f,  3 = x
        elif x < 0.18:
            rhs = ("n", rng.choice(SIDE))              # f = 0
        eqs.append((lhs, rhs))
    if edit:
        # the same tree is generated, edited in place (one more variable and equation), generated again
        first = make_case(rng, decls, comp, insts, eqs, states, "edit")
        c = make_case(rng, decls + [("", "zz9", None)], comp, insts,
                      eqs + [(("v", "zz9"), rexpr(rng, 2, env))], states, "edit")
        c["edit_text"], c["text"] = c["text"], first["text"]
        return c
    return make_case(rng, decls, comp, insts, eqs, states, "random")


def gen_systematic(rng):
    """Every ordered pair (outer operator, inner construct) with the inner one as left and as right
    operand, unary signs in every position, ^ chains, calls, der, time, dotted and builtin-like names."""
    inner = [lambda a, b, o=o: ("b", o, a, b) for o in BIN] + \
            [lambda a, b: ("u", "-", a), lambda a, b: ("u", "+", a),
             lambda a, b: ("c", "sin", a), lambda a, b: ("c", "cos", ("b", "+", a, b)),
             lambda a, b: ("c", "abs", ("b", "-", a, b))]
    A, Bv, K, D = ("v", "a.b"), ("v", "y"), ("v", "copy"), ("v", "print")
    exprs = []
    for o in BIN:
        for f in inner:
            exprs.append(("b", o, f(A, Bv), K))
            exprs.append(("b", o, K, f(A, Bv) if o != "^" else f(("n", "2"), ("n", "1"))))
    for f in inner:
        exprs.append(("u", "-", f(A, D)))
        exprs.append(("c", "tan", f(A, Bv)))
    exprs += [("b", "^", ("n", "2"), ("b", "+", A, ("n", "1"))),
              ("b", "^", ("b", "^", ("n", "2"), A), ("n", "3")),
              ("b", "^", ("n", "2"), ("b", "^", A, ("n", "2"))),
              ("u", "-", ("b", "^", A, ("n", "2"))),
              ("b", "^", ("u", "-", A), ("n", "2")),
              ("b", "-", ("t",), ("b", "-", A, ("b", "-", Bv, K))),
              ("b", "/", A, ("b", "/", Bv, ("b", "*", K, ("t",)))),
              ("b", "*", ("d", "x"), ("b", "+", ("d", "x"), ("t",)))]
    cases = []
    Y, X = ("v", "y"), ("v", "x")
    n = lambda t: ("n", t)
    lit_eqs = [(n("0"), ("b", "+", A, ("b", "*", Y, K))), (n("0.0"), ("b", "-", Y, X)),
               (("b", "*", A, Y), n("0")), (("b", "-", Y, ("c", "sin", X)), n("0.0")), (n("3"), X),
               (n("1e-10"), ("b", "-", ("v", "e6"), Y)), (n("0"), ("u", "-", ("v", "e7"))),
               (("v", "e0"), ("b", "+", ("b", "*", n("1e-10"), Y), n("1e-20"))),
               (("v", "e1"), ("b", "*", n("2.5e+30"), Y)), (("v", "e2"), ("b", "+", Y, n("1e16"))),
               (("v", "e3"), ("b", "-", n("123456789.0"), ("b", "*", Y, n("0.1")))),
               (("v", "e4"), ("b", "+", n("3e-10"), Y)), (("v", "e5"), ("b", "/", n("1e20"), Y)),
               (("v", "e8"), ("b", "+", ("b", "*", n("100.0"), Y), n("2.0"))),
               (("v", "e9"), ("b", "*", ("b", "-", Y, n("2500.0")), n("1.5e-07")))]
    decls = [("", "y", None), ("parameter", "copy", "2"), ("", "x", None)] + [("", "e%d" % j, None) for j in range(10)]
    cases.append(make_case(rng, decls, ["b"], ["a"], lit_eqs, [], "systematic"))
    # der() of compounds: the trailer .diff(self.t) must apply to the whole argument
    V = lambda s_: ("v", s_)
    D = lambda e: ("D", e)
    der_eqs = [(D(("b", "*", V("m"), V("v"))), n("1")), (D(("b", "+", V("q"), V("e"))), ("t",)),
               (D(("b", "+", ("b", "*", V("a1"), V("b1")), V("c1"))), V("q")),
               (D(("b", "/", V("x"), V("y"))), n("2")), (D(("b", "^", V("x"), n("2"))), V("m")),
               (V("w"), ("b", "+", D(("b", "*", V("m"), V("v"))), ("b", "*", D(("b", "-", V("q"), V("e"))), n("2")))),
               (D(("b", "*", ("c", "sin", V("x")), V("y"))), n("0")), (D(("u", "-", V("x"))), n("3")),
               (D(("b", "*", ("t",), V("x"))), n("1")), (D(("c", "cos", ("b", "*", V("x"), V("y")))), V("w")),
               (D(("b", "*", ("b", "+", V("m"), V("v")), ("b", "-", V("q"), V("e")))), ("d", "a.b")),
               (D(("b", "-", V("y"), ("b", "/", n("1"), V("x")))), D(V("m"))),
               (V("w"), ("b", "+", D(("b", "*", n("2"), n("0.5"))), D(n("3")))),          # der of literal-only expressions
               (D(("b", "+", ("b", "^", n("2.0"), n("2")), n("1"))), ("b", "-", V("w"), D(("u", "-", n("1.5")))))]
    sts = ["m", "v", "q", "e", "a1", "b1", "c1", "x", "y", "a.b"]
    decls = [("", s_, None) for s_ in sts[:-1]] + [("", "w", None)]
    cases.append(make_case(rng, decls, ["b"], ["a"], der_eqs, sts, "systematic"))
    per = 8
    for i in range(0, len(exprs), per):
        chunk = exprs[i:i + per]
        decls = [("", "y", None), ("parameter", "copy", "2"), ("input", "print", None), ("", "x", None)] + \
                [("", "e%d" % j, None) for j in range(len(chunk))]
        eqs = [(("d", "x"), ("b", "+", ("v", "y"), ("v", "a.b"))), (("v", "y"), ("t",)), (("v", "a.b"), ("n", "3"))]
        for j, e in enumerate(chunk):
            lhs = ("v", "e%d" % j)
            if j % 4 == 3:
                lhs = ("b", "*", lhs, ("n", "2"))      # unparenthesised binary left side
            if j % 4 == 1:
                lhs = ("u", "-", lhs)
            eqs.append((lhs, e))
        cases.append(make_case(rng, decls, ["b"], ["a"], eqs, ["x"], "systematic"))
    return cases


KNOWN_TEXTS = {
    "mangle-collision-dot-vs-double-underscore":
        "model C\n  Real b;\nend C;\nmodel M\n  C a;\n  Real a__b;\nequation\n  a.b = 1;\n  a__b = 2;\nend M;\n",
    "mangle-collision-underscore-next-to-dot":
        "model C\n  Real y;\nend C;\nmodel D\n  Real _y;\nend D;\nmodel M\n  C x_;\n  D x;\nequation\n  x_.y = 1;\n  x._y = 2;\nend M;\n",
    "mangle-collision-reserved-name-underscore":
        "model M\n  Real copy;\n  Real copy_;\nequation\n  copy = 1;\n  copy_ = 2;\nend M;\n",
    "declared-variable-named-time":
        "model M\n  Real time;\n  Real x;\nequation\n  time = 2 * x;\n  der(x) = time;\nend M;\n",
    "symbol-named-t-aliases-time":
        "model M\n  parameter Real t = 2;\n  Real x;\nequation\n  der(x) = t * time;\nend M;\n",
}


def known_case(tag):
    text = KNOWN_TEXTS[tag]
    names = {"mangle-collision-dot-vs-double-underscore": ["a.b", "a__b"],
             "mangle-collision-underscore-next-to-dot": ["x_.y", "x._y"],
             "mangle-collision-reserved-name-underscore": ["copy", "copy_"],
             "declared-variable-named-time": ["time", "x"],
             "symbol-named-t-aliases-time": ["t", "x"]}[tag]
    pts = [{"var": dict(zip(names, ["3/2", "5/2"])), "der": {"x": "7/4"}, "t": "1/4"}]
    return {"text": text, "name": "M", "points": pts, "label": "known:" + tag, "n_ops": 1}


# ---------------------------------------------------------------------------
# Coq encoding
# ---------------------------------------------------------------------------
OPS = {"+": "Add", "-": "Sub", "*": "Mul", "/": "Div", "^": "Pow"}


def cs(s):
    if any(ord(c) > 126 or ord(c) < 32 for c in s):
        raise ValueError("non-ascii")
    return "(s_ %s)" % cq_str(s).replace("%string", "")


def enc(node):
    k = node[0]
    if k == "var":
        return "(EVar %s)" % cs(node[1])
    if k == "sym":
        return "(ESym %s)" % cs(node[1])
    if k == "num" and node[2] in ("int", "float"):
        f = Fraction(node[1])
        return "(ENum %s (Q2Qc ((%d) # %d)%%Q))" % (cs(node[1]), f.numerator, f.denominator)
    if k == "op" and node[1] == "der" and len(node) == 3:
        return "(EDer %s)" % enc(node[2])
    if k == "op" and len(node) == 4 and node[1] in OPS:
        return "(EBin %s %s %s)" % (OPS[node[1]], enc(node[2]), enc(node[3]))
    if k == "op" and len(node) == 3 and node[1] in "+-":
        return "(EUn %s %s)" % ("true" if node[1] == "-" else "false", enc(node[2]))
    if k == "call":
        return "(ECall %s [%s])" % (cs(node[1]), "; ".join(enc(a) for a in node[2:]))
    raise ValueError("outside the modelled subset: %r" % (node[:2],))


def encode_case(res):
    syms = "[%s]" % "; ".join("(%s, [%s])" % (cs(n), "; ".join(cs(p) for p in pre)) for n, pre in res["syms"])
    eqs = "[%s]" % "; ".join("(%s, %s)" % (enc(l), enc(r)) for l, r in res["eqs"])
    lists = "[%s]" % "; ".join(cs(res["lists"][k] if res["lists"][k] is not None else "<missing>") for k in KEYS)
    oeqs = "[%s]" % "; ".join(cs(e) for e in res["eqlines"])
    return "((Brun, %s, %s), (%s, %s))" % (syms, eqs, lists, oeqs)


PRE = ("From Coq Require Import List String Ascii QArith Qcanon.\n"
       "From PV Require Import Model.C24_sympy.\nImport ListNotations.\n"
       "Close Scope Q_scope.\nClose Scope Qc_scope.\nOpen Scope list_scope.\n")


def probe_formats(path):
    """Fail-closed probe of the format strings in SympyGenerator; None = shape not recognised."""
    try:
        tree = pyast.parse(open(path).read())
    except (OSError, SyntaxError):
        return None
    meths = {}
    for node in tree.body:
        if isinstance(node, pyast.ClassDef) and node.name == "SympyGenerator":
            for f in node.body:
                if isinstance(f, pyast.FunctionDef):
                    meths[f.name] = f

    def strs(fn, attr):
        out = []
        for n in pyast.walk(fn):
            if isinstance(n, pyast.Call) and isinstance(n.func, pyast.Attribute) and n.func.attr == attr \
                    and isinstance(n.func.value, pyast.Constant) and isinstance(n.func.value.value, str):
                out.append((n.lineno, n.col_offset, n.func.value.value))
        return [s for _, _, s in sorted(out)]
    try:
        ex = strs(meths["exitExpression"], "format")
        pr = strs(meths["exitPrimary"], "format")
        eq = strs(meths["exitEquation"], "format")
        jn = strs(meths["exitExpression"], "join")
        consts = [n.value for n in pyast.walk(meths["exitExpression"])
                  if isinstance(n, pyast.Constant) and isinstance(n.value, str)]
    except KeyError:
        return None
    if len(ex) != 4 or len(pr) != 1 or len(eq) != 1 or len(jn) != 1 or "**" not in consts or "^" not in consts:
        return None
    return ex + pr + eq + jn + ["**"]


def run(ctx):
    import time
    T = {}
    t0 = time.time()
    core.check_props(ctx, "C24.v", THEOREMS)
    T['props'] = round(time.time() - t0, 1); t0 = time.time()
    fp, _ = core.fingerprint(core.REPO + GEN, {"SympyGenerator"})
    ctx.notes["source_fingerprint"] = {"sympy/generator.py:SympyGenerator": fp}
    # ---- S1: regenerate the tables (reserved names as evaluated, format strings) and tie them ----
    b = core.run_child(ctx, "c24", [{"probe": "builtins"}])[0]
    builtins = b.get("builtins")
    if builtins is None:
        raise core.Fail("cannot import the SymPy generator: %s" % b)
    blist = "[%s]" % "; ".join(cs(x) for x in builtins)
    tie_b = (core.HEADER + PRE +
             "Example tie_builtins : BUILTINS0 = %s.\nProof. vm_compute. reflexivity. Qed.\n"
             "Example tie_time : mem TIME BUILTINS0 = false.\nProof. vm_compute. reflexivity. Qed.\n" % blist)
    fm = probe_formats(core.REPO + GEN)
    ok_b, _, err_b = core.coq_run(ctx, "Tie_C24", tie_b)
    ctx.oblige("tie:BUILTINS-as-evaluated = BUILTINS0, time not reserved", ok_b, err_b[-600:])
    if fm is not None:
        # compared here and re-checked inside Coq together with the first shard of cases (tie_fmt)
        ctx.oblige("tie:format-strings-of-generator.py = strings the theorems were proved for", fm == MODEL_FMT,
                   "source has %r" % (fm,))
    else:
        ctx.notes["format_probe"] = ("shape of exitExpression/exitPrimary/exitEquation not recognised; the printer is tied "
                                     "by string correspondence only")
    T['tie'] = round(time.time() - t0, 1); t0 = time.time()
    # ---- cases ----
    cases = []
    try:
        cases += json.load(open(core.VERIF + "/corpus/C24/cases.json"))
    except OSError:
        pass
    n_corpus = len(cases)
    sysc = gen_systematic(ctx.rng)
    cases += sysc
    n_rand = ctx.scaled(40, 700)
    for i in range(n_rand):
        cases.append(gen_random(ctx.rng, ctx.rng.randint(2, ctx.scaled(4, 5))))
    for i in range(ctx.scaled(8, 60)):
        cases.append(gen_random(ctx.rng, 3, edit=True))
    known_inputs = [(e.get("tag"), (e.get("replay") or {}).get("input")) for e in core.load_known(ctx.pid)]
    known_inputs = [(t, c) for t, c in known_inputs if c]
    allres = core.run_child(ctx, "c24", cases + [c for _, c in known_inputs], timeout=ctx.scaled(600, 3000))
    results = allres[:len(cases)]
    known_now = {}
    for (t, c), r in zip(known_inputs, allres[len(cases):]):
        known_now[t] = any(tag == t for tag, _, _ in judge(c, r)[0]) if not r.get("parse_failed") else None
    T['child'] = round(time.time() - t0, 1); t0 = time.time()
    # ---- (a) property oracle ----
    evals = skipped = illcond = 0
    shapes = set()
    labels = {}
    harness_bad = []
    for c, r in zip(cases, results):
        labels[c.get("label", "?")] = labels.get(c.get("label", "?"), 0) + 1
        if r.get("parse_failed") or r.get("edit_ok") is False:
            harness_bad.append(c["text"][:300])
            continue
        F, st = judge(c, r)
        evals += st["evals"]
        skipped += st["skipped"]
        illcond += st.get("illcond", 0)
        for tag, why, detail in F:
            core.report(ctx, tag, why, {"input": c, "detail": detail})
        for line in r.get("eqlines", []):
            if sum(line.count(o) for o in "+-*/") >= 2:
                shapes.add(line)
    ctx.oblige("harness:generated-models-parse", not harness_bad, "; ".join(harness_bad[:2]))
    T['judge'] = round(time.time() - t0, 1); t0 = time.time()
    # ---- (b) correspondence, evaluated inside Coq ----
    enc_cases, idx, outside = [], [], 0
    for i, r in enumerate(results):
        if "eqlines" not in r:
            continue
        try:
            enc_cases.append(encode_case(r))
            idx.append(i)
        except ValueError:
            outside += 1
    pre = PRE + "Definition Brun : list str := %s.\n" % blist
    if fm is not None and fm == MODEL_FMT:
        pre += ("Example tie_fmt : (%s) = (%s).\nProof. reflexivity. Qed.\n"
                % (", ".join(FMT_NAMES), ", ".join(cq_str(x) for x in fm)))
    bad = core.coq_eval_cases(ctx, "gen", pre, "case", enc_cases, "check_case", shard=40)
    ok = bad == []
    ctx.oblige("correspondence:model-vs-SympyGenerator (list lines, equation lines, token spelling)", ok,
               "mismatching cases: %s" % (None if bad is None else [idx[j] for j in bad[:10]]))
    if bad and not [v for v in ctx.violations if not v["no_input"]]:
        i = idx[bad[0]]
        core.violation(ctx, "correspondence-broken",
                       {"correspondence": "Model/C24_sympy.v check_case vs generator.generate",
                        "input": cases[i], "observed": {k: results[i].get(k) for k in ("lists", "eqlines")}},
                       no_input=True)
    T['coq_cases'] = round(time.time() - t0, 1); t0 = time.time()
    ctx.notes['timing_s'] = T
    # ---- S4 ----
    core.replay_known(ctx, lambda e: known_now.get(e.get("tag")))
    ctx.cov["evaluations"] = evals + sum(len(r.get("eqlines", [])) + 6 for r in results)
    ctx.cov["distinct_nontrivial"] = len(shapes)
    ctx.cov["rule"] = ("%d systematic models (every ordered pair outer operator x inner construct, both operand "
                       "positions, unary signs, ^ chains, calls, der, time, dotted and builtin-like names) + %d random "
                       "models + %d generate/edit-in-place/generate-again sequences on one tree + %d corpus; each emitted list line and equation line compared with the Coq printer, "
                       "each equation of the executed module evaluated at 2 rational points against lhs - rhs of the "
                       "flat equation (%d evaluations, %d skipped: division by zero / overflow / outside subset); "
                       "non-trivial = distinct emitted equation lines with >= 2 operators"
                       % (len(sysc), n_rand, ctx.scaled(8, 60), n_corpus, evals, skipped))
    ctx.cov["samples"] = sorted(shapes, key=len)[len(shapes) // 2: len(shapes) // 2 + 3] or ["(none)"]
    ctx.notes["input_distribution"] = {"models": labels, "evaluation_points_skipped": skipped,
                                       "of_which_ill_conditioned_not_compared": illcond, "cases_outside_modelled_subset": outside,
                                       "operators_total": sum(c.get("n_ops", 0) for c in cases)}
    ctx.assumptions += [
        "token level: the step from the emitted characters to Python tokens (Python's tokenizer) is not modelled; the "
        "emitted line is proved to be the concatenation of the token spellings (C24_meaning part 1) and the real "
        "Python parser/sympy is exercised by the oracle on every generated model",
        "powers and sin/cos/tan are uninterpreted in the theorems (same function on both sides); der() is modelled on "
        "variables only; start values (x0/p0/c0/u0 dictionaries) and compute_fg are not part of the property",
        "subset = flat scalar Real models; calls sin/cos/tan (the functions the generated module imports); variable "
        "names that shadow names the generated module itself uses (self, sympy, mech, sin, cos, tan, OdeModel) are "
        "outside the generated inputs",
        "oracle: equality of evaluations up to 1e-9 relative to the sum of intermediate magnitudes (the generated code "
        "folds literal sub-expressions in binary64 before sympy sees them)",
    ]


def still_fails(ctx):
    def f(entry):
        rp = entry.get("replay") or {}
        case = rp.get("input")
        if not case:
            return None
        r = core.run_child(ctx, "c24", [case])[0]
        F, _ = judge(case, r)
        return any(tag == entry.get("tag") for tag, _, _ in F)
    return f


def replay(ctx, path):
    rec = json.load(open(path))
    case = rec.get("input") or (rec.get("replay") or {}).get("input")
    if not case:
        print("replay: no input recorded in", path)
        return 1
    r = core.run_child(ctx, "c24", [case])[0]
    F, _ = judge(case, r)
    for tag, why, _ in F:
        print("replay: [%s] %s" % (tag, why))
    if not F:
        print("replay: property holds on this model")
    return 1 if F else 0
