"""C14 — simplification preserves the DAE's solutions (shared harness with C15).

Generated Modelica models are BUILT to have a known unique solution (triangular-bijective and
small affine non-singular blocks in the algebraic variables, with alias chains, signed aliases,
constant assignments, parameter/constant expressions and eliminable `_e = expr` equations, states
with der(x) = f).  The real Model.simplify() runs on each (model, option set) in a child process.
(a) ORACLE: at the constructed solution the simplified residual vanishes, every recorded
elimination holds, the Jacobian w.r.t. the remaining unknowns has full rank; or an exception /
warning was reported.  (b) CORRESPONDENCE: the serialised pre-simplification model is fed to the
Gallina `simplify` (Model/C14_simplify.v) inside coqc and compared with the real result."""
import json
from fractions import Fraction as F

from . import core
from .core import cq_bool, cq_list, cq_pos

THEOREMS = ["C14_subst_sound", "C14_pass_replace_parameter_values", "C14_pass_constant_assignments",
            "C14_pass_eliminable_forward_partial", "C14_substitution_step_partial", "C14_alias_shapes_partial",
            "C14_slow_path_refuted", "C14_pass_replace_expressions", "C14_pass_eliminable",
            "C14_pass_replace_constant_values_partial", "C14_pass_eliminable_states_partial", "C14_dexpr_is_derivative", "C14_alias_add_sound", "C14_pass_detect_aliases",
            "C14_simplify_once_preserves", "C14_preserves", "C14_preserves_example", "C14_example"]

MODELLED_BOOL = ["replace_parameter_expressions", "replace_constant_expressions",
                 "eliminate_constant_assignments", "replace_parameter_values", "replace_constant_values",
                 "detect_aliases", "allow_derivative_aliases", "iterative_simplification", "expand_mx"]
UNMODELLED = ["expand_vectors", "resolve_parameter_values", "factor_and_simplify_equations",
              "reduce_affine_expression"]
ELIM_RE = r"_e\w*"
TAG_SEGV = "cyclic-eliminable-assignments-segfault"
TAG_FREE = "cyclic-eliminable-assignments-free-symbols"
TAG_AFFINE = "reduce-affine-with-initial-equations-free-state-vectors"
TAG_CONTRA = "contradictory-alias-pair-dropped"
TAG_DER = "eliminated-helper-derivative-dropped"


# ---------------------------------------------------------------------------
# generator
# ---------------------------------------------------------------------------
def dy(rng, lo=-3, hi=3, den=2, nonzero=False):
    while True:
        v = F(rng.randint(lo * den, hi * den), den)
        if v != 0 or not nonzero:
            return v


def num(v):
    """Modelica literal of a dyadic rational (parenthesised when negative)"""
    s = repr(float(v))
    return "(%s)" % s if v < 0 else s


def gen_expr(rng, avail, val, allow_time=True, maxterms=3):
    """random polynomial expression of degree <= 2 over `avail`; returns (text, exact value, names used)"""
    terms, used = [], []
    for _ in range(rng.randint(1, maxterms)):
        k = rng.random()
        if k < 0.3 and avail:
            w = rng.choice(avail)
            c = dy(rng, nonzero=True)
            terms.append(("%s * %s" % (num(c), w), c * val[w]))
            used.append(w)
        elif k < 0.5 and avail:
            w = rng.choice(avail)
            terms.append((w, val[w]))
            used.append(w)
        elif k < 0.62 and avail:
            w1, w2 = rng.choice(avail), rng.choice(avail)
            terms.append(("%s * %s" % (w1, w2), val[w1] * val[w2]))
            used += [w1, w2]
        elif k < 0.72 and len(avail) >= 2:
            w1, w2 = rng.choice(avail), rng.choice(avail)
            c = dy(rng, nonzero=True)
            terms.append(("%s * (%s + %s)" % (num(c), w1, w2), c * (val[w1] + val[w2])))
            used += [w1, w2]
        elif k < 0.8 and allow_time:
            terms.append(("time", val["time"]))
            used.append("time")
        elif k < 0.88 and avail:
            w = rng.choice(avail)
            terms.append(("(-%s)" % w, -val[w]))
            used.append(w)
        else:
            c = dy(rng, nonzero=True)
            terms.append((num(c), c))
    text, total = terms[0]
    for t, v in terms[1:]:
        if rng.random() < 0.3:
            text, total = "%s - %s" % (text, t), total - v
        else:
            text, total = "%s + %s" % (text, t), total + v
    return text, total, used


def gen_model(rng, big=False):
    val = {"time": dy(rng, 0, 3)}
    decl, eqs, ieqs = [], [], []
    kinds = {}
    known = []           # declared non-unknown symbols usable in expressions
    # parameters
    params = []
    for i in range(rng.randint(0, 3)):
        n = "p%d" % (i + 1)
        k = rng.random()
        if params and k < 0.35:
            b = rng.choice(params)
            c = dy(rng, nonzero=True)
            if rng.random() < 0.5:
                decl.append("parameter Real %s = %s + %s;" % (n, b, num(c)))
                val[n] = val[b] + c
            else:
                decl.append("parameter Real %s = %s * %s;" % (n, num(c), b))
                val[n] = c * val[b]
            kinds["param_expr"] = kinds.get("param_expr", 0) + 1
        elif k < 0.45:
            decl.append("parameter Real %s;" % n)
            val[n] = dy(rng, nonzero=True)
            kinds["param_unset"] = kinds.get("param_unset", 0) + 1
        else:
            val[n] = dy(rng, nonzero=rng.random() < 0.8)
            decl.append("parameter Real %s = %s;" % (n, num(val[n]).strip("()")))
            kinds["param"] = kinds.get("param", 0) + 1
        params.append(n)
    consts = []
    for i in range(rng.randint(0, 2)):
        n = "c%d" % (i + 1)
        if consts and rng.random() < 0.4:
            b = rng.choice(consts)
            c = dy(rng, nonzero=True)
            decl.append("constant Real %s = %s * %s;" % (n, num(c), b))
            val[n] = c * val[b]
            kinds["const_expr"] = kinds.get("const_expr", 0) + 1
        else:
            val[n] = dy(rng, nonzero=True)
            decl.append("constant Real %s = %s;" % (n, num(val[n]).strip("()")))
            kinds["const"] = kinds.get("const", 0) + 1
        consts.append(n)
    inputs = []
    for i in range(rng.randint(0, 1)):
        n = "u%d" % (i + 1)
        decl.append("input Real %s;" % n)
        val[n] = dy(rng, nonzero=True)
        inputs.append(n)
    states = []
    for i in range(rng.randint(0, 2)):
        n = "x%d" % (i + 1)
        decl.append("Real %s;" % n)
        val[n] = dy(rng, nonzero=True)
        states.append(n)
    known = params + consts + inputs + states
    avail = list(known)
    unknowns = []
    elim_graph = {}
    n_alg = rng.randint(2, 10 if big else 7)
    i = 0
    while i < n_alg:
        i += 1
        k = rng.random()
        algs = [a for a in unknowns if not a.startswith("der(")]
        if k < 0.14:
            # constant assignment
            n = "a%d" % i
            v = dy(rng)
            form = rng.choice(["%s = %s", "%s = %s", "%s + %s = 0", "%s - %s = 0"])
            if form == "%s = %s" and rng.random() < 0.3:
                eqs.append("%s = %s" % (num(v), n))
            elif form == "%s + %s = 0":
                eqs.append("%s + %s = 0" % (n, num(-v)))
            else:
                eqs.append(form % (n, num(v)))
            val[n] = v
            kinds["const_assign"] = kinds.get("const_assign", 0) + 1
        elif k < 0.44 and avail:
            # alias of an existing symbol (any category), either sign, several spellings
            n = "a%d" % i
            w = rng.choice(algs) if algs and rng.random() < 0.65 else rng.choice(avail)
            form = rng.choice(["%(n)s = %(w)s", "%(w)s = %(n)s", "%(n)s - %(w)s = 0", "0 = %(n)s - %(w)s",
                               "%(n)s = -%(w)s", "%(n)s + %(w)s = 0", "-%(n)s = %(w)s", "%(w)s + %(n)s = 0",
                               "2 * %(n)s = 2 * %(w)s", "%(n)s = 2 * %(w)s", "3 * %(n)s = 3 * %(w)s"])
            neg = form in ("%(n)s = -%(w)s", "%(n)s + %(w)s = 0", "-%(n)s = %(w)s", "%(w)s + %(n)s = 0")
            eqs.append(form % {"n": n, "w": w})
            val[n] = 2 * val[w] if form == "%(n)s = 2 * %(w)s" else (-val[w] if neg else val[w])
            kinds["alias_neg" if neg else "alias"] = kinds.get("alias_neg" if neg else "alias", 0) + 1
        elif k < 0.62:
            # eliminable variable
            n = "_e%d" % i
            text, v, used = gen_expr(rng, avail, val)
            form = rng.choice(["%(n)s = %(e)s", "%(n)s = %(e)s", "%(e)s = %(n)s", "%(n)s + %(m)s = 0"])
            if form == "%(n)s + %(m)s = 0":
                eqs.append("%s + %s = 0" % (n, num(-v)))
                used = []
            else:
                eqs.append(form % {"n": n, "e": text})
            val[n] = v
            elim_graph[n] = [u for u in used if u.startswith("_e")]
            kinds["eliminable"] = kinds.get("eliminable", 0) + 1
        elif k < 0.72 and i < n_alg:
            # 2x2 affine non-singular block
            n1, n2 = "a%d" % i, "a%d" % (i + 1)
            i += 1
            while True:
                A = [[dy(rng, -2, 2, 1) for _ in range(2)] for _ in range(2)]
                if A[0][0] * A[1][1] - A[0][1] * A[1][0] != 0 and all(A[r][c] != 0 for r in range(2) for c in range(2)):
                    break
            val[n1], val[n2] = dy(rng), dy(rng)
            for r in range(2):
                b = A[r][0] * val[n1] + A[r][1] * val[n2]
                eqs.append("%s * %s + %s * %s = %s" % (num(A[r][0]), n1, num(A[r][1]), n2, num(b)))
            decl.append("Real %s;" % n1)
            unknowns.append(n1)
            avail.append(n1)
            n = n2
            kinds["block2"] = kinds.get("block2", 0) + 1
        else:
            n = "a%d" % i
            text, v, used = gen_expr(rng, avail, val)
            eqs.append(("%s = %s" if rng.random() < 0.8 else "%s - (%s) = 0") % (n, text))
            val[n] = v
            kinds["expr"] = kinds.get("expr", 0) + 1
        decl.append("Real %s;" % n)
        unknowns.append(n)
        avail.append(n)
    for x in states:
        text, v, used = gen_expr(rng, avail, val)
        eqs.append("der(%s) = %s" % (x, text))
        val["der(%s)" % x] = v
        unknowns.append("der(%s)" % x)
        if rng.random() < 0.7:
            w = rng.choice(avail)
            ieqs.append("%s = %s + %s" % (x, w, num(val[x] - val[w])))
    if states and rng.random() < 0.3:
        # an algebraic variable that aliases a derivative
        i += 1
        n = "a%d" % i
        x = rng.choice(states)
        eqs.append("%s = der(%s)" % (n, x))
        val[n] = val["der(%s)" % x]
        decl.append("Real %s;" % n)
        unknowns.append(n)
        kinds["alias_der"] = kinds.get("alias_der", 0) + 1
    rng.shuffle(eqs)
    text = "model M\n  %s\nequation\n  %s;\n%send M;\n" % (
        "\n  ".join(decl), ";\n  ".join(eqs),
        ("initial equation\n  %s;\n" % ";\n  ".join(ieqs)) if ieqs else "")
    return {"text": text, "cls": "M", "val": val, "kinds": kinds, "n_unknowns": len(unknowns),
            "elim_graph": elim_graph, "names": sorted(val)}


ALIAS_FORMS = [("%(n)s = %(w)s", False), ("%(w)s = %(n)s", False), ("%(n)s - %(w)s = 0", False),
               ("%(w)s - %(n)s = 0", False), ("0 = %(n)s - %(w)s", False), ("%(n)s = -%(w)s", True),
               ("%(w)s = -%(n)s", True), ("%(n)s + %(w)s = 0", True), ("%(w)s + %(n)s = 0", True),
               ("-%(n)s = %(w)s", True), ("0 = %(w)s + %(n)s", True)]


def gen_alias_model(rng, affine=False, late=False):
    """ALIAS-GRAPH stream: a forest of alias equations (every orientation, sign and spelling, any
    equation order) over algebraic variables, der(states), states, inputs, parameters and constants
    that stay symbolic.  Every unknown (algebraic variable or der(x)) is defined by exactly one
    equation, so the solution is unique; non-eliminable variables get linked twice, an algebraic
    variable is equated to two different non-eliminable ones (`der(x) = a; a = u`), groups get a new
    canonical variable later (`a = b; b = u; a = c`)."""
    val = {"time": dy(rng, 0, 3)}
    decl, eqs, ieqs, kinds = [], [], [], {"alias_graph": 1}
    anchors = []
    for i in range(rng.randint(1 if affine else 0, 2)):
        n = "p%d" % (i + 1)
        val[n] = dy(rng, nonzero=True)
        if rng.random() < 0.3:
            decl.append("parameter Real %s;" % n)
        else:
            decl.append("parameter Real %s = %s;" % (n, num(val[n]).strip("()")))
        anchors.append(n)
    for i in range(rng.randint(0, 2)):
        n = "c%d" % (i + 1)
        val[n] = dy(rng, nonzero=True)
        decl.append("constant Real %s = %s;" % (n, num(val[n]).strip("()")))
        anchors.append(n)
    for i in range(rng.randint(0, 2)):
        n = "u%d" % (i + 1)
        val[n] = dy(rng, nonzero=True)
        decl.append("input Real %s;" % n)
        anchors.append(n)
    states = []
    for i in range(rng.randint(0, 2)):
        n = "x%d" % (i + 1)
        val[n] = dy(rng, nonzero=True)
        decl.append("Real %s;" % n)
        anchors.append(n)
        states.append(n)
    todo = ["a%d" % (i + 1) for i in range(rng.randint(2, 6))] + ["der(%s)" % x for x in states]
    rng.shuffle(todo)
    defined = []
    for n in todo:
        k = rng.random()
        is_der = n.startswith("der(")
        if not is_der:
            decl.append("Real %s;" % n)
        if k < 0.12 and not is_der:
            v = dy(rng)
            eqs.append(rng.choice(["%s = %s", "%s - %s = 0"]) % (n, num(v)))
            val[n] = v
            kinds["const_assign"] = kinds.get("const_assign", 0) + 1
        elif k < (0.5 if affine else 0.2) and (defined or anchors):
            if affine:
                # affine in the unknowns/states/inputs; the COEFFICIENT is a number, a parameter, a
                # constant or a product of them (stays symbolic unless a replace_* option is on)
                pcs = [a for a in anchors if a[0] in "pc"]
                xs = [a for a in defined + anchors if a[0] not in "pc"] or defined + anchors
                w = rng.choice(xs)
                kk = rng.random()
                if pcs and kk < 0.75:
                    fac = [rng.choice(pcs)]
                    if rng.random() < 0.4:
                        fac.append(rng.choice(pcs))
                    if rng.random() < 0.3:
                        fac.insert(0, num(dy(rng, nonzero=True)))
                    cv = F(1)
                    for f in fac:
                        cv *= val[f] if f in val else F(float(f.strip("()")))
                    ctext = " * ".join(fac)
                    kinds["symbolic_coefficient"] = kinds.get("symbolic_coefficient", 0) + 1
                else:
                    cv = dy(rng, nonzero=True)
                    ctext = num(cv)
                if rng.random() < 0.5:
                    text = "%s * %s" % (ctext, w)
                else:
                    text = "%s * %s" % (w, ctext)
                v = cv * val[w]
            else:
                text, v, _ = gen_expr(rng, defined + anchors, val, allow_time=False, maxterms=2)
            eqs.append("%s = %s + 1.0" % (n, text))
            val[n] = v + 1
            kinds["expr"] = kinds.get("expr", 0) + 1
        elif defined or anchors:
            pool = defined if (defined and (rng.random() < 0.6 or not anchors)) else anchors
            w = rng.choice(pool)
            form, neg = rng.choice(ALIAS_FORMS)
            eqs.append(form % {"n": n, "w": w})
            val[n] = -val[w] if neg else val[w]
            kk = ("alias_neg" if neg else "alias") + ("_der" if is_der or w.startswith("der(") else "")
            kinds[kk] = kinds.get(kk, 0) + 1
        else:
            v = dy(rng)
            eqs.append("%s = %s" % (n, num(v)))
            val[n] = v
        defined.append(n)
    n_late = 0
    if late:
        # MULTI-PASS: an alias that only appears in pass 2+.  `b = [-]w` forms a group in pass 1;
        # `d = b -/+ w + k` collapses to the constant assignment d = k once b is eliminated;
        # eliminate_constant_assignments + replace_constant_values of the NEXT pass turn
        # `c = w + d - k` (or `c = d * w`, `c = d - w`) into an alias that attaches the new algebraic
        # variable c to the group of w (w: input, state, der, parameter, constant or algebraic)
        for j in range(rng.randint(1, 2)):
            w = rng.choice(anchors) if anchors and rng.random() < 0.75 else rng.choice(defined)
            b, d, c = "b%d" % (j + 1), "d%d" % (j + 1), "e%d" % (j + 1)
            neg = rng.random() < 0.4
            form, _ = rng.choice([f for f in ALIAS_FORMS if f[1] == neg])
            eqs.append(form % {"n": b, "w": w})
            val[b] = -val[w] if neg else val[w]
            shape = rng.choice(["sum0", "sumk", "prod1", "negsum0"])
            k = {"sum0": F(0), "negsum0": F(0), "prod1": F(1), "sumk": dy(rng, nonzero=True)}[shape]
            dtext = "%s %s %s" % (b, "+" if neg else "-", w)
            if k != 0:
                dtext += " + %s" % num(k)
            eqs.append("%s = %s" % (d, dtext))
            val[d] = k
            if shape == "sum0":
                ctext, cv = rng.choice(["%s + %s" % (w, d), "%s + %s" % (d, w)]), val[w]
            elif shape == "sumk":
                ctext, cv = "%s + %s - %s" % (w, d, num(k)), val[w]
            elif shape == "prod1":
                ctext, cv = rng.choice(["%s * %s" % (d, w), "%s * %s" % (w, d)]), val[w]
            else:
                ctext, cv = "%s - %s" % (d, w), -val[w]
            eqs.append(rng.choice(["%s = %s", "%s = %s"]) % (c, ctext) if rng.random() < 0.7
                       else "%s = %s" % (ctext, c))
            val[c] = cv
            for n in (b, d, c):
                decl.append("Real %s;" % n)
            n_late += 3
            kinds["late_alias_" + shape] = kinds.get("late_alias_" + shape, 0) + 1
    for x in states:
        if rng.random() < 0.5:
            w = rng.choice(defined)
            ieqs.append("%s = %s + %s" % (x, w, num(val[x] - val[w])))
    rng.shuffle(eqs)
    text = "model M\n  %s\nequation\n  %s;\n%send M;\n" % (
        "\n  ".join(decl), ";\n  ".join(eqs),
        ("initial equation\n  %s;\n" % ";\n  ".join(ieqs)) if ieqs else "")
    return {"text": text, "cls": "M", "val": val, "kinds": kinds, "n_unknowns": len(todo) + n_late,
            "elim_graph": {}, "names": sorted(val)}


def gen_contra_model(rng):
    """a variable forced to zero by two alias equations of opposite sign (`a = b; a + b = 0`), in
    every spelling / order, inside a small regular model"""
    val = {"time": dy(rng, 0, 3), "a1": F(0), "a2": F(0)}
    decl = ["Real a1;", "Real a2;"]
    f1, n1 = rng.choice(ALIAS_FORMS)
    while True:
        f2, n2 = rng.choice(ALIAS_FORMS)
        if n2 != n1:
            break
    a, b = ("a1", "a2") if rng.random() < 0.5 else ("a2", "a1")
    eqs = [f1 % {"n": "a1", "w": "a2"}, f2 % {"n": a, "w": b}]
    avail = ["a1", "a2"]
    for i in range(3, rng.randint(3, 5) + 1):
        n = "a%d" % i
        decl.append("Real %s;" % n)
        if rng.random() < 0.5:
            w = rng.choice(avail)
            f, neg = rng.choice(ALIAS_FORMS)
            eqs.append(f % {"n": n, "w": w})
            val[n] = -val[w] if neg else val[w]
        else:
            w, c = rng.choice(avail), dy(rng, nonzero=True)
            eqs.append("%s = %s * %s + 1.0" % (n, num(c), w))
            val[n] = c * val[w] + 1
        avail.append(n)
    rng.shuffle(eqs)
    text = "model M\n  %s\nequation\n  %s;\nend M;\n" % ("\n  ".join(decl), ";\n  ".join(eqs))
    return {"text": text, "cls": "M", "val": val, "kinds": {"contradictory_alias": 1}, "n_unknowns": len(avail),
            "elim_graph": {}, "names": sorted(val), "contra": True}


def gen_forced_zero_model(rng):
    """two algebraic variables aliased (either sign) to a NON-ELIMINABLE anchor w (der(x), state, input,
    unset parameter) plus an alias equation between them that contradicts those signs, so that the anchor
    is forced to zero (`a = w; b = w; a + b = 0` is really 2*w = 0).  Regular when the anchor is der(x);
    for a state / input / parameter anchor the third equation is a constraint on a known (not square, the
    balance must still be unchanged).  Every value is 0."""
    kind = rng.choice(["der", "der", "state", "input", "param"])
    val = {"time": dy(rng, 0, 3)}
    decl, eqs = [], []
    if kind in ("der", "state"):
        decl.append("Real x1;")
        val["x1"] = F(0) if kind == "state" else dy(rng, nonzero=True)
        w = "der(x1)" if kind == "der" else "x1"
        val["der(x1)"] = F(0) if kind == "der" else dy(rng)
        if kind == "state":
            eqs.append("der(x1) = %s" % num(val["der(x1)"]))
    elif kind == "input":
        decl.append("input Real u1;")
        w = "u1"
    else:
        decl.append("parameter Real p1;")
        w = "p1"
    val[w] = F(0)
    f1, n1 = rng.choice(ALIAS_FORMS)
    f2, n2 = rng.choice(ALIAS_FORMS)
    f3 = rng.choice([f for f in ALIAS_FORMS if f[1] == (n1 == n2)])[0]    # a = [-]b contradicting n1, n2
    a, b = ("a1", "a2") if rng.random() < 0.5 else ("a2", "a1")
    eqs += [f1 % {"n": "a1", "w": w}, f2 % {"n": "a2", "w": w}, f3 % {"n": a, "w": b}]
    val["a1"] = val["a2"] = F(0)
    decl += ["Real a1;", "Real a2;"]
    avail = ["a1", "a2"]
    for i in range(3, rng.randint(3, 4) + 1):
        n = "a%d" % i
        decl.append("Real %s;" % n)
        v, c = rng.choice(avail), dy(rng, nonzero=True)
        eqs.append("%s = %s * %s + 1.0" % (n, num(c), v))
        val[n] = c * val[v] + 1
        avail.append(n)
    rng.shuffle(eqs)
    text = "model M\n  %s\nequation\n  %s;\nend M;\n" % ("\n  ".join(decl), ";\n  ".join(eqs))
    return {"text": text, "cls": "M", "val": val, "kinds": {"forced_zero_" + kind: 1},
            "n_unknowns": len(avail) + (1 if kind in ("der", "state") else 0), "elim_graph": {},
            "names": sorted(val), "nonsquare": kind not in ("der",)}


def gen_elim_state_model(rng):
    """an eliminable differentiated STATE `_e1` defined through a chain (depth 2-3) of eliminable ALGEBRAIC
    helpers (`_e1 = c1*_e2 + k1; _e2 = c2*_e3 + k2; _e3 = c3*a1 + k3`), der(_e1) used in one or two other
    equations, every equation order.  Eliminating `_e1` turns the helpers and finally `a1` into
    differentiated states (get_derivative); the constructed solution carries the derivative values."""
    depth = rng.randint(2, 3)
    val = {"time": dy(rng, 0, 3), "u1": dy(rng, nonzero=True)}
    chain = ["_e%d" % (i + 1) for i in range(depth)] + ["a1"]
    coef = [rng.choice([F(1), F(-1), F(2), F(-2), F(1, 2)]) for _ in range(depth)]
    off = [dy(rng) for _ in range(depth)]
    val["a1"] = dy(rng, nonzero=True)
    val["der(a1)"] = dy(rng, nonzero=True)
    for i in range(depth - 1, -1, -1):
        val[chain[i]] = coef[i] * val[chain[i + 1]] + off[i]
        val["der(%s)" % chain[i]] = coef[i] * val["der(%s)" % chain[i + 1]]
    decl = ["input Real u1;"] + ["Real %s;" % n for n in chain] + ["Real a2;"]
    eqs = []
    for i in range(depth):
        rhs = "%s * %s" % (num(coef[i]), chain[i + 1])
        if off[i] != 0:
            rhs += " + %s" % num(off[i])
        eqs.append(rng.choice(["%s = %s" % (chain[i], rhs), "%s = %s" % (rhs, chain[i])]))
    k = val["der(_e1)"] - (val["u1"] - val["a1"])
    eqs.append("der(_e1) = u1 - a1 + %s" % num(k))
    val["a2"] = val["_e1"] + val["a1"]
    eqs.append("a2 = _e1 + a1")
    if rng.random() < 0.5:
        decl.append("Real a3;")
        val["a3"] = val["der(_e1)"] + 1
        eqs.append("a3 = der(_e1) + 1.0")
    rng.shuffle(eqs)
    text = "model M\n  %s\nequation\n  %s;\nend M;\n" % ("\n  ".join(decl), ";\n  ".join(eqs))
    return {"text": text, "cls": "M", "val": val, "kinds": {"eliminable_state_chain_%d" % depth: 1},
            "n_unknowns": len(eqs), "elim_graph": {}, "names": sorted(val)}


NEARDUP = [(1514761200, 3600), (1514761200, 1800), (1000000, 0.5), (123456700, 64), (2500000, 1),
           (16777216, 8), (987654300, 0.25), (4000000, 2.5)]


def gen_neardup_case(rng):
    """scalar triangular model whose literals come from a NEAR-DUPLICATE family (pairs that agree in their
    first six significant digits), simplified through the expand_vectors + expand_mx path (SX round trip)"""
    base, delta = rng.choice(NEARDUP)
    k1, k2 = F(base), F(base) + F(delta)
    val = {"time": F(0)}
    decl, eqs = [], []
    if rng.random() < 0.6:
        decl.append("parameter Real p1 = %s;" % repr(float(k1)))
        val["p1"] = k1
        first = "p1"
    else:
        first = repr(float(k1))
    n = rng.randint(4, 6)
    consts = [k1, k2, k2, k1, k2 + F(delta), k1]
    rng.shuffle(consts)
    for i in range(1, n + 1):
        a = "a%d" % i
        decl.append("Real %s;" % a)
        kk = consts[(i - 1) % len(consts)]
        if i == 1:
            eqs.append("%s = %s + %s" % (a, first, repr(float(delta))))
            val[a] = k1 + F(delta)
        else:
            w = "a%d" % rng.randint(1, i - 1)
            form = rng.choice(["%(k)s - %(w)s", "%(w)s - %(k)s", "0.25 * %(w)s + %(k)s", "%(k)s + %(w)s"])
            eqs.append("%s = %s" % (a, form % {"k": repr(float(kk)), "w": w}))
            val[a] = {"%(k)s - %(w)s": kk - val[w], "%(w)s - %(k)s": val[w] - kk,
                      "0.25 * %(w)s + %(k)s": val[w] / 4 + kk, "%(k)s + %(w)s": kk + val[w]}[form]
    rng.shuffle(eqs)
    text = "model M\n  %s\nequation\n  %s;\nend M;\n" % ("\n  ".join(decl), ";\n  ".join(eqs))
    o = {"expand_vectors": True, "expand_mx": True,
         "replace_parameter_values": rng.random() < 0.4, "detect_aliases": rng.random() < 0.4,
         "eliminate_constant_assignments": rng.random() < 0.3, "replace_constant_values": rng.random() < 0.3}
    return {"text": text, "cls": "M", "options": o, "point": {k: float(v) for k, v in val.items()}, "points": [],
            "meta": {"kinds": {"near_duplicate_constants": 1}, "n_unknowns": n, "elim_graph": {}}}


def gen_matrix_case(rng):
    """rank-2, non-square, non-symmetric matrix parameters / constants whose values are expressions in other
    parameters (`gain * B`, `B + C`), used through `A * x` and element-wise, under expand_vectors"""
    r, c = rng.choice([(2, 3), (3, 2)])
    gain = dy(rng, 1, 3, 1, nonzero=True)

    def mat():
        vals = rng.sample([F(k, 2) for k in range(1, 40) if k != 2], r * c)
        return [[vals[i * c + j] for j in range(c)] for i in range(r)]
    B, C = mat(), mat()
    kindA = rng.choice(["gain*B", "B+C", "gain*B+C"])
    A = [[{"gain*B": gain * B[i][j], "B+C": B[i][j] + C[i][j], "gain*B+C": gain * B[i][j] + C[i][j]}[kindA]
          for j in range(c)] for i in range(r)]
    lit = lambda M: "{" + ", ".join("{" + ", ".join(repr(float(v)) for v in row) + "}" for row in M) + "}"
    cq = "constant" if rng.random() < 0.3 else "parameter"
    decl = ["parameter Real gain = %s;" % repr(float(gain)),
            "parameter Real B[%d,%d] = %s;" % (r, c, lit(B)),
            "%s Real C[%d,%d] = %s;" % (cq, r, c, lit(C)),
            "parameter Real A[%d,%d] = %s;" % (r, c, {"gain*B": "gain * B", "B+C": "B + C", "gain*B+C": "gain * B + C"}[kindA]),
            "Real x[%d];" % c, "Real y[%d];" % r, "Real z;"]
    x = [dy(rng, -3, 3, 2, nonzero=True) for _ in range(c)]
    y = [sum(A[i][j] * x[j] for j in range(c)) for i in range(r)]
    eqs = ["y = A * x"]
    for j in range(c):
        eqs.append("x[%d] = %s" % (j + 1, num(x[j])))
    i0, j0, i1, j1 = rng.randrange(r), rng.randrange(c), rng.randrange(r), rng.randrange(c)
    z = A[i0][j0] * x[j0] + B[i1][j1]
    eqs.append("z = A[%d,%d] * x[%d] + B[%d,%d]" % (i0 + 1, j0 + 1, j0 + 1, i1 + 1, j1 + 1))
    rng.shuffle(eqs)
    text = "model M\n  %s\nequation\n  %s;\nend M;\n" % ("\n  ".join(decl), ";\n  ".join(eqs))
    pt = {"time": 0.0, "gain": float(gain), "z": float(z),
          "x": [float(v) for v in x], "y": [float(v) for v in y]}
    for nm, M in (("A", A), ("B", B), ("C", C)):
        pt[nm] = [[float(v) for v in row] for row in M]
        for i in range(r):
            for j in range(c):
                pt["%s[%d,%d]" % (nm, i + 1, j + 1)] = float(M[i][j])
    for j in range(c):
        pt["x[%d]" % (j + 1)] = float(x[j])
    for i in range(r):
        pt["y[%d]" % (i + 1)] = float(y[i])
    emx = rng.random() < 0.5
    o = {"expand_vectors": True, "expand_mx": emx,
         "replace_parameter_expressions": rng.random() < 0.5, "replace_parameter_values": rng.random() < 0.5,
         "replace_constant_values": emx and rng.random() < 0.4,
         "replace_constant_expressions": emx and rng.random() < 0.3}
    return {"text": text, "cls": "M", "options": o, "point": pt, "points": [],
            "meta": {"kinds": {"matrix_parameter_" + kindA: 1}, "n_unknowns": r + c + 1, "elim_graph": {},
                     "arrays": True, "singular": True}}


def gen_two_groups_model(rng):
    """ORDERED alias groups: first a group of 2-4 algebraic variables (algebraic canonical), then a group of 1-3
    algebraic variables anchored at an input / state / unset parameter, then ONE linking alias equation between a
    member of each, either side first, with negations.  Everything equals +-anchor."""
    kind = rng.choice(["input", "input", "state", "param"])
    val = {"time": dy(rng, 0, 3)}
    decl, eqs = [], []
    if kind == "input":
        decl.append("input Real u1;"); w = "u1"
    elif kind == "state":
        decl.append("Real x1;"); w = "x1"
        val["der(x1)"] = dy(rng)
    else:
        decl.append("parameter Real p1;"); w = "p1"
    val[w] = dy(rng, nonzero=True)
    k1, k2 = rng.randint(2, 4), rng.randint(1, 3)
    g1 = ["a%d" % (i + 1) for i in range(k1)]
    g2 = ["d%d" % (i + 1) for i in range(k2)]
    sign = {}
    # group 2 first fixes the signs relative to the anchor; group 1 gets its signs through the link
    e2 = []
    prev = [w]
    sign[w] = 1
    for n in g2:
        t = rng.choice(prev)
        f, neg = rng.choice(ALIAS_FORMS)
        e2.append(f % {"n": n, "w": t})
        sign[n] = -sign[t] if neg else sign[t]
        prev.append(n)
    m1, m2 = rng.choice(g1), rng.choice(g2)
    f, neg = rng.choice(ALIAS_FORMS)
    link = f % ({"n": m1, "w": m2} if rng.random() < 0.5 else {"n": m2, "w": m1})
    sign[m1] = -sign[m2] if neg else sign[m2]
    # group 1: a spanning tree rooted at m1, written in the order the tree is grown
    e1, done, todo = [], [m1], [n for n in g1 if n != m1]
    rng.shuffle(todo)
    for n in todo:
        t = rng.choice(done)
        f1, neg1 = rng.choice(ALIAS_FORMS)
        e1.append(f1 % {"n": n, "w": t})
        sign[n] = -sign[t] if neg1 else sign[t]
        done.append(n)
    for n in g1 + g2:
        decl.append("Real %s;" % n)
        val[n] = sign[n] * val[w]
    order = rng.random()
    eqs = e1 + e2 + [link] if order < 0.6 else (e2 + e1 + [link] if order < 0.8 else None)
    if eqs is None:
        eqs = e1 + e2 + [link]
        rng.shuffle(eqs)
    if kind == "state":
        eqs.append("der(x1) = %s" % num(val["der(x1)"]))
    text = "model M\n  %s\nequation\n  %s;\nend M;\n" % ("\n  ".join(decl), ";\n  ".join(eqs))
    return {"text": text, "cls": "M", "val": val, "kinds": {"two_alias_groups_" + kind: 1},
            "n_unknowns": k1 + k2 + (1 if kind == "state" else 0), "elim_graph": {}, "names": sorted(val)}


def gen_typed_alias_model(rng):
    """Integer variables aliased to Real ones and to each other, both orientations and signs"""
    val = {"time": dy(rng, 0, 3)}
    decl, eqs = [], []
    root = rng.randint(-4, 4)
    names = []
    n_var = rng.randint(3, 5)
    for i in range(n_var):
        typ = rng.choice(["Integer", "Real"]) if i else rng.choice(["Integer", "Integer", "Real"])
        n = ("n%d" if typ == "Integer" else "r%d") % (i + 1)
        decl.append("%s %s;" % (typ, n))
        if i == 0:
            eqs.append("%s = %d" % (n, root))
            val[n] = F(root)
        else:
            w = rng.choice(names)
            f, neg = rng.choice(ALIAS_FORMS)
            eqs.append(f % {"n": n, "w": w})
            val[n] = -val[w] if neg else val[w]
        names.append(n)
    rng.shuffle(eqs)
    text = "model M\n  %s\nequation\n  %s;\nend M;\n" % ("\n  ".join(decl), ";\n  ".join(eqs))
    return {"text": text, "cls": "M", "val": val, "kinds": {"typed_alias": 1}, "n_unknowns": n_var,
            "elim_graph": {}, "names": sorted(val)}


def gen_alias_options(rng):
    o = {"detect_aliases": True,
         "eliminate_constant_assignments": rng.random() < 0.5,
         "replace_constant_values": rng.random() < 0.25,
         "replace_parameter_values": rng.random() < 0.25,
         "replace_parameter_expressions": rng.random() < 0.2,
         "replace_constant_expressions": rng.random() < 0.2,
         "allow_derivative_aliases": rng.random() < 0.8,
         "iterative_simplification": rng.random() < 0.3,
         "expand_mx": rng.random() < 0.3}
    return o


def gen_options(rng, force=None):
    o = {}
    for k in MODELLED_BOOL:
        if k == "allow_derivative_aliases":
            o[k] = rng.random() < 0.7
        elif k == "iterative_simplification":
            o[k] = rng.random() < 0.3
        elif k == "expand_mx":
            o[k] = rng.random() < 0.3
        else:
            o[k] = rng.random() < 0.5
    if rng.random() < 0.5:
        o["eliminable_variable_expression"] = ELIM_RE
        if rng.random() < 0.93:
            o["expand_mx"] = True
    if force:
        o.update(force)
    return o


def all_option_sets():
    """every combination of the 8 modelled decision options x eliminable on/off"""
    keys = [k for k in MODELLED_BOOL if k != "expand_mx"]
    out = []
    for bits in range(1 << len(keys)):
        for el in (False, True):
            o = {k: bool(bits >> j & 1) for j, k in enumerate(keys)}
            o["expand_mx"] = el
            if el:
                o["eliminable_variable_expression"] = ELIM_RE
            out.append(o)
    return out


def make_case(rng, mdl, options):
    val = mdl["val"]
    pts = []
    for _ in range(2):
        pts.append({n: float(dy(rng, -2, 2, 2)) for n in mdl["names"]})
    return {"text": mdl["text"], "cls": "M", "options": options,
            "point": {n: float(v) for n, v in val.items()}, "points": pts,
            "meta": {"kinds": mdl["kinds"], "n_unknowns": mdl["n_unknowns"], "elim_graph": mdl["elim_graph"]}}


CYCLIC_SEGV = {
    "text": "model M\n  Real _e1;\n  Real _e2;\n  Real a3;\nequation\n  _e1 = _e2 + 1;\n  _e2 = 2 - _e1;\n  a3 = _e1 + _e2;\nend M;\n",
    "cls": "M", "options": {"eliminable_variable_expression": ELIM_RE, "expand_mx": True},
    "point": {"time": 0.0, "_e1": 1.5, "_e2": 0.5, "a3": 2.0}, "points": [],
    "meta": {"kinds": {"cyclic": 1}, "n_unknowns": 3, "elim_graph": {"_e1": ["_e2"], "_e2": ["_e1"]}}}


CYCLIC_OSC = {
    "text": "model M\n  Real _e1;\n  Real _e2;\n  Real a3;\nequation\n  _e1 = _e2;\n  _e2 = _e1;\n  a3 = _e1 + 1;\nend M;\n",
    "cls": "M", "options": {"eliminable_variable_expression": ELIM_RE, "expand_mx": True},
    "point": {"time": 0.0, "_e1": 1.5, "_e2": 1.5, "a3": 2.5}, "points": [{"time": 0.0, "_e1": 0.5, "_e2": -1.0, "a3": 2.0}],
    "meta": {"kinds": {"cyclic": 1}, "n_unknowns": 3, "elim_graph": {"_e1": ["_e2"], "_e2": ["_e1"]}, "singular": True}}


def has_cycle(graph):
    seen, stack = set(), set()

    def dfs(n):
        if n in stack:
            return True
        if n in seen:
            return False
        seen.add(n)
        stack.add(n)
        r = any(dfs(m) for m in graph.get(n, []) if m in graph)
        stack.discard(n)
        return r
    return any(dfs(n) for n in graph)


# ---------------------------------------------------------------------------
# oracles (independent of the Coq model)
# ---------------------------------------------------------------------------
def fr(x):
    if isinstance(x, list):
        return F(x[0], x[1])
    return None


def elim_on(case):
    return case["options"].get("eliminable_variable_expression") is not None


def limit_warning(res):
    return any("iteration limit" in w for w in res.get("warnings", []))


def generator_problem(case, res):
    if "crash" in res:
        return None
    if "exc" in res and "pre" not in res:
        return "%s at %s: %s" % (res["exc"], res.get("stage"), res.get("msg"))
    pre = res["pre"]
    for k in ("eqvals", "ieqvals"):
        if isinstance(pre[k], dict):
            return "original %s refer to %s" % (k, pre[k])
        if any(fr(v) != 0 for v in pre[k]):
            return "constructed point is not a solution of the ORIGINAL model (%s = %s)" % (k, pre[k])
    if len(pre["ders"]) + len(pre["algs"]) != len(pre["eqs"]) and not case["meta"].get("singular"):
        return "generated model is not square"
    return None


def contra_lost(case, post):
    """the generated contradictory pair a1 = a2, a1 = -a2 left no trace in the alias relation while both
    variables are still unknowns (the two equations were dropped without any record)"""
    if not case["meta"].get("contra"):
        return False
    named = set()
    for c, als in post["classes"]:
        named |= {c} | {a.lstrip("-") for a in als}
    return not ({"a1", "a2"} & named) and {"a1", "a2"} <= set(post["algs"])


def judge_c14(case, res):
    """(tag, why) or None"""
    if "crash" in res:
        cyc = elim_on(case) and has_cycle(case["meta"].get("elim_graph", {}))
        return (TAG_SEGV if cyc else "crash", "simplify() killed the interpreter (rc=%s): neither a "
                "solution-preserving result nor an exception/warning" % res["crash"])
    if "simplify_exc" in res or limit_warning(res):
        return None          # failure was reported: allowed by the property
    post = res["post"]
    pt = {k: F(v) for k, v in case["point"].items() if not isinstance(v, list)}
    if case["options"].get("reduce_affine_expression"):
        # equations are now over the state vectors: judge through the residual functions
        for which in ("dae_residual", "initial_residual"):
            r = post[which]
            if not r.get("built") or "evalexc" in r:
                return None          # nothing to evaluate: C15's subject
            bad = [x for x in r["vals"] if fr(x) is None or fr(x) != 0]
            if bad:
                return ("solution-lost", "the original solution does not satisfy the affine %s (%s)" % (which, bad[:3]))
        return None
    for k, label in (("eqvals_sol", "equations"), ("ieqvals_sol", "initial equations")):
        v = post[k]
        if isinstance(v, dict):
            cyc = elim_on(case) and has_cycle(case["meta"].get("elim_graph", {}))
            return (TAG_FREE if cyc else "free-symbol",
                    "remaining %s refer to %s, which is no longer a variable of the simplified model"
                    % (label, v.get("unknown_symbol")))
        bad = [i for i, x in enumerate(v) if fr(x) is None or fr(x) != 0]
        if bad:
            chain = any(k.startswith("eliminable_state_chain") for k in case["meta"].get("kinds", {}))
            return (TAG_DER if chain and elim_on(case) and not post["ders"] else "solution-lost",
                    "the original solution does not satisfy simplified %s #%s (residual %s)"
                    % (label, bad[:3], [v[i] for i in bad[:3]]))
    for c, als in post["classes"]:
        for a in als:
            neg = a.startswith("-")
            n = a[1:] if neg else a
            if c not in pt or n not in pt:
                return ("alias-unknown", "alias relation names an unknown symbol (%s ~ %s)" % (c, a))
            if pt[n] != (-pt[c] if neg else pt[c]):
                return ("alias-wrong", "recorded alias %s = %s%s does not hold in the original solution (%s vs %s)"
                        % (n, "-" if neg else "", c, pt[n], pt[c]))
    for n, v in post["consts"]:
        if v is not None and v[0] == "c" and n in pt and F(v[1], v[2]) != pt[n]:
            return ("constant-wrong", "recorded constant %s = %s but the original solution has %s"
                    % (n, F(v[1], v[2]), pt[n]))
    for n, v in post.get("recorded_values", []):
        if isinstance(v, list) and n in case["point"] and not isinstance(case["point"][n], list) \
                and F(v[0], v[1]) != F(case["point"][n]):
            return ("recorded-value-wrong", "remaining parameter/constant %s is recorded with value %s, the model "
                    "says %s" % (n, F(v[0], v[1]), F(case["point"][n])))
    jac = post["jac"]
    if jac.get("rank") is None:
        return ("free-symbol", "Jacobian of the simplified system cannot be evaluated: %s" % jac.get("msg"))
    if jac["rank"] < jac["n_unk"]:
        return (TAG_CONTRA if contra_lost(case, post) else "solutions-added", "simplified system has %d unknowns, %d equations, Jacobian rank %d at the "
                "solution: solutions were added" % (jac["n_unk"], jac["n_eq"], jac["rank"]))
    return None


def judge_c15(case, res):
    if "crash" in res:
        cyc = elim_on(case) and has_cycle(case["meta"].get("elim_graph", {}))
        return (TAG_SEGV if cyc else "crash", "simplify() killed the interpreter (rc=%s): no residual "
                "function can be built" % res["crash"])
    if "simplify_exc" in res:
        return None
    pre, post = res["pre"], res["post"]
    cyc = elim_on(case) and has_cycle(case["meta"].get("elim_graph", {}))
    for which in ("dae_residual", "initial_residual"):
        r = post[which]
        if not r.get("built"):
            aff = (case["options"].get("reduce_affine_expression") and pre["eqs"] and pre["ieqs"]
                   and "_vector" in r.get("msg", ""))
            return (TAG_FREE if cyc else TAG_AFFINE if aff else "residual-not-buildable",
                    "%s_function cannot be built after simplify(): %s" % (which, r.get("msg", "")[-160:]))
    if limit_warning(res):
        return None
    o = case["options"]
    keep = [("inputs", True), ("states", not elim_on(case)), ("ders", not elim_on(case)),
            ("params", not any(o.get(k) for k in ("replace_parameter_values", "replace_parameter_expressions")))]
    if case["meta"].get("arrays"):
        keep = []            # expand_vectors renames every array variable
    for k, applies in keep:
        a = [x[0] if isinstance(x, list) else x for x in pre[k]]
        b = [x[0] if isinstance(x, list) else x for x in post[k]]
        if applies and a != b:
            return ("non-eliminable-eliminated", "%s changed from %s to %s: only algebraic variables may be "
                    "eliminated by these options" % (k, a, b))
    b0 = len(pre["ders"]) + len(pre["algs"]) - len(pre["eqs"])
    n_eqs = post["dae_residual"].get("n") if o.get("reduce_affine_expression") else post["n_eqs"]
    b1 = len(post["ders"]) + len(post["algs"]) - (n_eqs or 0)
    if case["meta"].get("arrays"):
        b0 = b1          # vector-valued variables / equations before expansion: counts are not comparable
    # pymoca's own balance counts states + alg_states (= der_states + alg_states for scalar models)
    if b0 != b1 or len(post["states"]) != len(post["ders"]):
        return (TAG_CONTRA if contra_lost(case, post) else "unbalanced", "unknowns - equations changed from %d to %d (states %d, ders %d, algs %d, eqs %d)"
                % (b0, b1, len(post["states"]), len(post["ders"]), len(post["algs"]), n_eqs))
    if post["dae_residual"].get("n") != n_eqs:
        return ("residual-size", "dae residual has %s rows for %d equations" % (post["dae_residual"].get("n"), post["n_eqs"]))
    if "evalexc" in post["dae_residual"]:
        return ("residual-eval", "dae residual cannot be evaluated: %s" % post["dae_residual"])
    return None


# ---------------------------------------------------------------------------
# Coq encoding
# ---------------------------------------------------------------------------
PREAMBLE = ("From Coq Require Import ZArith QArith Qcanon List Bool PArith.\nImport ListNotations.\n"
            "From PV Require Import Model.C14_simplify.\n"
            "Definition q (n : Z) (d : positive) : Qc := Q2Qc (n # d).\n")
UN = {"neg": "Neg", "sq": "Sq", "twice": "Twice"}
BIN = {"add": "Add", "sub": "Sub", "mul": "Mul"}


class Unsupported(Exception):
    pass


def cq(n, d):
    return "(q (%d)%%Z %d%%positive)" % (n, d)


def enc_expr(t, ids):
    k = t[0]
    if k == "s":
        if t[1] not in ids:
            raise Unsupported("symbol " + t[1])
        return "(Sym %s)" % cq_pos(ids[t[1]])
    if k == "c":
        return "(Const %s)" % cq(t[1], t[2])
    if k == "u":
        return "(Un %s %s)" % (UN[t[1]], enc_expr(t[2], ids))
    if k == "b":
        return "(Bin %s %s %s)" % (BIN[t[1]], enc_expr(t[2], ids), enc_expr(t[3], ids))
    raise Unsupported(str(t[1]))


def enc_names(l, ids):
    return cq_list([cq_pos(ids[n]) for n in l])


def enc_pvals(l, ids):
    out = []
    for n, v in l:
        out.append("(%s, %s)" % (cq_pos(ids[n]), "None" if v is None else "Some %s" % enc_expr(v, ids)))
    return cq_list(out)


def encode(case, res):
    """Gallina term of type model * options * obs, or raises Unsupported"""
    import re
    pre = res["pre"]
    if pre.get("n_delay"):
        raise Unsupported("delay")
    allnames = set(case["point"]) | {"time"}
    ids = {n: i + 1 for i, n in enumerate(sorted(allnames))}
    m = "(Model %s %s %s %s %s %s %s %s [] [] false false)" % (
        enc_names(pre["states"], ids), enc_names(pre["ders"], ids), enc_names(pre["algs"], ids),
        enc_names(pre["inputs"], ids), enc_pvals(pre["consts"], ids), enc_pvals(pre["params"], ids),
        cq_list([enc_expr(e, ids) for e in pre["eqs"]]), cq_list([enc_expr(e, ids) for e in pre["ieqs"]]))
    o = case["options"]
    for k in UNMODELLED:
        if o.get(k):
            raise Unsupported("option " + k)
    rx = o.get("eliminable_variable_expression")
    if rx is None:
        el = "None"
    else:
        p = re.compile(rx)
        el = "(Some %s)" % enc_names([n for n in sorted(ids) if p.match(n)], ids)
    dermap = cq_list(["(%s, %s)" % (cq_pos(ids[n]), cq_pos(ids["der(%s)" % n]))
                      for n in sorted(ids) if "der(%s)" % n in ids])
    opts = "(Options %s %s %s %s %s %s %s %s %s %s DERMAP)" % (
        cq_bool(o.get("replace_parameter_expressions")), cq_bool(o.get("replace_constant_expressions")),
        cq_bool(o.get("eliminate_constant_assignments")), cq_bool(o.get("replace_parameter_values")),
        cq_bool(o.get("replace_constant_values")), el, cq_bool(o.get("expand_mx")),
        cq_bool(o.get("detect_aliases")), cq_bool(o.get("allow_derivative_aliases", True)),
        cq_bool(o.get("iterative_simplification")))
    opts = opts.replace("DERMAP", dermap)
    if "simplify_exc" in res:
        ob = "(Obs true false [] [] [] [] [] [] [] [] [] [])"
    else:
        post = res["post"]
        consts = []
        for n, v in post["consts"]:
            if v is None:
                raise Unsupported("constant without value")
            consts.append("(%s, %s)" % (cq_pos(ids[n]), "Some %s" % cq(v[1], v[2]) if v[0] == "c" else "None"))
        classes = []
        for c, als in post["classes"]:
            if c not in ids:
                raise Unsupported("class " + c)
            ms = []
            for a in als:
                neg = a.startswith("-")
                ms.append("(%s, %s)" % (cq_pos(ids[a[1:] if neg else a]), cq_bool(neg)))
            classes.append("(%s, %s)" % (cq_pos(ids[c]), cq_list(ms)))
        pts, ev, iv = [], [], []
        for p, e, i in zip(case["points"], post["eqvals"], post["ieqvals"]):
            if isinstance(e, dict) or isinstance(i, dict) or any(not isinstance(x, list) for x in e + i):
                continue     # free symbols / non-finite values: judged by the oracle, not comparable
            pts.append(cq_list(["(%s, %s)" % (cq_pos(ids[n]), cq(*F(v).as_integer_ratio())) for n, v in sorted(p.items())]))
            ev.append(cq_list([cq(x[0], x[1]) for x in e]))
            iv.append(cq_list([cq(x[0], x[1]) for x in i]))
        ob = "(Obs false %s %s %s %s %s %s %s %s %s %s %s)" % (
            cq_bool(limit_warning(res)), enc_names(post["states"], ids), enc_names(post["ders"], ids),
            enc_names(post["algs"], ids), enc_names(post["inputs"], ids),
            enc_names([n for n, _ in post["params"]], ids), cq_list(consts), cq_list(classes),
            cq_list(pts), cq_list(ev), cq_list(iv))
    return "(%s, %s, %s)" % (m, opts, ob)


# ---------------------------------------------------------------------------
# the run shared by C14 and C15
# ---------------------------------------------------------------------------
def build_cases(ctx):
    rng = ctx.rng
    cases = []
    try:
        cases += json.load(open(core.VERIF + "/corpus/C14/cases.json"))
    except OSError:
        pass
    n_corpus = len(cases)
    n_models = ctx.scaled(48, 150)
    per = ctx.scaled(8, 16)
    full = all_option_sets()
    for mi in range(n_models):
        mdl = gen_model(rng, big=(mi % 5 == 0))
        if ctx.tier == "thorough" and mi < 8:
            osets = full                      # every combination of the modelled options
        else:
            osets = [gen_options(rng) for _ in range(per - 2)]
            osets.append(gen_options(rng, {k: True for k in MODELLED_BOOL if k != "iterative_simplification"}
                                     | {"eliminable_variable_expression": ELIM_RE}))
            osets.append(gen_options(rng, {"detect_aliases": True, "replace_constant_values": True,
                                           "replace_parameter_values": True, "iterative_simplification": True,
                                           "eliminate_constant_assignments": True}))
        for o in osets:
            cases.append(make_case(rng, mdl, o))
    # alias-graph stream (modelled options, detect_aliases always on, constants mostly symbolic)
    for _ in range(ctx.scaled(45, 400)):
        mdl = gen_alias_model(rng)
        for _ in range(ctx.scaled(3, 4)):
            cases.append(make_case(rng, mdl, gen_alias_options(rng)))
    # sign-forcing alias equations between two variables already aliased to one non-eliminable anchor
    for _ in range(ctx.scaled(16, 120)):
        mdl = gen_forced_zero_model(rng)
        c = make_case(rng, mdl, gen_alias_options(rng))
        if mdl["nonsquare"]:
            c["meta"]["singular"] = True      # one constraint on a known: skips the generator's squareness test only
        cases.append(c)
    # eliminable differentiated state defined through eliminable algebraic helpers (get_derivative; modelled)
    for _ in range(ctx.scaled(16, 120)):
        mdl = gen_elim_state_model(rng)
        o = {"eliminable_variable_expression": ELIM_RE, "expand_mx": True,
             "detect_aliases": rng.random() < 0.4, "eliminate_constant_assignments": rng.random() < 0.3}
        cases.append(make_case(rng, mdl, o))
    # two ordered alias groups + one linking equation; Integer / Real aliases
    for _ in range(ctx.scaled(24, 200)):
        cases.append(make_case(rng, gen_two_groups_model(rng), gen_alias_options(rng)))
    for _ in range(ctx.scaled(12, 100)):
        cases.append(make_case(rng, gen_typed_alias_model(rng), gen_alias_options(rng)))
    # multi-pass stream: aliases that only appear in pass 2+ (iterative_simplification; in the correspondence)
    for _ in range(ctx.scaled(24, 250)):
        mdl = gen_alias_model(rng, late=True)
        for _ in range(2):
            o = gen_alias_options(rng)
            o.update({"iterative_simplification": True, "eliminate_constant_assignments": True,
                      "replace_constant_values": rng.random() < 0.85})
            cases.append(make_case(rng, mdl, o))
    # oracle-only stream: options outside the modelled set (preconditions of the property respected:
    # no reduce_affine_expression on non-affine models, no factor_and_simplify with zero factors)
    extra = []
    for _ in range(ctx.scaled(20, 100)):
        mdl = gen_model(rng)
        o = gen_options(rng)
        o[rng.choice(["resolve_parameter_values", "expand_vectors", "factor_and_simplify_equations"])] = True
        extra.append(make_case(rng, mdl, o))
    # oracle-only: reduce_affine_expression on affine models (its precondition), with and without
    # initial equations, combined with the value-replacement and alias options
    for i in range(ctx.scaled(24, 200)):
        mdl = gen_alias_model(rng, affine=True)
        if i % 3 == 0:
            o = {"reduce_affine_expression": True}                    # alone: everything stays symbolic
        else:
            o = gen_alias_options(rng)
            o["detect_aliases"] = rng.random() < 0.5
            o["iterative_simplification"] = False
            o["replace_parameter_values"] = rng.random() < 0.4
            o["replace_constant_values"] = rng.random() < 0.4
            o["reduce_affine_expression"] = True
        extra.append(make_case(rng, mdl, o))
    # oracle-only: the same multi-pass models with EXPLICITLY repeated simplify() calls
    for _ in range(ctx.scaled(10, 100)):
        mdl = gen_alias_model(rng, late=True)
        o = gen_alias_options(rng)
        o.update({"iterative_simplification": rng.random() < 0.3, "eliminate_constant_assignments": True,
                  "replace_constant_values": rng.random() < 0.85})
        c = make_case(rng, mdl, o)
        c["repeat"] = rng.randint(2, 4)
        extra.append(c)
    # oracle-only: the expand paths (no arrays / SX round trip in the Coq model)
    for _ in range(ctx.scaled(14, 100)):
        extra.append(gen_neardup_case(rng))
    for _ in range(ctx.scaled(14, 100)):
        extra.append(gen_matrix_case(rng))
    # oracle-only: contradictory alias pairs (a = b; a = -b: both zero).  Not in the correspondence:
    # the model mirrors fixes/C14_contradictory_alias_keeps_equation.diff
    for _ in range(ctx.scaled(10, 60)):
        mdl = gen_contra_model(rng)
        c = make_case(rng, mdl, gen_alias_options(rng))
        c["meta"]["contra"] = True
        extra.append(c)
    return cases, extra, n_corpus


def run_children(ctx, cases, workers=4):
    """run_child in `workers` parallel chunks (each chunk has its own crash-safe child)"""
    from concurrent.futures import ThreadPoolExecutor
    n = len(cases)
    if n == 0:
        return []
    size = (n + workers - 1) // workers
    chunks = [cases[i:i + size] for i in range(0, n, size)]
    with ThreadPoolExecutor(max_workers=workers) as ex:
        outs = list(ex.map(lambda ch: core.run_child(ctx, "c14", ch, timeout=1500), chunks))
    return [r for o in outs for r in o]


def shared_run(ctx, judge, pid):
    fp, _ = core.fingerprint(core.REPO + "/src/pymoca/backends/casadi/model.py", {"Model"})
    fp2, _ = core.fingerprint(core.REPO + "/src/pymoca/backends/casadi/alias_relation.py", {"AliasRelation"})
    ctx.notes["source_fingerprint"] = {"model.py:Model": fp, "alias_relation.py:AliasRelation": fp2}
    cases, extra, n_corpus = build_cases(ctx)
    workers = 4 if ctx.tier == "quick" else 4
    cases.append(CYCLIC_OSC)
    results = run_children(ctx, cases + extra + [CYCLIC_SEGV], workers)
    res_main, res_extra, res_cyc = results[:len(cases)], results[len(cases):len(cases) + len(extra)], results[-1]
    # generator sanity: a broken generator must never look like a verdict
    gp = [(i, generator_problem(c, r)) for i, (c, r) in enumerate(zip(cases + extra, res_main + res_extra))]
    gp = [(i, w) for i, w in gp if w]
    ctx.oblige("generator:constructed-solution-solves-original-model", not gp, str(gp[:3]))
    # (a) oracle
    n_ok = n_exc = n_warn = 0
    excs = {}
    for c, r in zip(cases + extra + [CYCLIC_SEGV], results):
        if generator_problem(c, r):
            continue
        v = judge(c, r)
        if v:
            core.report(ctx, v[0], v[1], {"input": c, "observed": _brief(r)})
        if "simplify_exc" in r:
            n_exc += 1
            excs[r["simplify_exc"]["exc"] + ": " + r["simplify_exc"]["msg"][:60]] = \
                excs.get(r["simplify_exc"]["exc"] + ": " + r["simplify_exc"]["msg"][:60], 0) + 1
        elif "post" in r:
            n_ok += 1
            n_warn += 1 if limit_warning(r) else 0
    ctx.oblige("non-vacuous:most-cases-simplified-without-exception", n_ok >= 0.7 * len(results),
               "%d of %d simplified, exceptions: %s" % (n_ok, len(results), excs))
    # (b) correspondence
    enc, idx, skipped = [], [], {}
    for i, (c, r) in enumerate(zip(cases, res_main)):
        if "crash" in r or "pre" not in r:
            continue
        try:
            enc.append(encode(c, r))
            idx.append(i)
        except Unsupported as e:
            skipped[str(e)] = skipped.get(str(e), 0) + 1
    bad = core.coq_eval_cases(ctx, "simp", PREAMBLE, "model * options * obs", enc, "check_case", shard=100,
                              timeout=1200)
    if pid == "C15":
        # tie the well-formedness hypothesis of the closedness composition: the values of the parameters /
        # constants of EVERY generated (pre-simplification) model only mention declared symbols
        badv = core.coq_eval_cases(ctx, "valsclosed", PREAMBLE + "From PV Require Import Proofs.C15_closed.\n",
                                   "model * options * obs", enc, "(fun c => vals_closedb (fst (fst c)))",
                                   shard=100, timeout=1200)
        ctx.oblige("hypothesis:vals_closedb-holds-of-every-generated-model", badv == [],
                   "cases where a parameter/constant value mentions an undeclared symbol: %s"
                   % ([idx[j] for j in badv][:8] if badv else badv))
    mism = None if bad is None else [idx[j] for j in bad]
    ctx.oblige("correspondence:model-vs-Model.simplify", bad == [],
               "mismatching cases: %s" % (mism[:8] if mism else mism))
    if bad:
        ok, out, err = core.coq_run(ctx, "diag", core.HEADER + PREAMBLE +
                                    "Eval vm_compute in (diag_case %s)." % enc[bad[0]], timeout=300)
        ctx.notes["first_mismatch_component"] = (core.coq_results(out) or [err[-300:]])[-1]
        if not ctx.violations:
            core.violation(ctx, "correspondence-broken",
                           {"correspondence": "Model/C14_simplify.v check_case vs Model.simplify",
                            "component": ctx.notes["first_mismatch_component"],
                            "input": cases[mism[0]], "observed": _brief(res_main[mism[0]])}, no_input=True)
    # known findings
    def still(e):
        rp = e.get("replay")
        if not rp:
            return None
        r = core.run_child(ctx, "c14", [rp])[0]
        v = judge(rp, r)
        return bool(v and v[0] == e.get("tag"))
    core.replay_known(ctx, still)
    # evidence
    nontriv = set()
    kinds, optc = {}, {}
    for c, r in zip(cases, res_main):
        for k, n in c["meta"]["kinds"].items():
            kinds[k] = kinds.get(k, 0) + n
        for k, v in c["options"].items():
            if v:
                optc[k] = optc.get(k, 0) + 1
        if "post" in r and (len(r["post"]["algs"]) != len(r["pre"]["algs"]) or r["post"]["classes"]):
            nontriv.add(json.dumps([c["text"], sorted(c["options"].items())]))
    ctx.cov["evaluations"] = len(results)
    ctx.cov["distinct_nontrivial"] = len(nontriv)
    ctx.cov["rule"] = ("%d generated models with a constructed unique solution x option sets (%d cases in the "
                       "modelled option set, %d oracle-only cases with an unmodelled option, corpus %d); "
                       "non-trivial = simplify() removed at least one unknown; distinct by (model text, options)"
                       % (ctx.scaled(48, 150), len(cases), len(extra), n_corpus))
    ctx.cov["samples"] = [{"text": cases[n_corpus]["text"], "options": cases[n_corpus]["options"]},
                          {"text": cases[-1]["text"], "options": cases[-1]["options"]}]
    ctx.notes["input_distribution"] = {"mechanisms": kinds, "options_true": optc, "simplified": n_ok,
                                       "exceptions": excs, "limit_warnings": n_warn,
                                       "correspondence_cases": len(enc), "correspondence_skipped": skipped}
    ctx.notes["claimed_option_set"] = {"modelled": MODELLED_BOOL + ["eliminable_variable_expression"],
                                       "oracle_only": ["resolve_parameter_values", "expand_vectors (scalar models)",
                                                       "factor_and_simplify_equations",
                                                       "reduce_affine_expression (affine models, coefficients = products of symbolic parameters/constants)"],
                                       "excluded": ["expand_vectors on arrays",
                                                    "if_else shapes of eliminable assignments",
                                                    "eliminable differentiated states", "delay arguments"]}
    ctx.assumptions += [
        "CasADi's MX simplification-on-the-fly is modelled by mk_un/mk_bin for the operators Neg, Sq, Twice, Add, "
        "Sub, Mul (rules recalled from MXNode::_get_binary and overrides, validated by the correspondence); node "
        "identity is approximated by symbol identity (distinct constant nodes are distinct)",
        "regex matching of eliminable_variable_expression is done by the harness (the model receives the list of "
        "matching names)",
        "variable metadata other than `value` (C16) and vector expansion (C18) are not part of this model",
        "oracle arithmetic: all generated coefficients and points are dyadic with small numerators, so the double "
        "evaluation of polynomial residuals of degree <= 3 is exact and compared with 0 exactly",
    ]


def _brief(r):
    r = dict(r)
    for k in ("pre",):
        if k in r:
            r[k] = {kk: vv for kk, vv in r[k].items() if kk not in ("eqs", "ieqs")}
    if "post" in r:
        r["post"] = {kk: vv for kk, vv in r["post"].items() if kk not in ("eqs", "eqvals", "ieqvals")}
    return r


def run(ctx):
    core.check_props(ctx, "C14.v", THEOREMS)
    shared_run(ctx, judge_c14, "C14")


def shared_replay(ctx, path, judge):
    rec = json.load(open(path))
    case = rec.get("input")
    if not case:
        print("replay: no input recorded")
        return 1
    r = core.run_child(ctx, "c14", [case])[0]
    v = judge(case, r)
    print("replay:", ("%s: %s" % v) if v else "property holds on this input")
    return 1 if v else 0


def replay(ctx, path):
    return shared_replay(ctx, path, judge_c14)
