"""C08 — modifications take effect with Modelica precedence in either spelling.

Uses the library utilities, the independent reference instantiation and the Coq encoding of
vlib/c07.py (one model of flattening serves both properties); this module adds the generator that
places competing modifications at 2-4 levels (type definition, declaration, extends clause, enclosing
components) in dotted / nested / mixed spellings with expressions over names that exist in both the
inner and the outer scope."""
import json
import time

from . import core
from . import c07
from .c07 import mk_alias, mk_class, mk_mod, mk_sym, num, ref, render

THEOREMS = ["C08_outermost", "C08_scope_value", "C08_spelling_partial",
            "C08_spec_spelling", "C08_spec_outermost", "C08_apply_args_leaf", "C08_shift_is_sub", "C08_leaf_conversion", "C08_extends_clause_env", "C08_extends_leaf_attributes_partial", "C08_extends_leaf_attributes_example", "C08_spelling_refuted", "C08_scope_refuted", "C08_example"]

ATTR_POOL = ["start", "start", "min", "max", "nominal", "value", "value", "fixed"]


def expr_for(rng, attr, level_params):
    if attr == "fixed":
        return ["bool", rng.random() < 0.6]
    x = rng.random()
    if x < 0.4:
        return num(rng.randint(0, 99))
    p = rng.choice(level_params)
    if x < 0.75:
        return ref(p)
    return ["op", rng.choice("+*"), [num(rng.randint(2, 5)), ref(p)]]


def spell(rng, path, attr, e, style):
    """one modification of attribute `attr` (or the value) of the leaf at `path` (component names then the
    leaf name), in the requested spelling"""
    if attr == "value":
        inner = None
    else:
        inner = mk_mod([attr], value=e)
    if style == "canonical":                      # a.b.x(start = e)   /   a.b.x = e
        return mk_mod(path, args=[inner], value=None) if inner else mk_mod(path, value=e)
    if style == "dotted":                         # a.b.x.start = e
        return mk_mod(path + [attr], value=e) if inner else mk_mod(path, value=e)
    # nested at a random split:  a(b.x(start = e))  a.b(x(start = e))  a(b(x(start = e)))
    if len(path) == 1:
        return mk_mod(path, args=[inner], value=None) if inner else mk_mod(path, value=e)
    j = rng.randint(1, len(path) - 1)
    rest = spell(rng, path[j:], attr, e, rng.choice(["canonical", "nested"]))
    return mk_mod(path[:j], args=[rest])


def gen_case(rng, shape=None):
    shape = shape or rng.choice(["chain", "chain", "extends", "alias", "mixed", "mixed"])
    k = rng.randint(1, 3)
    classes = []
    # ---- naming plan: simple class names are REUSED across packages / nesting levels, so that a scope
    # can only be identified by its full path (wrapper named like an inner library class, two packages
    # with equally named classes, a nested class named like its enclosing class)
    naming = rng.choice(["flat", "flat", "pkg", "pkg", "pkg", "nested"])
    if naming == "nested" and k < 2:
        naming = "pkg"
    lvl_name = ["C%d" % i for i in range(k)] + ["M"]
    lvl_where = [[] for _ in range(k + 1)]
    nested_at = None
    if naming == "pkg":
        used = set()
        for i in range(k):
            for _ in range(20):
                w, n = rng.choice(["L", "K"]), rng.choice(["C0", "C1", "Pump"])
                if (w, n) not in used:
                    break
            used.add((w, n))
            lvl_where[i], lvl_name[i] = [w], n
        if rng.random() < 0.75:
            lvl_name[k] = rng.choice(lvl_name[:k])          # the top-level wrapper is named like a library class
    elif naming == "nested":
        nested_at = rng.randint(1, k - 1)                   # level nested_at-1 is defined inside level nested_at ...
        lvl_name[nested_at - 1] = lvl_name[nested_at]       # ... under the same simple name

    def type_ref(i):
        """how level i+1 names the class of level i"""
        return lvl_where[i] + [lvl_name[i]]
    level_cls = []
    alias2 = shape in ("alias", "mixed") and rng.random() < 0.12
    tmods = [mk_mod([a], value=num(rng.randint(0, 40))) for a in rng.sample(["start", "min", "max", "nominal"], rng.randint(1, 2))]
    classes.append(mk_alias("T", ["Real"], tmods))
    if alias2:
        classes.append(mk_alias("U", ["T"], [mk_mod(["max"], value=num(rng.randint(50, 90)))]))
    # leaf class
    leaf = mk_class(lvl_name[0])
    leaf["symbols"].append(mk_sym("p", ["Real"], ["parameter"], value=num(1)))
    if rng.random() < 0.5:
        leaf["symbols"].append(mk_sym("q0", ["Real"], ["parameter"], value=num(2)))
    xm = []
    if rng.random() < 0.6:
        xm.append(mk_mod(["start"], value=rng.choice([num(rng.randint(0, 9)), ref("p")])))
    if rng.random() < 0.3:
        xm.append(mk_mod([rng.choice(["min", "max", "nominal"])], value=num(rng.randint(0, 9))))
    leaf["symbols"].append(mk_sym("x", ["Real"], mods=xm, value=(["op", "*", [num(2), ref("p")]] if rng.random() < 0.3 else None)))
    ym = [mk_mod(["start"], value=num(rng.randint(0, 9)))] if rng.random() < 0.5 else []
    leaf["symbols"].append(mk_sym("y", ["U"] if alias2 else ["T"], mods=ym))
    leaf["symbols"].append(mk_sym("z", ["Real"]))
    leaf["eqs"].append([ref("z"), ["op", "+", [ref("x"), ref("p")]]])
    level_cls.append(leaf)
    leaves = ["x", "y", "p"]
    comp_names = ["a", "b", "c"]
    targets = []            # (path below the current class, leaf) available for modification
    targets = [([], v) for v in leaves]
    hot = [(rng.choice(["x", "y"]), rng.choice(["start", "value", "min"]))]      # contested (leaf, attribute)
    for i in range(1, k + 1):
        name = lvl_name[i]
        c = mk_class(name)
        params = ["p"]
        c["symbols"].append(mk_sym("p", ["Real"], ["parameter"], value=num(10 * i)))
        if rng.random() < 0.6:
            c["symbols"].append(mk_sym("q%d" % i, ["Real"], ["parameter"], value=num(10 * i + 1)))
            params.append("q%d" % i)
        new_targets = []
        # extends level
        if shape in ("extends", "mixed") and rng.random() < 0.7:
            b = mk_class("B%d" % i)
            b["symbols"].append(mk_sym("w", ["Real"], mods=[mk_mod(["start"], value=num(i))]))
            b["symbols"].append(mk_sym("g", ["Real"], ["parameter"], value=num(i)))
            if rng.random() < 0.4:
                b["symbols"].append(mk_sym("e", type_ref(0), mods=[spell(rng, ["x"], "start", num(3), "canonical")] if rng.random() < 0.5 else []))
            b["eqs"].append([ref("w"), ref("g")])
            classes.append(b)
            emods = []
            used = set()
            for _ in range(rng.randint(0, 2)):
                leafname, attr = rng.choice([("w", "start"), ("w", "min"), ("g", "value"), ("w", "value")])
                if (leafname, attr) in used or (leafname == "g" and attr != "value"):
                    continue
                used.add((leafname, attr))
                if leafname == "w" and rng.random() < 0.3 and not ({("w", "start"), ("w", "value")} & (used - {(leafname, attr)})):
                    used |= {("w", "start"), ("w", "value")}
                    emods.append(mk_mod(["w"], args=[mk_mod(["start"], value=expr_for(rng, "start", params))],
                                        value=expr_for(rng, "value", params)))       # combined spelling in an extends clause
                    continue
                emods.append(spell(rng, [leafname], attr, expr_for(rng, attr, params), rng.choice(["canonical", "canonical", "dotted"])))
            c["extends"].append({"base": ["B%d" % i], "mods": emods})
            new_targets += [([], "w"), ([], "g")]
        # the component of the previous level, with competing modifications
        cn = comp_names[i - 1]
        mods, used = [], set()
        for _ in range(rng.choice([0, 1, 1, 2, 3])):
            path, leafname = rng.choice(targets)
            attr = rng.choice(ATTR_POOL)
            if rng.random() < 0.5 and any(t[1] == hot[0][0] for t in targets):
                leafname, attr = hot[0]
                path = rng.choice([t for t in targets if t[1] == leafname])[0]
            if leafname in ("p", "g") and attr != "value":
                continue
            if (tuple(path), leafname, attr) in used or (attr != "value" and (tuple(path), leafname, "whole") in used):
                continue
            used.add((tuple(path), leafname, attr))
            style = rng.choice(["canonical", "canonical", "canonical", "dotted", "nested"])
            if shape == "chain" and rng.random() < 0.5:
                style = "canonical"
            if rng.random() < 0.22:
                # combined spelling  a.b.x(attr = e1) = e2 : attributes and value in ONE modification
                a2 = rng.choice(["start", "min", "max", "nominal"]) if attr == "value" else "value"
                if (tuple(path), leafname, a2) not in used:
                    used.add((tuple(path), leafname, a2))
                    att, val = (a2, "value") if attr == "value" else (attr, "value")
                    mods.append(mk_mod(path + [leafname], args=[mk_mod([att], value=expr_for(rng, att, params))],
                                       value=expr_for(rng, val, params)))
                    continue
            mods.append(spell(rng, path + [leafname], attr, expr_for(rng, attr, params), style))
        # the same path must not be opened twice in one modifier list in different spellings: merge check is
        # left to the reference (duplicate modification -> Reject)
        c["symbols"].append(mk_sym(cn, type_ref(i - 1), mods=mods))
        if rng.random() < 0.3:
            c["symbols"].append(mk_sym(cn + "2", type_ref(i - 1)))           # a second, unmodified instance
        c["symbols"].append(mk_sym("r%d" % i, ["Real"]))
        tx = [t for t in targets if t[1] == "x"]
        c["eqs"].append([ref("r%d" % i), ["op", "+", [ref(*([cn] + tx[0][0] + ["x"])), ref("p")]]])
        level_cls.append(c)
        targets = [([cn] + p_, v) for p_, v in targets] + new_targets
    pk = {}
    for i, c in enumerate(level_cls):
        if nested_at is not None and i == nested_at - 1:
            level_cls[nested_at]["classes"].append(c)
        elif lvl_where[i]:
            pk.setdefault(lvl_where[i][0], []).append(c)
        else:
            classes.append(c)
    for w in sorted(pk):
        classes.insert(rng.randint(0, len(classes)), mk_class(w, "package", classes=pk[w]))
    lib = {"classes": classes, "top": lvl_name[k], "shape": shape + "/" + naming}
    lib["text"] = render(lib)
    return lib


def fixed_cases():
    out = []
    C = mk_class("C", symbols=[mk_sym("x", ["Real"])])
    B = mk_class("B", symbols=[mk_sym("c", ["C"])])
    for shape, m in (("fixed-canonical", mk_mod(["c", "x"], args=[mk_mod(["start"], value=num(3))])),
                     ("fixed-dotted", mk_mod(["c", "x", "start"], value=num(3))),
                     ("fixed-nested", mk_mod(["c"], args=[mk_mod(["x"], args=[mk_mod(["start"], value=num(3))])])),
                     ("fixed-value", mk_mod(["c", "x"], value=num(3))),
                     ("fixed-nested-value", mk_mod(["c"], args=[mk_mod(["x"], value=num(3))]))):
        out.append({"classes": [C, B, mk_class("M", symbols=[mk_sym("b", ["B"], mods=[m])])], "top": "M", "shape": shape})
    # scope: the modifier is written in M, where p = 1; A has its own p
    A = mk_class("A", symbols=[mk_sym("p", ["Real"], ["parameter"], value=num(5)), mk_sym("x", ["Real"])])
    out.append({"classes": [A, mk_class("M", symbols=[mk_sym("p", ["Real"], ["parameter"], value=num(1)),
                                                       mk_sym("a", ["A"], mods=[mk_mod(["x"], args=[mk_mod(["start"], value=ref("p"))])])])],
                "top": "M", "shape": "fixed-scope-attr"})
    out.append({"classes": [A, mk_class("M", symbols=[mk_sym("p", ["Real"], ["parameter"], value=num(1)),
                                                       mk_sym("a", ["A"], mods=[mk_mod(["x"], value=ref("p"))])])],
                "top": "M", "shape": "fixed-scope-value"})
    # extends clause over base, enclosing component over both
    A2 = mk_class("A", symbols=[mk_sym("k", ["Real"], ["parameter"], mods=[mk_mod(["min"], value=num(0))], value=num(2)),
                                mk_sym("x", ["Real"], mods=[mk_mod(["start"], value=num(1))], value=num(2))])
    B2 = mk_class("B", extends=[{"base": ["A"], "mods": [mk_mod(["x"], args=[mk_mod(["start"], value=num(5))]), mk_mod(["k"], value=num(3))]}])
    out.append({"classes": [A2, B2, mk_class("M", symbols=[mk_sym("b1", ["B"], mods=[mk_mod(["k"], value=num(10))]),
                                                           mk_sym("b2", ["B"], mods=[mk_mod(["x"], args=[mk_mod(["start"], value=num(7))], value=num(8))])])],
                "top": "M", "shape": "fixed-precedence"})
    # type definition < declaration < enclosing component; alias of alias
    out.append({"classes": [mk_alias("T", ["Real"], [mk_mod(["start"], value=num(1)), mk_mod(["min"], value=num(0))]),
                            mk_class("A", symbols=[mk_sym("y", ["T"], mods=[mk_mod(["start"], value=num(2))])]),
                            mk_class("M", symbols=[mk_sym("a", ["A"], mods=[mk_mod(["y"], args=[mk_mod(["start"], value=num(3))])]),
                                                   mk_sym("a0", ["A"])])], "top": "M", "shape": "fixed-type-level"})
    out.append({"classes": [mk_alias("T", ["Real"], [mk_mod(["min"], value=num(0))]), mk_alias("U", ["T"], [mk_mod(["max"], value=num(5))]),
                            mk_class("M", symbols=[mk_sym("u", ["U"], mods=[mk_mod(["start"], value=num(1))], value=num(4))])],
                "top": "M", "shape": "fixed-alias2"})
    # same simple class name at two levels: wrapper model Pump around Lib.Station containing Lib.Pump; the
    # scope of st(pump.eff = ...) is the top-level Pump, not Lib.Pump
    for top in ("Pump", "Plant"):
        for val in (num(8), ref("eff"), ["op", "*", [num(2), ref("eff")]]):
            LP = mk_class("Pump", symbols=[mk_sym("eff", ["Real"], ["parameter"], value=num(5)),
                                           mk_sym("head", ["Real"], ["parameter"], mods=[mk_mod(["min"], value=num(0))],
                                                  value=["op", "*", [num(10), ref("eff")]])])
            LS = mk_class("Station", symbols=[mk_sym("eff", ["Real"], ["parameter"], value=num(7)),
                                              mk_sym("pump", ["Pump"], mods=[mk_mod(["eff"], value=num(6)),
                                                                             mk_mod(["head"], args=[mk_mod(["min"], value=num(1))])])])
            out.append({"classes": [mk_class("Lib", "package", classes=[LP, LS]),
                                    mk_class(top, symbols=[mk_sym("eff", ["Real"], ["parameter"], value=num(9)),
                                                           mk_sym("st", ["Lib", "Station"], mods=[mk_mod(["pump", "eff"], value=val)])])],
                        "top": top, "shape": "fixed-same-name"})
    # combined spelling name(attr = ..) = expr vs the separated spelling, names in both scopes, intermediate level
    for combined in (True, False):
        S_ = mk_class("S", symbols=[mk_sym("k", ["Real"], ["parameter"], value=num(2)), mk_sym("p", ["Real"], ["parameter"], value=num(1)),
                                   mk_sym("q", ["Real"], ["parameter"], value=num(1))])
        m1 = [mk_mod(["p"], args=[mk_mod(["max"], value=num(5))], value=ref("k"))] if combined else \
             [mk_mod(["p"], args=[mk_mod(["max"], value=num(5))]), mk_mod(["p"], value=ref("k"))]
        out.append({"classes": [S_, mk_class("M", symbols=[mk_sym("k", ["Real"], ["parameter"], value=num(9)), mk_sym("a", ["S"], mods=m1)])],
                    "top": "M", "shape": "fixed-combined" if combined else "fixed-separated"})
        Mid = mk_class("Mid", symbols=[mk_sym("g", ["Real"], ["parameter"], value=num(4)), mk_sym("s", ["S"], mods=[mk_mod(["q"], value=ref("g"))])])
        m2 = [mk_mod(["s", "q"], args=[mk_mod(["start"], value=num(5))], value=num(7))] if combined else \
             [mk_mod(["s", "q"], args=[mk_mod(["start"], value=num(5))]), mk_mod(["s", "q"], value=num(7))]
        out.append({"classes": [S_, Mid, mk_class("M", symbols=[mk_sym("m", ["Mid"], mods=m2)])],
                    "top": "M", "shape": "fixed-combined-levels" if combined else "fixed-separated-levels"})
    for c in out:
        c["text"] = render(c)
    return out


judge_all = c07.judge_all
judge = c07.judge


def run(ctx):
    t0 = time.time()
    core.check_props(ctx, "C08.v", THEOREMS)
    timing = {"props_s": round(time.time() - t0, 1)}
    fp, _ = core.fingerprint(core.REPO + "/src/pymoca/tree.py", {"flatten_extends", "build_instance_tree", "modify_symbol"})
    ctx.notes["source_fingerprint"] = {"tree.py:flatten_extends+build_instance_tree+modify_symbol": fp}
    n_rand = ctx.scaled(300, 6000)
    shapes = ["chain", "extends", "alias", "mixed"]
    libs = fixed_cases()
    n_fixed = len(libs)
    for i in range(n_rand):
        libs.append(gen_case(ctx.rng, shapes[i % len(shapes)] if i % 2 == 0 else None))
    t0 = time.time()
    results = c07.run_children(ctx, "c08", [{"text": l["text"], "top": l["top"]} for l in libs])
    timing["impl_s"] = round(time.time() - t0, 1)

    t0 = time.time()
    dist = {"shapes": {}, "rejected_by_reference": 0, "impl_exceptions": {}}
    agg = {}
    nontrivial = set()
    for lib, r in zip(libs, results):
        dist["shapes"][lib["shape"]] = dist["shapes"].get(lib["shape"], 0) + 1
        if "exc" in r or "crash" in r:
            k = r.get("exc", "crash")
            dist["impl_exceptions"][k] = dist["impl_exceptions"].get(k, 0) + 1
        try:
            rf = c07.reference(lib)
        except c07.Reject:
            dist["rejected_by_reference"] += 1
            rf = None
        if rf:
            fl = rf["flags"]
            mx = max(fl["mod_levels"].values() or [0])
            agg["max_levels_%d" % mx] = agg.get("max_levels_%d" % mx, 0) + 1
            for k in ("dotted_attr", "scope_clash", "alias2", "pre_alias", "prefixed_twice"):
                if fl[k]:
                    agg["cases_with_" + k] = agg.get("cases_with_" + k, 0) + 1
            if fl["nested_spelling"]:
                agg["cases_with_nested_spelling"] = agg.get("cases_with_nested_spelling", 0) + 1
            if mx >= 2:
                nontrivial.add(lib["text"])
        for tag, why in judge_all(lib, r):
            core.report(ctx, tag, why, {"case": c07.slim(lib), "observed": r})
    timing["oracle_s"] = round(time.time() - t0, 1)

    t0 = time.time()
    mism = c07.correspondence(ctx, "mods", libs, results, "correspondence:model-vs-tree.flatten(modifications)")
    timing["coq_eval_s"] = round(time.time() - t0, 1)
    if mism and not [v for v in ctx.violations if not v["no_input"]]:
        i = mism[0]
        core.violation(ctx, "correspondence-broken",
                       {"correspondence": "Model/C07_flatten.v check_case vs pymoca.tree.flatten",
                        "case": c07.slim(libs[i]), "observed": results[i]}, no_input=True)
    t0 = time.time()
    n_spec, _ = c07.spec_comparison(ctx, "spec", libs, results, judge_all, "spec:Lib/Inst.v-inst-vs-tree.flatten(modifications)")
    timing["coq_spec_s"] = round(time.time() - t0, 1)
    ctx.notes["spec_comparison_cases"] = n_spec
    core.replay_known(ctx, c07.known_still_fails(ctx, "c08", judge_all))
    ctx.notes["timing"] = timing
    ctx.cov["evaluations"] = len(libs)
    ctx.cov["distinct_nontrivial"] = len(nontrivial)
    ctx.cov["rule"] = ("generated libraries (%d random + %d fixed): leaf class C0 (parameter p, Real x, alias-typed y, z) "
                       "below 1-3 component levels C1..M, every level declaring its own parameter p (so `p` exists in the "
                       "inner and the outer scope) and optionally q_i; each level modifies 0-3 (leaf, attribute) pairs of "
                       "the levels below — start/min/max/nominal/fixed/value, a contested pair reused across levels — in "
                       "canonical a.b.x(start=e), fully dotted a.b.x.start=e or nested a(b.x(start=e)) spelling with "
                       "literal, p, q_i or k*p expressions; extends levels B_i with clause modifications over the base's "
                       "own; type definition T = Real(...) and rarely U = T(...).  non-trivial = some leaf receives "
                       "modifications from >= 2 of {type definition, declaration, enclosing/extends}; distinct = distinct text"
                       % (n_rand, n_fixed))
    ctx.cov["samples"] = [libs[n_fixed]["text"], libs[n_fixed + 1]["text"], libs[n_fixed + 2]["text"]]
    dist["totals"] = agg
    dist["cases"] = len(libs)
    ctx.notes["input_distribution"] = dist
    ctx.assumptions += c07.ASSUMPTIONS + [
        "a library whose only obstacle is a nested spelling through a structured component (IndexError at "
        "tree.py:542) counts as `rejected`, which the property allows; any other exception on a library the reference "
        "accepts is a violation",
    ]


def replay(ctx, path):
    rec = json.load(open(path))
    lib = rec["case"]
    res = core.run_child(ctx, "c08", [{"text": lib["text"], "top": lib["top"]}])[0]
    v = judge_all(lib, res)
    for tag, why in v:
        print("replay: %s: %s" % (tag, why))
    if not v:
        print("replay: property holds on this library")
    return 1 if v else 0
