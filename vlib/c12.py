"""C12 — representation-only options (unroll_loops, inline_functions, expand_mx) do not change the model's meaning.

S1  fail-closed data-flow scan (Python ast) over src/pymoca/**/*.py: every occurrence of one of the three option
    names, of the attributes they are stored in (map_mode, function_mode, _expand_mx_func) and every place the whole
    options dictionary flows to is classified (file, enclosing method, tracked name, shape) -> run/C12/Gen.v;
    side condition `sites_ok found` (found = allowed as sets) evaluated by vm_compute.
S2  Props/C12.v recompiled, Print Assumptions.
S3  generated models with for-loops over arrays, user functions with algorithm sections (assignments, if- and
    for-statements), if-expressions, Boolean variables, delays (plain and inside loops), attribute expressions of
    parameters, integer-expression dimensions and loop bounds, compiled by the REAL api.transfer_model under all
    8 flag combinations (child process)
    (a) ORACLE: all 8 agree: lists per category (names, order, shapes), every Variable's type / prefixes / aliases /
        literal attributes, outputs, delay states literally; the four functions numerically (relative 1e-9) at 3
        dyadic points with Booleans at 0/1.  A second stream repeats this with a few simplification options fixed.
    (b) CORRESPONDENCE: Model/C12_options.v check_case (lists per C10's classification, delay inputs, residual
        lengths) against the real lists under each of the 8 flag triples, inside coqc.
"""
import ast as pyast
import itertools
import json
import os
from concurrent.futures import ThreadPoolExecutor
from fractions import Fraction

from . import core
from .core import cq_Z, cq_bool, cq_list, cq_nat

THEOREMS = ["C12_noninterference", "C12_noninterference_matrix", "C12_metadata_literal",
            "C12_flags_matter_with_eliminable", "C12_strategies_example", "C12_concrete_example", "C12_matrix_example"]

FLAGS = ("unroll_loops", "inline_functions", "expand_mx")
ATTRS = ("map_mode", "function_mode", "_expand_mx_func")
COMBOS = [list(c) for c in itertools.product([0, 1], repeat=3)]
BACKEND = "src/pymoca/backends/casadi"

# =============================================================================================
# S1: data-flow scan
# =============================================================================================
FILES = {BACKEND + "/generator.py": "F_generator", BACKEND + "/model.py": "F_model", BACKEND + "/api.py": "F_api",
         BACKEND + "/_options.py": "F_options"}
SITES = {("F_generator", "Generator.__init__"): "At_Generator_init",
         ("F_generator", "ForLoop.register_indexed_symbol"): "At_register_indexed_symbol",
         ("F_generator", "Generator.exitExpression"): "At_exitExpression",
         ("F_generator", "Generator.exitForEquation"): "At_exitForEquation",
         ("F_generator", "Generator.exitForStatement"): "At_exitForStatement",
         ("F_generator", "Generator.get_integer"): "At_get_integer",
         ("F_model", "Model.__init__"): "At_Model_init",
         ("F_model", "Model._simplify_once"): "At_simplify_once",
         ("F_model", "Model.dae_residual_function"): "At_dae_residual_function",
         ("F_model", "Model.initial_residual_function"): "At_initial_residual_function",
         ("F_model", "Model.variable_metadata_function"): "At_variable_metadata_function",
         ("F_model", "Model.delay_arguments_function"): "At_delay_arguments_function",
         ("F_api", "transfer_model"): "At_transfer_model",
         ("F_options", "_get_default_options"): "At_get_default_options"}
TRACK = {"unroll_loops": "T_unroll_loops", "inline_functions": "T_inline_functions", "expand_mx": "T_expand_mx",
         "map_mode": "T_map_mode", "function_mode": "T_function_mode", "_expand_mx_func": "T_expand_mx_func"}
OPT_NAMES = ("options", "compiler_options")
# callees that may receive the whole options dictionary (they are all inside the scanned files)
DICT_SINKS = {"_merge_default_options", "Generator", "generate", "simplify", "_simplify_once", "load_model",
              "save_model", "_compile_model", "update", "dict", "transfer_model", "isinstance"}
# whole-dictionary uses tied to the cache (api.load_model / save_model): compared / stored as a whole
DICT_ITER_OK = {("F_api", "load_model"), ("F_api", "save_model")}


def _dump(node):
    return pyast.dump(node, include_attributes=False)


def _tmpl(src):
    return _dump(pyast.parse(src).body[0])


T_MAP_MODE = _tmpl('self.map_mode = "inline" if options["unroll_loops"] else "serial"')
T_FUN_MODE = _tmpl('self.function_mode = (True, False) if options["inline_functions"] else (False, True)')
T_EXP_INIT = _tmpl('self._expand_mx_func = lambda x: x')
T_EXP_SET = _tmpl('self._expand_mx_func = lambda x: x.expand()')


def _is_opt(node, key):
    return (isinstance(node, pyast.Subscript) and isinstance(node.value, pyast.Name) and node.value.id in OPT_NAMES
            and isinstance(node.slice, pyast.Constant) and node.slice.value == key)


def _is_log(stmt):
    return (isinstance(stmt, pyast.Expr) and isinstance(stmt.value, pyast.Call)
            and isinstance(stmt.value.func, pyast.Attribute) and isinstance(stmt.value.func.value, pyast.Name)
            and stmt.value.func.value.id == "logger")


def scan_file(path, ftag):
    """rows [(file, site, tracked, shape, lineno)] of one source file"""
    tree = pyast.parse(open(path).read())
    parent = {}
    for n in pyast.walk(tree):
        for c in pyast.iter_child_nodes(n):
            parent[c] = n
    rows = []

    def chain(n):
        out = []
        while n in parent:
            n = parent[n]
            out.append(n)
        return out

    def method_of(n):
        """qualified name of the outermost function (Class.method or function)"""
        ch = chain(n)
        fns = [x for x in ch if isinstance(x, (pyast.FunctionDef, pyast.AsyncFunctionDef))]
        cls = [x for x in ch if isinstance(x, pyast.ClassDef)]
        if not fns:
            return None
        outer = fns[-1]
        return ("%s.%s" % (cls[-1].name, outer.name)) if cls and cls[-1] in chain(outer) else outer.name

    def stmt_of(n):
        for x in [n] + chain(n):
            if isinstance(x, pyast.stmt):
                return x
        return None

    def site_of(n):
        return SITES.get((ftag, method_of(n)), "At_elsewhere")

    def shape_const(n, key):
        """shape of an occurrence of the string constant `key` (one of FLAGS)"""
        st = stmt_of(n)
        p = parent.get(n)
        if ftag == "F_options":
            if isinstance(p, pyast.Dict) and n in p.keys and isinstance(parent.get(p), pyast.Return):
                return "Sh_default"
            return "Sh_unrecognised"
        sub = p if isinstance(p, pyast.Subscript) and p.slice is n else None
        if sub is None or not _is_opt(sub, key):
            return "Sh_unrecognised"
        if key == "unroll_loops":
            return "Sh_init_map_mode" if _dump(st) == T_MAP_MODE else "Sh_unrecognised"
        if key == "inline_functions":
            return "Sh_init_function_mode" if _dump(st) == T_FUN_MODE else "Sh_unrecognised"
        # expand_mx
        if isinstance(st, pyast.If) and st.test is sub and not st.orelse:
            body = [s for s in st.body if not _is_log(s)]
            if len(body) == 1 and _dump(body[0]) == T_EXP_SET:
                return "Sh_expand_func_set"
        if isinstance(st, pyast.If) and isinstance(st.test, pyast.BoolOp) and isinstance(st.test.op, pyast.And) \
                and len(st.test.values) == 2 and _is_opt(st.test.values[0], "expand_vectors"):
            v = st.test.values[1]
            if v is sub or (isinstance(v, pyast.UnaryOp) and isinstance(v.op, pyast.Not) and v.operand is sub):
                return "Sh_vectors_and"
        if isinstance(st, pyast.If) and isinstance(st.test, pyast.UnaryOp) and isinstance(st.test.op, pyast.Not) \
                and st.test.operand is sub and not st.orelse and len(st.body) == 1 and isinstance(st.body[0], pyast.Raise):
            up = parent.get(st)
            if isinstance(up, pyast.If) and isinstance(up.test, pyast.Compare) and len(up.test.ops) == 1 \
                    and isinstance(up.test.ops[0], pyast.IsNot) and _is_opt(up.test.left, "eliminable_variable_expression"):
                return "Sh_eliminable_raise"
        if ftag == "F_api":
            if isinstance(st, pyast.If) and isinstance(st.test, pyast.BoolOp) and isinstance(st.test.op, pyast.And) \
                    and len(st.test.values) == 2 and isinstance(st.test.values[0], pyast.Name) and st.test.values[0].id == "cache" \
                    and isinstance(st.test.values[1], pyast.UnaryOp) and isinstance(st.test.values[1].op, pyast.Not) \
                    and st.test.values[1].operand is sub:
                return "Sh_cache_implies"
            if isinstance(st, pyast.Assign) and len(st.targets) == 1 and st.targets[0] is sub \
                    and isinstance(st.value, pyast.Constant) and st.value.value is True:
                up = parent.get(st)
                if isinstance(up, pyast.If) and isinstance(up.test, pyast.BoolOp) and any(
                        isinstance(v, pyast.Name) and v.id == "cache" for v in up.test.values):
                    return "Sh_cache_implies"
        return "Sh_unrecognised"

    def shape_attr(n):
        st = stmt_of(n)
        p = parent.get(n)
        if n.attr == "map_mode":
            if isinstance(n.ctx, pyast.Store):
                return "Sh_init_map_mode" if _dump(st) == T_MAP_MODE else "Sh_unrecognised"
            if isinstance(p, pyast.Call) and isinstance(p.func, pyast.Attribute) and p.func.attr == "map" \
                    and len(p.args) == 5 and not p.keywords and p.args[1] is n \
                    and isinstance(p.args[0], pyast.Constant) and p.args[0].value == "map":
                return "Sh_map_arg"
            return "Sh_unrecognised"
        if n.attr == "function_mode":
            if isinstance(n.ctx, pyast.Store):
                return "Sh_init_function_mode" if _dump(st) == T_FUN_MODE else "Sh_unrecognised"
            if isinstance(p, pyast.Starred):
                c = parent.get(p)
                if isinstance(c, pyast.Call) and isinstance(c.func, pyast.Attribute) and c.func.attr == "call" \
                        and len(c.args) == 2 and c.args[1] is p and not c.keywords:
                    return "Sh_call_star"
            return "Sh_unrecognised"
        # _expand_mx_func
        if isinstance(n.ctx, pyast.Store):
            if _dump(st) == T_EXP_INIT:
                return "Sh_expand_func_init"
            if _dump(st) == T_EXP_SET:
                up = parent.get(st)
                if isinstance(up, pyast.If) and _is_opt(up.test, "expand_mx") and not up.orelse:
                    return "Sh_expand_func_set"
            return "Sh_unrecognised"
        if isinstance(p, pyast.Call) and p.func is n and len(p.args) == 1 and not p.keywords \
                and isinstance(parent.get(p), pyast.Return):
            a = p.args[0]
            if isinstance(a, pyast.Call) and isinstance(a.func, pyast.Attribute) and a.func.attr == "Function" \
                    and isinstance(a.func.value, pyast.Name) and a.func.value.id == "ca":
                return "Sh_expand_func_return"
        return "Sh_unrecognised"

    for n in pyast.walk(tree):
        if isinstance(n, pyast.Constant) and isinstance(n.value, str):
            if n.value in FLAGS:
                rows.append((ftag, site_of(n), TRACK[n.value], shape_const(n, n.value), n.lineno))
            elif n.value in ATTRS:      # getattr(self, "map_mode") and the like
                rows.append((ftag, site_of(n), TRACK[n.value], "Sh_unrecognised", n.lineno))
        elif isinstance(n, pyast.Attribute) and n.attr in ATTRS:
            rows.append((ftag, site_of(n), TRACK[n.attr], shape_attr(n), n.lineno))
        elif ftag == "F_otherfile":
            continue      # other backends have unrelated dictionaries called `options`
        elif isinstance(n, pyast.Subscript) and isinstance(n.value, pyast.Name) and n.value.id in OPT_NAMES \
                and not isinstance(n.slice, pyast.Constant):
            # options[<computed key>]
            rows.append((ftag, site_of(n), "T_expand_mx", "Sh_unrecognised", n.lineno))
        elif isinstance(n, pyast.Call):
            # the whole dictionary handed to something
            args = list(n.args) + [k.value for k in n.keywords]
            if any(isinstance(a, pyast.Name) and a.id in OPT_NAMES for a in args):
                callee = n.func.attr if isinstance(n.func, pyast.Attribute) else getattr(n.func, "id", "?")
                if callee not in DICT_SINKS:
                    rows.append((ftag, site_of(n), "T_expand_mx", "Sh_unrecognised", n.lineno))
            # iteration / generic access of the dictionary
            if isinstance(n.func, pyast.Attribute) and isinstance(n.func.value, pyast.Name) \
                    and n.func.value.id in OPT_NAMES and n.func.attr in ("items", "values", "keys", "pop", "copy", "setdefault"):
                if (ftag, method_of(n)) not in DICT_ITER_OK:
                    rows.append((ftag, site_of(n), "T_expand_mx", "Sh_unrecognised", n.lineno))
            if isinstance(n.func, pyast.Attribute) and isinstance(n.func.value, pyast.Name) \
                    and n.func.value.id in OPT_NAMES and n.func.attr == "get" \
                    and not (n.args and isinstance(n.args[0], pyast.Constant)):
                rows.append((ftag, site_of(n), "T_expand_mx", "Sh_unrecognised", n.lineno))
        elif isinstance(n, (pyast.For, pyast.comprehension)) and isinstance(n.iter, pyast.Name) and n.iter.id in OPT_NAMES:
            rows.append((ftag, site_of(n), "T_expand_mx", "Sh_unrecognised", n.lineno))
    return rows


def scan_repo():
    rows = []
    root = os.path.join(core.REPO, "src", "pymoca")
    for d, _dirs, files in sorted(os.walk(root)):
        if "generated" in d:
            continue
        for f in sorted(files):
            if not f.endswith(".py"):
                continue
            path = os.path.join(d, f)
            rel = os.path.relpath(path, core.REPO)
            try:
                rows += [r + (rel,) for r in scan_file(path, FILES.get(rel, "F_otherfile"))]
            except SyntaxError as e:
                rows.append(("F_otherfile", "At_elsewhere", "T_expand_mx", "Sh_unrecognised", 0, rel + ": " + str(e)))
    return rows


def tie(ctx):
    rows = scan_repo()
    found = "; ".join("(%s, %s, %s, %s)" % r[:4] for r in rows)
    text = (core.HEADER + "From Coq Require Import List Bool.\nImport ListNotations.\n"
            "From PV Require Import Model.C12_options.\n"
            "(* regenerated from %s/src/pymoca by vlib/c12.py: one row per occurrence *)\n"
            "Definition found : list row :=\n  [%s].\n"
            "Eval vm_compute in (sites_ok found).\n"
            "Eval vm_compute in (length (filter (fun r => negb (row_allowed r)) found)).\n" % (core.REPO, found))
    ok, out, err = core.coq_run(ctx, "Gen", text)
    bad = [r for r in rows if r[3] == "Sh_unrecognised" or r[1] == "At_elsewhere"]
    ctx.notes["flag_read_sites"] = ["%s:%d %s %s %s" % (r[5], r[4], r[1], r[2], r[3]) for r in rows]
    if not ok:
        ctx.oblige("tie:Gen.v-compiles", False, err[-800:])
        return False
    vals = core.coq_results(out)
    good = len(vals) >= 2 and vals[0].strip() == "true"
    ctx.oblige("tie:flags-are-read-only-at-the-modelled-sites (sites_ok found, vm_compute)", good,
               "sites_ok=%s; unrecognised occurrences: %s" % (vals[:2], ["%s:%d %s %s" % (r[5], r[4], r[2], r[3]) for r in bad][:8]))
    return good


# =============================================================================================
# model generator.  JSON expressions:
#   ["num", text] | ["v", name] | ["der", name] | ["idx", name, k] | ["lidx", name, k] | ["loopvar"] | ["arg", j]
#   | ["neg", e] | ["bin", op, a, b] | ["not", e] | ["if", c, a, b] | ["call", fname, a, b]
# =============================================================================================
NUMS = ["0", "1", "2", "3", "0.5", "1.5", "0.25", "2.5", "0.125", "0.75"]
ARG_NAMES = ["x", "y", "z", "w", "t"]
CANODE = {"+": "CAdd", "-": "CSub", "*": "CMul", "/": "CDiv", "<": "CLt", "<=": "CLe", ">": "CGt", ">=": "CGe",
          "min": "CFmin", "max": "CFmax", "and": "CMul", "or": "CAdd"}
TIME_ID = 999


class MG:
    def __init__(self, rng):
        self.rng = rng
        self.N = rng.randint(2, 4)
        self.funs = []          # {"name", "id", "nout", "body"}
        self.loop = None        # (lo, hi) numeric
        self.infun = None       # list of readable slots when generating a function body
        self.cdim = self.N + 1 if rng.random() < 0.7 else self.N
        self.W = rng.randint(6, 8)
        self.dims = {"a": self.N, "c": self.cdim, "w": self.W}
        self.arrays = ["a", "c", "w"]
        self.scalars = ["x1", "x2", "x3", "y1", "u1", "p1", "p2", "k1"]

    # ---- expressions ----
    def atom(self):
        r = self.rng
        if self.infun is not None:
            x = r.random()
            if x < 0.25:
                return ["num", r.choice(NUMS)]
            if self.loop is not None and x < 0.45:
                return ["loopvar"]
            return ["arg", r.choice(self.infun)]
        x = r.random()
        if x < 0.2:
            return ["num", r.choice(NUMS)]
        if x < 0.55:
            return ["v", r.choice(self.scalars + ["time"])]
        if x < 0.62:
            return ["der", r.choice(["x1", "x2"])]
        if self.loop is not None and x < 0.93:
            if r.random() < 0.2:
                return ["loopvar"]
            return self.lidx()
        arr = r.choice(self.arrays)
        return ["idx", arr, r.randint(1, self.dims[arr])]

    def lidx(self, arr=None):
        """x[<subscript of the loop index>], every value of the subscript inside 1..dim:
        i+k | c-i | n+k-i (reversals) | a*i-c | i*i"""
        r = self.rng
        lo, hi = self.loop
        arr = arr or r.choice(self.arrays)
        D = self.dims[arr]
        forms = [k for k in (-1, 0, 0, 0, 1, 2) if lo + k >= 1 and hi + k <= D]
        forms += [["rev", c] for c in range(hi + 1, D + lo + 1)]
        forms += [["nrev", k] for k in (-1, 0, 1, 2) if self.N + k - hi >= 1 and self.N + k - lo <= D]
        forms += [["lin", 2, c] for c in range(2 * hi - D, 2 * lo) if -2 <= c <= 3]
        if hi * hi <= D:
            forms.append(["sq"])
        plain = [f for f in forms if isinstance(f, int)]
        fancy = [f for f in forms if not isinstance(f, int)]
        if fancy and r.random() < 0.45:
            return ["lidx", arr, r.choice(fancy)]
        return ["lidx", arr, r.choice(plain)]

    def cond(self, d):
        r = self.rng
        x = r.random()
        if self.infun is None and x < 0.25:
            return ["v", "b1"]
        if d > 0 and x < 0.40:
            return ["bin", r.choice(["and", "or"]), self.cond(d - 1), self.cond(d - 1)]
        if d > 0 and x < 0.47:
            return ["not", self.cond(d - 1)]
        return ["bin", r.choice([">", "<", ">=", "<="]), self.real(d - 1), self.real(d - 1)]

    def real(self, d, calls=True):
        r = self.rng
        if d <= 0 or r.random() < 0.2:
            return self.atom()
        x = r.random()
        if x < 0.45:
            op = r.choice(["+", "-", "*", "+", "-", "*", "min", "max"])
            return ["bin", op, self.real(d - 1, calls), self.real(d - 1, calls)]
        if x < 0.52:
            return ["bin", "/", self.real(d - 1, calls), ["num", r.choice(["2", "4", "0.5"])]]
        if x < 0.60:
            return ["neg", self.real(d - 1, calls)]
        if x < 0.80:
            return ["if", self.cond(d - 1), self.real(d - 1, calls), self.real(d - 1, calls)]
        single = [f for f in self.funs if f["nout"] == 1]
        if calls and self.infun is None and single:
            f = r.choice(single)
            return ["call", f["name"], self.real(d - 1, False), self.real(d - 1, False)]
        return self.atom()

    # ---- functions: slots 0,1 inputs x,y; 2 output z; 3 output w (if nout = 2); 4 local t ----
    def function(self, fid):
        r = self.rng
        nout = r.choice([1, 1, 2])
        body = []
        self.infun = [0, 1]
        body.append(["assign", 4, self.real(2)])
        self.infun = [0, 1, 4]
        body.append(["assign", 2, self.real(2)])
        self.infun = [0, 1, 4, 2]
        if r.random() < 0.6:
            body.append(["ifassign", 2, self.cond(1), self.real(1), self.real(1)])
        if r.random() < 0.7:
            lo = r.randint(1, 2)
            hi = r.randint(lo, 4)
            self.loop = (lo, hi)
            body.append(["for", lo, hi, 2, ["bin", r.choice(["+", "-", "*"]), ["arg", 2], self.real(1)]])
            self.loop = None
        if nout == 2:
            body.append(["assign", 3, self.real(2)])
            if r.random() < 0.4:
                self.infun = [0, 1, 4, 2, 3]
                lo, hi = 1, r.randint(1, 3)
                self.loop = (lo, hi)
                body.append(["for", lo, hi, 3, ["bin", "+", ["arg", 3], self.real(1)]])
                self.loop = None
        self.infun = None
        return {"name": "f%d" % (fid + 1), "id": fid, "nout": nout, "body": body}

    # ---- equations ----
    def lhs(self):
        r = self.rng
        x = r.random()
        if x < 0.4:
            return ["v", r.choice(["x1", "x2", "x3", "y1"])]
        if x < 0.7:
            return ["der", r.choice(["x1", "x2"])]
        arr = r.choice(self.arrays)
        return ["idx", arr, r.randint(1, self.dims[arr])]

    def hi_ib(self, hi):
        """a loop bound equal to hi, written as a literal or through the Integer parameter n"""
        k = hi - self.N
        if -1 <= k <= 1 and self.rng.random() < 0.6:
            return ["par", "n", k]
        return ["lit", hi]

    def equation(self):
        r = self.rng
        x = r.random()
        if x < 0.34:
            return ["eq", self.lhs(), self.real(r.choice([1, 2, 2, 3]))]
        if x < 0.42:
            two = [f for f in self.funs if f["nout"] == 2]
            if two:
                f = r.choice(two)
                return ["tuple", ["v", r.choice(["x2", "x3"])], ["v", "y1"], f["name"], self.real(1, False), self.real(1, False)]
            return ["eq", self.lhs(), self.real(2)]
        if x < 0.80:
            lo = r.randint(1, 2)
            hi = r.randint(lo, self.N)
            self.loop = (lo, hi)
            body = []
            for _ in range(r.choice([1, 1, 2, 3])):
                l = self.lidx()
                rhs = self.real(r.choice([1, 2]))
                if r.random() < 0.4:      # one array under several different subscripts of i
                    arr = r.choice(self.arrays)
                    rhs = ["bin", r.choice(["+", "-", "*"]), ["bin", "-", self.lidx(arr), self.lidx(arr)], rhs]
                body.append([l, rhs])
            self.loop = None
            return ["for", lo, self.hi_ib(hi), body]
        if x < 0.90:
            e = ["bin", r.choice(["+", "*", "-"]), ["v", r.choice(["x1", "x2", "x3", "u1"])], self.real(1, False)]   # never a literal
            return ["delay", self.lhs(), e, r.choice([["num", "0.5"], ["v", "p1"], ["num", "2"]])]
        lo = r.randint(1, 2)
        hi = r.randint(lo, self.N)
        self.loop = (lo, hi)
        l, e = self.lidx(), self.lidx()
        self.loop = None
        return ["fordelay", lo, self.hi_ib(hi), l, e, r.choice([["num", "0.5"], ["v", "p1"]])]

    def model(self, stream):
        r = self.rng
        nf = r.choice([1, 2, 2])
        self.funs = [self.function(i) for i in range(nf)]
        decls = [{"name": "n", "prefix": ["parameter"], "type": "Integer", "dim": None, "value": ["num", str(self.N)], "attrs": []}]
        rest = [
            {"name": "x1", "prefix": [], "type": "Real", "dim": None, "value": None,
             "attrs": r.choice([[], [["start", ["num", "1"]]], [["start", ["num", "0.5"]], ["min", ["neg", ["v", "p1"]]], ["max", ["bin", "*", ["v", "p1"], ["num", "4"]]]]])},
            {"name": "x2", "prefix": [], "type": "Real", "dim": None, "value": None, "attrs": r.choice([[], [["nominal", ["num", "2"]]]])},
            {"name": "x3", "prefix": [], "type": "Real", "dim": None, "value": None, "attrs": []},
            {"name": "y1", "prefix": r.choice([["output"], ["output"], []]), "type": "Real", "dim": None, "value": None, "attrs": []},
            {"name": "u1", "prefix": ["input"], "type": "Real", "dim": None, "value": None, "attrs": []},
            {"name": "p1", "prefix": ["parameter"], "type": "Real", "dim": None, "value": ["num", r.choice(["1.5", "0.5", "2"])], "attrs": []},
            {"name": "p2", "prefix": ["parameter"], "type": "Real", "dim": None, "value": None, "attrs": []},
            {"name": "k1", "prefix": ["constant"], "type": "Real", "dim": None, "value": ["num", "2.0"], "attrs": []},
            {"name": "b1", "prefix": [], "type": "Boolean", "dim": None, "value": None, "attrs": []},
            {"name": "a", "prefix": r.choice([[], [], ["output"]]), "type": "Real", "dim": ["par", "n", 0], "value": None, "attrs": []},
            {"name": "c", "prefix": [], "type": "Real",
             "dim": ["par", "n", 1] if self.cdim == self.N + 1 else r.choice([["par", "n", 0], ["lit", self.N]]), "value": None, "attrs": []},
            {"name": "w", "prefix": [], "type": "Real", "dim": ["lit", self.W], "value": None, "attrs": []},
        ]
        single = [f for f in self.funs if f["nout"] == 1]
        y = r.random()
        attr_fun = None
        if y < 0.35 and single:      # attribute expression calling a user function
            attr_fun = r.choice(single)
            rest[6]["value"] = ["call", attr_fun["name"], ["v", "p1"], ["num", r.choice(NUMS)]]
        elif y < 0.8:
            rest[6]["value"] = ["bin", r.choice(["*", "+"]), ["v", "p1"], ["num", "2"]]
        else:
            rest[6]["value"] = ["num", "3"]
        if r.random() < 0.3:         # an array of dimension 0: dropped from the lists
            rest.append({"name": "z", "prefix": [], "type": "Real", "dim": ["par", "n", -self.N] if r.random() < 0.7 else ["lit", 0],
                         "value": None, "attrs": []})
        if r.random() < 0.5:
            r.shuffle(rest)
        decls += rest
        eqs = [self.equation() for _ in range(r.randint(3, 6))]
        eqs.append(["eq", ["v", "b1"], self.cond(1)])
        kinds = [q[0] for q in eqs]
        if "for" not in kinds:
            eqs.append(self.force("for"))
        if stream == "delay" and "fordelay" not in kinds:
            eqs.append(self.force("fordelay"))
        if not any('"call"' in json.dumps(q) or q[0] == "tuple" for q in eqs):
            f = self.funs[0]
            if f["nout"] == 1:
                eqs.append(["eq", self.lhs(), ["bin", "+", ["call", f["name"], self.real(1, False), self.real(1, False)], self.real(1)]])
            else:
                eqs.append(["tuple", ["v", "x3"], ["v", "y1"], f["name"], self.real(1, False), self.real(1, False)])
        if attr_fun is not None and not any(('"call", "%s"' % attr_fun["name"]) in json.dumps(q) for q in eqs):
            # flattening only pulls in the functions the equations use
            eqs.append(["eq", ["v", "x3"], ["bin", "-", ["call", attr_fun["name"], self.real(1, False), self.real(1, False)], self.real(1)]])
        if stream == "simpl":
            eqs.append(["eq", ["v", "x3"], ["num", r.choice(["1.5", "3"])]])      # a constant assignment to eliminate
        r.shuffle(eqs)
        ieqs = [["eq", ["v", r.choice(["x1", "x2", "x3"])], self.real(2)] for _ in range(r.choice([1, 1, 2, 0]))]
        return {"kind": "model", "name": "M", "N": self.N, "decls": decls, "funs": self.funs, "eqs": eqs, "ieqs": ieqs,
                "stream": stream}

    def force(self, kind):
        for _ in range(200):
            q = self.equation()
            if q[0] == kind:
                return q
        raise RuntimeError("generator cannot produce " + kind)


# ---- printing ------------------------------------------------------------------------------
def pe(e):
    t = e[0]
    if t == "num":
        return e[1]
    if t == "v":
        return e[1]
    if t == "der":
        return "der(%s)" % e[1]
    if t == "idx":
        return "%s[%d]" % (e[1], e[2])
    if t == "lidx":
        return "%s[%s]" % (e[1], psub(e[2]))
    if t == "loopvar":
        return "i"
    if t == "arg":
        return ARG_NAMES[e[1]]
    if t == "neg":
        return "(-%s)" % pe(e[1])
    if t == "not":
        return "(not %s)" % pe(e[1])
    if t == "bin":
        if e[1] in ("min", "max"):
            return "%s(%s, %s)" % (e[1], pe(e[2]), pe(e[3]))
        return "(%s %s %s)" % (pe(e[2]), e[1], pe(e[3]))
    if t == "if":
        return "(if %s then %s else %s)" % (pe(e[1]), pe(e[2]), pe(e[3]))
    if t == "call":
        return "%s(%s, %s)" % (e[1], pe(e[2]), pe(e[3]))
    raise ValueError(t)


def psub(f):
    if isinstance(f, int):
        return "i" if f == 0 else "i%s%d" % ("+" if f > 0 else "-", abs(f))
    if f[0] == "rev":
        return "%d - i" % f[1]
    if f[0] == "nrev":
        return "n - i" if f[1] == 0 else "n %s %d - i" % ("+" if f[1] > 0 else "-", abs(f[1]))
    if f[0] == "lin":
        return "%d * i" % f[1] if f[2] == 0 else "%d * i %s %d" % (f[1], "-" if f[2] > 0 else "+", abs(f[2]))
    if f[0] == "sq":
        return "i * i"
    raise ValueError(f)


def pib(b):
    if b[0] == "lit":
        return str(b[1])
    return "n" if b[2] == 0 else "n%s%d" % ("+" if b[2] > 0 else "-", abs(b[2]))


def pq(q):
    t = q[0]
    if t == "eq":
        return "  %s = %s;\n" % (pe(q[1]), pe(q[2]))
    if t == "tuple":
        return "  (%s, %s) = %s(%s, %s);\n" % (pe(q[1]), pe(q[2]), q[3], pe(q[4]), pe(q[5]))
    if t == "for":
        return "  for i in %d:%s loop\n%s  end for;\n" % (q[1], pib(q[2]), "".join("    %s = %s;\n" % (pe(l), pe(r)) for l, r in q[3]))
    if t == "delay":
        return "  %s = delay(%s, %s);\n" % (pe(q[1]), pe(q[2]), pe(q[3]))
    if t == "fordelay":
        return "  for i in %d:%s loop\n    %s = delay(%s, %s);\n  end for;\n" % (q[1], pib(q[2]), pe(q[3]), pe(q[4]), pe(q[5]))
    raise ValueError(t)


def pfun(f):
    s = "function %s\n  input Real x;\n  input Real y;\n  output Real z;\n" % f["name"]
    if f["nout"] == 2:
        s += "  output Real w;\n"
    s += "protected\n  Real t;\nalgorithm\n"
    for st in f["body"]:
        if st[0] == "assign":
            s += "  %s := %s;\n" % (ARG_NAMES[st[1]], pe(st[2]))
        elif st[0] == "ifassign":
            s += "  if %s then\n    %s := %s;\n  else\n    %s := %s;\n  end if;\n" % (
                pe(st[2]), ARG_NAMES[st[1]], pe(st[3]), ARG_NAMES[st[1]], pe(st[4]))
        else:
            s += "  for i in %d:%d loop\n    %s := %s;\n  end for;\n" % (st[1], st[2], ARG_NAMES[st[3]], pe(st[4]))
    return s + "end %s;\n" % f["name"]


def model_text(m):
    s = "".join(pfun(f) for f in m["funs"])
    s += "model M\n"
    for d in m["decls"]:
        mods = ["%s = %s" % (a, pe(v)) for a, v in d["attrs"]]
        s += "  %s%s %s%s%s%s;\n" % ("".join(p + " " for p in d["prefix"]), d["type"], d["name"],
                                    "[%s]" % pib(d["dim"]) if d["dim"] else "",
                                    "(%s)" % ", ".join(mods) if mods else "",
                                    " = %s" % pe(d["value"]) if d["value"] is not None else "")
    if m["ieqs"]:
        s += "initial equation\n" + "".join(pq(q) for q in m["ieqs"])
    s += "equation\n" + "".join(pq(q) for q in m["eqs"]) + "end M;\n"
    return s


def gen_point(rng, m):
    def dy():
        return Fraction(rng.randint(-24, 24), 8)
    p = {"time": dy()}
    for d in m["decls"]:
        n = d["name"]
        if n == "n":
            p[n] = Fraction(m["N"])
        elif d["type"] == "Boolean":
            p[n] = Fraction(rng.randint(0, 1))           # Booleans are encoded as 0/1
        elif d["dim"]:
            size = d["dim"][1] if d["dim"][0] == "lit" else m["N"] + d["dim"][2]
            p[n] = [dy() for _ in range(size)]
        else:
            p[n] = dy()
            p["der(%s)" % n] = dy()
    if rng.random() < 0.3:
        p["x2"] = p["x1"]
    return p


def finalize(m, rng, npoints):
    m["text"] = model_text(m)
    pts = [gen_point(rng, m) for _ in range(npoints)]
    m["points"] = [{k: ([float(x) for x in v] if isinstance(v, list) else float(v)) for k, v in p.items()} for p in pts]
    return m


# =============================================================================================
# text-template streams (oracle only; outside the Coq model, which has scalars and 1-D arrays)
#   matrix: user functions with 2-D array arguments whose for-statements read row / column slices by the loop
#           index, scalar elements, whole-matrix arguments
#   alias : intra-array alias equations in both index orders (chains in for-loops and scalar equations, negated
#           aliases), compiled with expand_vectors + detect_aliases (+ eliminate_constant_assignments) FIXED
# Values of all variables come from the child's by-name default (salted per point).
# =============================================================================================
def text_points(rng, extra=()):
    pts = []
    for k in range(3):
        p = {"time": rng.randint(-16, 16) / 8.0, "#salt": rng.randint(1, 10 ** 6)}
        for n in extra:
            p[n] = rng.randint(0, 1)
        pts.append(p)
    return pts


# ---- matrix stream: structured, printed to Modelica AND encoded for the Coq model -------------------------
# function-body expressions: ["num", t] | ["acc"] (the output s) | ["x"] (scalar argument) | ["lv"] (loop variable)
#   | ["b", idx] | ["A", ri, ci] (idx: "i" = loop variable, int = constant, ":" = whole slice, summed) | ["bin", op, a, b]
def mpe(e, lv):
    t = e[0]
    if t == "num":
        return e[1]
    if t == "acc":
        return "s"
    if t == "x":
        return "x"
    if t == "lv":
        return lv
    sub = lambda d: lv if d == "i" else (":" if d == ":" else str(d))      # noqa
    if t == "b":
        return "b[%s]" % sub(e[1])
    if t == "A":
        txt = "A[%s, %s]" % (sub(e[1]), sub(e[2]))
        return "sum(%s)" % txt if ":" in (e[1], e[2]) else txt
    if t == "bin":
        return "(%s %s %s)" % (mpe(e[2], lv), e[1], mpe(e[3], lv))
    raise ValueError(t)


def mcx(e, r, c):
    """Coq sx of a function-body expression; slots: 0 = scalar argument x, 1 = output s; arrays: 0 = A[r, c], 1 = b[r]"""
    t = e[0]
    midx = lambda d: "XI" if d == "i" else ("XAll" if d == ":" else "(XK %s)" % cq_Z(d))      # noqa
    if t == "num":
        return "(SNum %s)" % cqc(e[1])
    if t == "acc":
        return "(SRef (SArg 1%nat))"
    if t == "x":
        return "(SRef (SArg 0%nat))"
    if t == "lv":
        return "(SRef SLoop)"
    if t == "b":
        return "(SRef (SM 1%%nat %s (XK (1)%%Z) %s 1%%nat))" % (midx(e[1]), cq_nat(r))
    if t == "A":
        return "(SRef (SM 0%%nat %s %s %s %s))" % (midx(e[1]), midx(e[2]), cq_nat(r), cq_nat(c))
    if t == "bin":
        return "(SBin %s %s %s)" % (CANODE[e[1]], mcx(e[2], r, c), mcx(e[3], r, c))
    raise ValueError(t)


def gen_matrix(rng):
    r, c = rng.randint(2, 3), rng.randint(2, 3)
    kc, kr = rng.randint(1, c), rng.randint(1, r)
    B = lambda d: ["b", d]                    # noqa
    A = lambda x, y: ["A", x, y]              # noqa
    mul = lambda x, y: ["bin", "*", x, y]     # noqa
    add = lambda x, y: ["bin", "+", x, y]     # noqa
    sub = lambda x, y: ["bin", "-", x, y]     # noqa
    row_terms = [mul(B("i"), A("i", ":")), A("i", kc), mul(A("i", ":"), ["lv"]), add(mul(B("i"), A("i", kc)), A("i", ":")),
                 sub(A("i", ":"), B("i")), add(mul(B("i"), A("i", ":")), A("i", kc))]
    col_terms = [A(":", "i"), mul(A(kr, "i"), ["lv"]), mul(A(":", "i"), A(1, "i")), sub(A(":", "i"), ["lv"])]
    # an unused input is rejected by the generator: b always occurs
    init = rng.choice([B(1), add(B(1), ["num", "1.5"]), mul(B(r), A(1, 1)), mul(["num", "0"], B(1))])
    loops = []      # (loop variable, lo, hi, new value of s)
    if rng.random() < 0.8:
        loops.append(["i", 1, r, ["bin", rng.choice(["+", "-"]), ["acc"], rng.choice(row_terms)]])
    if rng.random() < 0.6 or not loops:
        loops.append(["j", 1, c, ["bin", rng.choice(["+", "-"]), ["acc"], rng.choice(col_terms)]])
    if rng.random() < 0.3:
        loops.append(["i", rng.randint(1, 2), r, add(mul(["acc"], ["num", "0.5"]), rng.choice(row_terms))])
    rng.shuffle(loops)
    two = rng.random() < 0.4
    pval = rng.choice(["2.0", "1.5", "0.5"])
    yform = rng.choice(["", "time", "p"])
    m = {"kind": "text", "name": "M", "stream": "matrix", "r": r, "c": c, "kr": kr, "kc": kc, "init": init, "loops": loops,
         "two": two, "pval": pval, "yform": yform, "points": text_points(rng)}
    # ---- Modelica text
    fn = "function g\n  input Real A[%d, %d];\n  input Real b[%d];\n  output Real s;\nalgorithm\n  s := %s;\n" % (r, c, r, mpe(init, "i"))
    for lv, lo, hi, e in loops:
        fn += "  for %s in %d:%d loop\n    s := %s;\n  end for;\n" % (lv, lo, hi, mpe(e, lv))
    fn += "end g;\n"
    # (sum of a ROW slice outside a loop is a 1 x c row for the real generator - ca.sum1 - so h sums a column)
    h1 = add(mul(["x"], A(kr, kc)), A(":", kc))
    h_then, h_else = sub(["acc"], A(1, 1)), add(["acc"], ["x"])
    fn2 = ""
    if two:       # a whole-matrix argument used without a loop, and scalar elements
        fn2 = ("function h\n  input Real A[%d, %d];\n  input Real x;\n  output Real s;\nalgorithm\n  s := %s;\n"
               "  if s > 1 then\n    s := %s;\n  else\n    s := %s;\n  end if;\nend h;\n"
               % (r, c, mpe(h1, "i"), mpe(h_then, "i"), mpe(h_else, "i")))
    mdl = "model M\n  parameter Real p = %s;\n  Real A[%d, %d];\n  Real b[%d](each start = p, each max = 3 * p);\n  Real y;\n%s" % (
        pval, r, c, r, "  Real y2;\n" if two else "")
    mdl += "equation\n  y = g(A, b)%s;\n" % {"": "", "time": " + time", "p": " * p"}[yform]
    if two:
        mdl += "  y2 = h(A, y) + g(A, b);\n"
    mdl += "  for i in 1:%d loop\n    A[i, 1] = i * time;\n" % r
    for k in range(2, c + 1):
        mdl += "    A[i, %d] = b[i] + %d;\n" % (k, k)
    mdl += "    der(b[i]) = -p * b[i];\n  end for;\ninitial equation\n  for i in 1:%d loop\n    b[i] = i * p;\n  end for;\nend M;\n" % r
    m["text"] = fn + fn2 + mdl
    # ---- Coq smodel: variables p=0, A=1, b=2, y=3, y2=4; array functions g=0, h=1
    ids = {"p": 0, "A": 1, "b": 2, "y": 3, "y2": 4}
    V = lambda n: "(SRef (SV %s))" % cq_nat(n)      # noqa
    sym = lambda i, pref: "(C10.mkSym %s %s %s C10.TReal false)" % (cq_nat(i), cq_nat(i), pref)      # noqa
    decls = ["(mkDecl %s None None [(SNum %s)])" % (sym(0, "[C10.Kparameter]"), cqc(pval)),
             "(mkDecl %s (Some (ILit %s)) (Some %s) [])" % (sym(1, "[]"), cq_Z(r), cq_Z(c)),
             "(mkDecl %s (Some (ILit %s)) None [%s; (SBin CMul (SNum %s) %s)])" % (sym(2, "[]"), cq_Z(r), V(0), cqc("3"), V(0)),
             "(mkDecl %s None None [])" % sym(3, "[]")]
    if two:
        decls.append("(mkDecl %s None None [])" % sym(4, "[]"))
    gbody = ["(TAssign 1%%nat %s)" % mcx(init, r, c)]
    for lv, lo, hi, e in loops:
        gbody.append("(TFor %s (ILit %s) 1%%nat %s)" % (cq_Z(lo), cq_Z(hi), mcx(e, r, c)))
    mfuns = ["(0%%nat, mkSfun %s [1%%nat])" % cq_list(gbody)]
    if two:
        hb = ["(TAssign 1%%nat %s)" % mcx(h1, r, c),
              "(TAssign 1%%nat (SIf (SBin CGt (SRef (SArg 1%%nat)) (SNum %s)) %s %s))" % (cqc("1"), mcx(h_then, r, c), mcx(h_else, r, c))]
        mfuns.append("(1%%nat, mkSfun %s [1%%nat])" % cq_list(hb))
    callg = "(SCallM 0%%nat 1%%nat 2%%nat (SNum %s) 0%%nat)" % cqc("0")
    rhs = {"": callg, "time": "(SBin CAdd %s %s)" % (callg, V(TIME_ID)), "p": "(SBin CMul %s %s)" % (callg, V(0))}[yform]
    eqs = ["(MEq %s %s)" % (V(3), rhs)]
    if two:
        eqs.append("(MEq %s (SBin CAdd (SCallM 1%%nat 1%%nat 2%%nat %s 0%%nat) %s))" % (V(4), V(3), callg))
    bi = "(SRef (SL 2%nat (IOff (0)%Z)))"
    body = ["((SRef (SL2 1%%nat (IOff (0)%%Z) (1)%%Z)), (SBin CMul (SRef SLoop) %s))" % V(TIME_ID)]
    for k in range(2, c + 1):
        body.append("((SRef (SL2 1%%nat (IOff (0)%%Z) %s)), (SBin CAdd %s (SNum %s)))" % (cq_Z(k), bi, cqc(str(k))))
    body.append("((SRef (SDL 2%%nat (IOff (0)%%Z))), (SBin CMul (SNeg %s) %s))" % (V(0), bi))
    eqs.append("(MFor (1)%%Z (ILit %s) %s)" % (cq_Z(r), cq_list(body)))
    ieqs = ["(MFor (1)%%Z (ILit %s) [(%s, (SBin CMul (SRef SLoop) %s))])" % (cq_Z(r), bi, V(0))]
    m["coq"] = "(mkSmodel %s (fun _ => 0%%Z) [] %s %s %s)" % (cq_list(decls), cq_list(mfuns), cq_list(eqs), cq_list(ieqs))
    m["ids"] = ids
    # explicit dyadic points (every variable by name; A column-major): the residuals are exact in binary64
    dy = lambda: rng.randint(-16, 16) / 8.0      # noqa
    m["points"] = [{"time": dy(), "p": dy(), "y": dy(), "y2": dy(), "A": [dy() for _ in range(r * c)],
                    "b": [dy() for _ in range(r)], "der(b)": [dy() for _ in range(r)]} for _ in range(3)]
    return m


def encode_vcases(m, case, res, npoints=2):
    """value-level Coq cases of an array-function model: per point the exact dae / initial residuals under each triple"""
    out = []
    if "combos" not in res or not all(o.get("ok") for o in res["combos"]):
        return out
    q = lambda x: cqc(str(Fraction(x)))      # noqa
    ql = lambda xs: cq_list([q(x) for x in xs])      # noqa
    for pi, pt in enumerate(m["points"][:npoints]):
        vp = ("(mkVpoint [(999%%nat, %s); (0%%nat, %s); (3%%nat, %s); (4%%nat, %s)] [(2%%nat, %s)] [(2%%nat, %s)] [(1%%nat, (%s, %s))])"
              % (q(pt["time"]), q(pt["p"]), q(pt["y"]), q(pt["y2"]), ql(pt["b"]), ql(pt["der(b)"]), cq_nat(m["r"]), ql(pt["A"])))
        obs = []
        for cmb, o in zip(case["combos"], res["combos"]):
            vals = []
            for fn in ("dae", "init"):
                flat = [x for out_ in o["funcs"][fn][pi] for x in out_]
                if any(x in ("nan", "inf", "-inf") for x in flat):
                    return []
                vals.append(cq_list([cqc(str(Fraction(float.fromhex(x)))) for x in flat]))
            obs.append("(mkFlags %s %s %s, (%s, %s))" % (cq_bool(cmb[0]), cq_bool(cmb[1]), cq_bool(cmb[2]), vals[0], vals[1]))
        out.append("(%s, %s, %s)" % (m["coq"], vp, cq_list(obs)))
    return out


def gen_alias(rng):
    n = rng.randint(3, 5)
    neg = lambda: rng.choice(["", "", "-"])      # noqa
    eqs = []
    # a chain inside a for-loop, either index order
    form = rng.choice(["up", "down", "upneg", "scalar"])
    if form == "up":
        eqs.append("  for i in 2:n loop\n    w[i] = %sw[i - 1];\n  end for;\n" % neg())
    elif form == "down":
        eqs.append("  for i in 2:n loop\n    w[i - 1] = %sw[i];\n  end for;\n" % neg())
    elif form == "upneg":
        eqs.append("  for i in 1:n - 1 loop\n    w[i + 1] = %sw[i];\n  end for;\n" % neg())
    else:
        ks = list(range(2, n + 1))
        rng.shuffle(ks)
        for k in ks:
            eqs.append("  w[%d] = %sw[%d];\n" % ((k, neg(), k - 1) if rng.random() < 0.5 else (k - 1, neg(), k)))
    eqs.append("  w[%d] = sin(time);\n" % rng.choice([1, n]))
    # scalar alias equations between elements of v, both orders
    a, b = rng.sample([1, 2, 3], 2)
    eqs.append("  v[%d] = %sv[%d];\n" % (a, neg(), b))
    third = ({1, 2, 3} - {a, b}).pop()
    eqs.append("  v[%d] = sq(x[2]);\n" % third)
    eqs.append("  v[%d] = x[1] * x[3];\n" % rng.choice([a, b]))
    if rng.random() < 0.5:      # an alias between different arrays and a scalar
        eqs.append("  u = %sx[%d];\n" % (neg(), rng.randint(1, n)))
    else:
        eqs.append("  u = w[%d] + 1;\n" % rng.randint(1, n))
    if rng.random() < 0.5:
        eqs.append("  k = %s;\n" % rng.choice(["3", "1.5"]))      # a constant assignment
    else:
        eqs.append("  k = u * 2;\n")
    rng.shuffle(eqs)
    text = ("function sq\n  input Real v;\n  output Real w;\nalgorithm\n  w := v * v + 1;\nend sq;\n"
            "model M\n  parameter Integer n = %d;\n  parameter Real p = 2.0;\n  Real x[n](each start = p);\n"
            "  Real w[n](each max = 3 * p);\n  Real v[3];\n  Real u;\n  Real k;\nequation\n"
            "  for i in 1:n loop\n    der(x[i]) = -p * sq(x[i]) + w[i];\n  end for;\n%s"
            "initial equation\n  for i in 1:n loop\n    x[i] = i * p;\n  end for;\nend M;\n" % (n, "".join(eqs)))
    fixed = {"check_balanced": False, "expand_vectors": True, "detect_aliases": True}
    if rng.random() < 0.4:
        fixed["eliminate_constant_assignments"] = True
    return {"kind": "text", "name": "M", "text": text, "stream": "alias", "points": text_points(rng), "fixed": fixed}


PWL = {   # piecewise-linear (not linear) bodies, a smooth one and a linear one
    "deadband": "max(abs(a) - w, 0)", "sat": "min(max(a, -w), w)", "relu": "if a > w then a - w else 0",
    "hat": "abs(a - w) + abs(a + w)", "lo": "min(a, w) + 0.5 * a", "sq2": "a * a + w", "lin": "2 * a - w"}


def gen_attr(rng):
    """attributes (min/max/start/nominal) defined through USER FUNCTIONS of the parameters, mostly piecewise linear
    (abs/min/max/if), so that variable_metadata_function's affine test matters; der() applied to function calls with
    scalar inputs and (flagged: known defect on the unrepaired tree) with a vector input"""
    pool = ["deadband", "sat", "hat", "lo"]          # bodies whose call node has a structurally zero Hessian
    F1, F2 = rng.sample(pool, 2)
    F3 = rng.choice(pool + ["relu", "lin"])           # equations only unless it is in the pool
    if rng.random() < 0.15:
        F2 = "sq2"                                    # a smooth non-linear attribute: nothing may be linearised
    names = [F1, F2, F3]
    A3 = F3 if F3 in pool else F1
    fns = "".join("function %s\n  input Real a;\n  input Real w;\n  output Real y;\nalgorithm\n  y := %s;\nend %s;\n" % (k, PWL[k], k)
                  for k in sorted(set(names)))
    fns += "function gain\n  input Real a;\n  output Real y;\nalgorithm\n  y := 2 * a;\nend gain;\n"
    n = rng.randint(2, 4)
    der_vec = rng.random() < 0.35
    der_sc = rng.random() < 0.5
    if der_vec:
        k = rng.randint(1, 3)
        fns += "function pick\n  input Real a[3];\n  output Real y;\nalgorithm\n  y := a[%d]%s;\nend pick;\n" % (
            k, rng.choice(["", " * 2", " + a[%d]" % (k % 3 + 1)]))
    if der_sc:
        fns += "function sc\n  input Real a;\n  input Real b;\n  output Real y;\nalgorithm\n  y := %s;\nend sc;\n" % rng.choice(
            ["a * b + a", "a - 2 * b", "a * a + b"])
    attr = lambda f, x, y: "%s(%s, %s)" % (f, x, y)      # noqa
    mdl = ("model M\n  parameter Integer n = %d;\n  parameter Real ref = %s;\n  parameter Real band = %s;\n"
           % (n, rng.choice(["2.5", "1.5", "-2"]), rng.choice(["0.5", "1", "0.25"])))
    mdl += "  Real h[n](each start = %s, each max = ref + %s, each min = -gain(band));\n" % (
        rng.choice(["ref", attr(F2, "ref", "band")]), attr(F1, "ref", "band"))
    mdl += "  Real q(nominal = %s, max = %s);\n" % (attr(F2, "ref", "band"), rng.choice(["gain(ref)", attr(A3, "band", "ref")]))
    mdl += "  Real d(min = %s);\n  input Real u;\n" % rng.choice(["-band", attr(A3, "ref", "1"), "-3"])
    if der_vec:
        mdl += "  Real x[3];\n  Real z;\n"
    if der_sc:
        mdl += "  Real s;\n  Real t;\n"
    mdl += "equation\n  for i in 1:n loop\n    der(h[i]) = -ref * h[i] + gain(u) + q;\n  end for;\n"
    mdl += "  q = %s + %s;\n  d = u - %s;\n" % (attr(F1, "d", "band"), attr(F3, "u", "ref"), attr(F2, "h[1]", "band"))
    if der_vec:
        mdl += "  der(pick(x)) = z;\n  x[1] = time;\n  x[3] = 2 * time;\n  z = x[2] * 2;\n"
    if der_sc:
        mdl += "  der(sc(s, t)) = u + 1;\n  s = time * q;\n"
    mdl += "initial equation\n  for i in 1:n loop\n    h[i] = i * ref;\n  end for;\nend M;\n"
    return {"kind": "text", "name": "M", "text": fns + mdl, "stream": "attr", "points": text_points(rng), "der_vec": der_vec}


def gen_cond(rng):
    """sums / differences of two or three ONE-SIDED conditionals with different conditions on different variables and
    parameters (also nested, inside a for-equation and in an initial equation), with expand_vectors FIXED while the
    three flags are toggled; evaluated at points on both sides of every condition independently"""
    conds = ["x > p", "y < q", "z >= p", "x <= q", "y > z", "z < x", "(x > p and y < q)", "not (z > q)"]
    exprs = ["a", "b", "a * b", "x + 1", "2.5", "p * a", "b - y", "time"]

    def term(c=None):
        c = c or rng.choice(conds)
        e = rng.choice(exprs)
        k = rng.random()
        if k < 0.42:
            return "(if %s then 0 else %s)" % (c, e)
        if k < 0.84:
            return "(if %s then %s else 0)" % (c, e)
        return "(if %s then %s else %s)" % (c, e, rng.choice(exprs))

    def combo(n):
        cs = rng.sample(conds, n)
        t = term(cs[0])
        for c in cs[1:]:
            t += " %s %s" % (rng.choice(["+", "+", "-"]), term(c))
        return t

    def nested():
        c1, c2 = rng.sample(conds, 2)
        inner = "%s + %s" % (term(c2), rng.choice(exprs))
        return rng.choice(["(if %s then 0 else %s)" % (c1, inner), "(if %s then %s else 0)" % (c1, inner)]) + " + " + term()

    eqs = ["  a = time;\n", "  b = 2 * time + 1;\n",
           "  s1 = (if %s then 0 else %s) + (if %s then %s else 0);\n" % tuple(
               x for pair in zip(rng.sample(conds, 2), rng.sample(exprs, 2)) for x in pair),
           "  s2 = %s;\n" % combo(rng.choice([2, 3])), "  s3 = %s;\n" % nested(),
           "  for i in 1:2 loop\n    w[i] = %s + i;\n  end for;\n" % combo(2)]
    rng.shuffle(eqs)
    text = ("model M\n  parameter Real p = 0.5;\n  parameter Real q = -0.25;\n  input Real x;\n  input Real y;\n  input Real z;\n"
            "  Real a;\n  Real b;\n  Real s1;\n  Real s2;\n  Real s3;\n  Real w[2];\ninitial equation\n  s1 = %s;\nequation\n%send M;\n"
            % (combo(2), "".join(eqs)))
    grid = [-2.0, -1.0, -0.5, -0.25, 0.0, 0.25, 0.5, 1.0, 2.0]
    pts = []
    for k in range(6):      # x, y, z independently on either side of (or on) the thresholds p, q
        pts.append({"time": rng.randint(-16, 16) / 8.0, "#salt": rng.randint(1, 10 ** 6), "p": 0.5, "q": -0.25,
                    "x": rng.choice(grid), "y": rng.choice(grid), "z": rng.choice(grid)})
    return {"kind": "text", "name": "M", "text": text, "stream": "cond", "points": pts,
            "fixed": {"check_balanced": False, "expand_vectors": True}}


# =============================================================================================
# ORACLE: the 8 compilations agree
# =============================================================================================
RTOL = 1e-9


def num_eq(a, b):
    if a == b:
        return True
    if a in ("nan", "inf", "-inf") or b in ("nan", "inf", "-inf"):
        return False
    x, y = float.fromhex(a), float.fromhex(b)
    return abs(x - y) <= RTOL * max(1.0, abs(x), abs(y))


def attrs_eq(a, b):
    """literal attributes equal; an attribute that is symbolic ("MX") on one side is compared by VALUE through
    variable_metadata_function (judge's "meta" comparison), not by representation"""
    if set(a) != set(b):
        return False
    for cat in a:
        if len(a[cat]) != len(b[cat]):
            return False
        for ra, rb in zip(a[cat], b[cat]):
            if set(ra) != set(rb):
                return False
            for k in ra:
                if ra[k] != rb[k] and not (cat != "der_states" and k in META_ATTRS and "MX" in (ra[k], rb[k])):
                    return False
    return True


META_ATTRS = ("value", "min", "max", "start", "fixed", "nominal")


def combo_name(c):
    return "(unroll_loops=%s, inline_functions=%s, expand_mx=%s)" % tuple(bool(x) for x in c)


def judge(case, res):
    """None, or a description of the first disagreement between two flag combinations"""
    if "crash" in res:
        return "the backend crashed (rc=%s)" % res["crash"]
    if "combos" not in res:
        return "child failed: %s" % json.dumps(res)[:200]
    obs = res["combos"]
    combos = case["combos"]
    oks = [o.get("ok") for o in obs]
    if not any(oks):
        kinds = {(o.get("exc"), o.get("msg")) for o in obs}
        if len({k[0] for k in kinds}) > 1:
            return "different exceptions under different flags: %s" % sorted(str(k) for k in kinds)[:3]
        return None     # rejected under every combination alike: outside the property
    if not all(oks):
        i, j = oks.index(True), oks.index(False)
        return "%s compiles but %s raises %s: %s" % (combo_name(combos[i]), combo_name(combos[j]), obs[j].get("exc"), obs[j].get("msg", "")[:120])
    ref = obs[0]
    for j in range(1, len(obs)):
        o = obs[j]
        who = "%s vs %s" % (combo_name(combos[0]), combo_name(combos[j]))
        for key in ("lists", "outputs", "delay_states", "n_delay_arguments", "attrs", "shapes"):
            if ref[key] != o[key] and not (key == "attrs" and attrs_eq(ref[key], o[key])):
                detail = ""
                if isinstance(ref[key], dict):
                    for k in ref[key]:
                        if ref[key][k] != o[key].get(k):
                            detail = " [%s: %s vs %s]" % (k, json.dumps(ref[key][k])[:150], json.dumps(o[key].get(k))[:150])
                            break
                else:
                    detail = " [%s vs %s]" % (json.dumps(ref[key])[:150], json.dumps(o[key])[:150])
                return "%s differ, %s%s" % (key, who, detail)
        for fn in ("dae", "init", "meta", "delay"):
            for pi, (pa, pb) in enumerate(zip(ref["funcs"][fn], o["funcs"][fn])):
                if len(pa) != len(pb):
                    return "%s function: %d outputs vs %d, %s" % (fn, len(pa), len(pb), who)
                for oi, (va, vb) in enumerate(zip(pa, pb)):
                    if len(va) != len(vb):
                        return "%s function output %d: %d entries vs %d, %s" % (fn, oi, len(va), len(vb), who)
                    for k, (x, y) in enumerate(zip(va, vb)):
                        if not num_eq(x, y):
                            return "%s function, point %d, output %d entry %d: %s vs %s, %s" % (
                                fn, pi, oi, k, x if x in ("nan", "inf", "-inf") else float.fromhex(x),
                                y if y in ("nan", "inf", "-inf") else float.fromhex(y), who)
    return None


def n_values(res):
    if "combos" not in res:
        return 0
    n = 0
    for o in res["combos"]:
        if o.get("ok"):
            n += sum(len(v) for fn in o["funcs"].values() for p in fn for v in p)
    return n


# =============================================================================================
# Coq encoding
# =============================================================================================
KW = {"parameter": "C10.Kparameter", "constant": "C10.Kconstant", "input": "C10.Kinput", "output": "C10.Koutput"}
TY = {"Real": "C10.TReal", "Integer": "C10.TInteger", "Boolean": "C10.TBoolean"}


def cqc(s):
    f = Fraction(s)
    return "(Q2Qc (%d # %d))" % (f.numerator, f.denominator)


def csub(f, N):
    if isinstance(f, int):
        return "(IOff %s)" % cq_Z(f)
    if f[0] == "rev":
        return "(IRev %s)" % cq_Z(f[1])
    if f[0] == "nrev":
        return "(IRev %s)" % cq_Z(N + f[1])        # n + k - i with the parameter's value (get_integer resolves n)
    if f[0] == "lin":
        return "(ILin %s %s)" % (cq_Z(f[1]), cq_Z(-f[2]))
    if f[0] == "sq":
        return "ISq"
    raise ValueError(f)


def cx(e, ids, fids):
    N = ids["#N"]
    t = e[0]
    if t == "num":
        return "(SNum %s)" % cqc(e[1])
    if t == "v":
        return "(SRef (SV %s))" % cq_nat(ids.get(e[1], TIME_ID))
    if t == "der":
        return "(SRef (SD %s))" % cq_nat(ids[e[1]])
    if t == "idx":
        return "(SRef (SI %s %s))" % (cq_nat(ids[e[1]]), cq_Z(e[2]))
    if t == "lidx":
        return "(SRef (SL %s %s))" % (cq_nat(ids[e[1]]), csub(e[2], N))
    if t == "loopvar":
        return "(SRef SLoop)"
    if t == "arg":
        return "(SRef (SArg %s))" % cq_nat(e[1])
    if t == "neg":
        return "(SNeg %s)" % cx(e[1], ids, fids)
    if t == "not":
        return "(SIf %s (SNum (Q2Qc (0 # 1))) (SNum (Q2Qc (1 # 1))))" % cx(e[1], ids, fids)
    if t == "bin":
        return "(SBin %s %s %s)" % (CANODE[e[1]], cx(e[2], ids, fids), cx(e[3], ids, fids))
    if t == "if":
        return "(SIf %s %s %s)" % (cx(e[1], ids, fids), cx(e[2], ids, fids), cx(e[3], ids, fids))
    if t == "call":
        return "(SCall %s %s %s 0%%nat)" % (cq_nat(fids[e[1]]), cx(e[2], ids, fids), cx(e[3], ids, fids))
    raise ValueError(t)


def cib(b, ids):
    if b[0] == "lit":
        return "(ILit %s)" % cq_Z(b[1])
    return "(IPar %s %s)" % (cq_nat(ids[b[1]]), cq_Z(b[2]))


def cq_eqs(qs, ids, fids):
    out = []
    for q in qs:
        t = q[0]
        if t == "eq":
            out.append("(MEq %s %s)" % (cx(q[1], ids, fids), cx(q[2], ids, fids)))
        elif t == "tuple":
            for k, l in enumerate((q[1], q[2])):
                out.append("(MEq %s (SCall %s %s %s %s))" % (cx(l, ids, fids), cq_nat(fids[q[3]]), cx(q[4], ids, fids),
                                                             cx(q[5], ids, fids), cq_nat(k)))
        elif t == "for":
            out.append("(MFor %s %s %s)" % (cq_Z(q[1]), cib(q[2], ids),
                                            cq_list(["(%s, %s)" % (cx(l, ids, fids), cx(r, ids, fids)) for l, r in q[3]])))
        elif t == "delay":
            out.append("(MDelay %s %s %s)" % (cx(q[1], ids, fids), cx(q[2], ids, fids), cx(q[3], ids, fids)))
        elif t == "fordelay":
            out.append("(MForDelay %s %s %s %s %s)" % (cq_Z(q[1]), cib(q[2], ids), cx(q[3], ids, fids), cx(q[4], ids, fids),
                                                       cx(q[5], ids, fids)))
        else:
            raise ValueError(t)
    return cq_list(out)


def cq_model(m):
    ids = {d["name"]: i for i, d in enumerate(m["decls"])}
    ids["#N"] = m["N"]
    fids = {f["name"]: f["id"] for f in m["funs"]}
    decls = []
    for i, d in enumerate(m["decls"]):
        attrs = [cx(v, ids, fids) for _a, v in d["attrs"]] + ([cx(d["value"], ids, fids)] if d["value"] is not None else [])
        decls.append("(mkDecl (C10.mkSym %s %s %s %s false) %s None %s)" % (
            cq_nat(i), cq_nat(i), cq_list([KW[p] for p in d["prefix"]]), TY[d["type"]],
            "(Some %s)" % cib(d["dim"], ids) if d["dim"] else "None", cq_list(attrs)))
    funs = []
    for f in m["funs"]:
        body = []
        for st in f["body"]:
            if st[0] == "assign":
                body.append("(TAssign %s %s)" % (cq_nat(st[1]), cx(st[2], ids, fids)))
            elif st[0] == "ifassign":
                body.append("(TAssign %s (SIf %s %s %s))" % (cq_nat(st[1]), cx(st[2], ids, fids), cx(st[3], ids, fids), cx(st[4], ids, fids)))
            else:
                body.append("(TFor %s (ILit %s) %s %s)" % (cq_Z(st[1]), cq_Z(st[2]), cq_nat(st[3]), cx(st[4], ids, fids)))
        funs.append("(%s, mkSfun %s %s)" % (cq_nat(f["id"]), cq_list(body), cq_list([cq_nat(2)] + ([cq_nat(3)] if f["nout"] == 2 else []))))
    ipar = "(fun p => if Nat.eqb p %s then %s else 0%%Z)" % (cq_nat(ids["n"]), cq_Z(m["N"]))
    return "(mkSmodel %s %s %s [] %s %s)" % (cq_list(decls), ipar, cq_list(funs), cq_eqs(m["eqs"], ids, fids),
                                          cq_eqs(m["ieqs"], ids, fids)), ids


def cq_obs(o, ids):
    if not o.get("ok"):
        return "None"
    L = o["lists"]

    def nm(rows):
        return cq_list([cq_nat(ids.get(r[0], 9999)) for r in rows])
    ds = o["delay_states"]
    inputs = L["inputs"]
    nd = len(ds)
    if [r[0] for r in inputs[:nd]] != ds:      # the delay inputs are expected in front, in order
        nd = 7777
    der = []
    for r in L["der_states"]:
        n = r[0]
        der.append("(C10.Der %s)" % cq_nat(ids.get(n[4:-1], 9999)) if n.startswith("der(") and n.endswith(")")
                   else "(C10.Plain %s)" % cq_nat(ids.get(n, 9999)))
    outs = cq_list([cq_nat(ids.get(n, 9999)) for n in o["outputs"]])
    lists = "(C10.mkObs %s %s %s %s %s %s %s %s %s)" % (
        nm(L["states"]), cq_list(der), nm(L["alg_states"]), nm(inputs[min(nd, len(inputs)):] if nd != 7777 else inputs),
        nm(L["parameters"]), nm(L["constants"]), nm(L["string_parameters"]), nm(L["string_constants"]), outs)

    def tot(fn):
        return sum(a * b for a, b in o["shapes"][fn][1])
    return "(Some (%s, %s, (%s, %s, %s)))" % (lists, cq_nat(nd), cq_nat(tot("dae")), cq_nat(tot("init")), cq_nat(tot("delay")))


def encode_case(m, case, res):
    ms, ids = (m["coq"], m["ids"]) if "coq" in m else cq_model(m)
    obs = ["(mkFlags %s %s %s, %s)" % (cq_bool(c[0]), cq_bool(c[1]), cq_bool(c[2]), cq_obs(o, ids))
           for c, o in zip(case["combos"], res["combos"])]
    return "(%s, %s)" % (ms, cq_list(obs))


# =============================================================================================
# corpus
# =============================================================================================
def corpus():
    V = lambda n: ["v", n]          # noqa
    NUM = lambda s: ["num", s]      # noqa
    f1 = {"name": "f1", "id": 0, "nout": 1, "body": [
        ["assign", 4, ["bin", "*", ["arg", 0], ["arg", 1]]],
        ["assign", 2, ["bin", "+", ["arg", 4], NUM("1")]],
        ["ifassign", 2, ["bin", ">", ["arg", 4], NUM("1")], ["bin", "+", ["arg", 2], NUM("1")], ["bin", "-", ["arg", 2], NUM("1")]],
        ["for", 1, 3, 2, ["bin", "+", ["arg", 2], ["bin", "*", ["loopvar"], ["arg", 0]]]]]}
    f2 = {"name": "f2", "id": 1, "nout": 2, "body": [
        ["assign", 4, ["bin", "-", ["arg", 0], ["arg", 1]]],
        ["assign", 2, ["bin", "*", ["arg", 4], NUM("2")]],
        ["assign", 3, ["bin", "+", ["arg", 2], ["arg", 1]]],
        ["for", 1, 2, 3, ["bin", "+", ["arg", 3], ["loopvar"]]]]}
    decls = [
        {"name": "n", "prefix": ["parameter"], "type": "Integer", "dim": None, "value": NUM("3"), "attrs": []},
        {"name": "x1", "prefix": [], "type": "Real", "dim": None, "value": None,
         "attrs": [["start", NUM("1")], ["min", ["neg", V("p1")]], ["max", ["call", "f1", V("p1"), NUM("2")]]]},
        {"name": "x2", "prefix": [], "type": "Real", "dim": None, "value": None, "attrs": []},
        {"name": "x3", "prefix": [], "type": "Real", "dim": None, "value": None, "attrs": []},
        {"name": "y1", "prefix": ["output"], "type": "Real", "dim": None, "value": None, "attrs": []},
        {"name": "a", "prefix": [], "type": "Real", "dim": ["par", "n", 0], "value": None, "attrs": []},
        {"name": "c", "prefix": [], "type": "Real", "dim": ["par", "n", 1], "value": None, "attrs": []},
        {"name": "z", "prefix": [], "type": "Real", "dim": ["par", "n", -3], "value": None, "attrs": []},
        {"name": "w", "prefix": [], "type": "Real", "dim": ["lit", 7], "value": None, "attrs": []},
        {"name": "u1", "prefix": ["input"], "type": "Real", "dim": None, "value": None, "attrs": []},
        {"name": "p1", "prefix": ["parameter"], "type": "Real", "dim": None, "value": NUM("1.5"), "attrs": []},
        {"name": "p2", "prefix": ["parameter"], "type": "Real", "dim": None, "value": ["bin", "*", V("p1"), NUM("2")], "attrs": []},
        {"name": "k1", "prefix": ["constant"], "type": "Real", "dim": None, "value": NUM("2.0"), "attrs": []},
        {"name": "b1", "prefix": [], "type": "Boolean", "dim": None, "value": None, "attrs": []}]
    eqs = [["eq", ["der", "x1"], ["call", "f1", V("x2"), V("u1")]],
           ["tuple", V("x3"), V("y1"), "f2", V("x1"), V("p1")],
           ["for", 1, ["par", "n", 0], [[["lidx", "a", 0], ["bin", "+", ["lidx", "c", 1], ["bin", "*", ["loopvar"], V("x1")]]]]],
           ["for", 2, ["par", "n", 0], [[["lidx", "c", 0], ["if", ["bin", "and", V("b1"), ["bin", ">", ["lidx", "a", -1], NUM("0")]],
                                                               ["call", "f1", ["lidx", "a", 0], V("x2")], V("k1")]]]],
           ["fordelay", 1, ["lit", 1], ["lidx", "c", 0], ["lidx", "a", 1], NUM("0.5")],
           ["for", 1, ["lit", 2], [[["lidx", "w", ["rev", 4]], ["bin", "-", ["lidx", "w", ["lin", 2, -3]], ["lidx", "w", ["sq"]]]],
                                   [["lidx", "w", ["lin", 2, 1]], ["bin", "*", ["lidx", "c", ["nrev", 1]], ["lidx", "a", ["rev", 3]]]]]],
           ["delay", ["idx", "c", 4], ["bin", "*", V("x2"), V("p2")], V("p1")],
           ["eq", V("b1"), ["bin", ">", V("x1"), V("x2")]],
           ["eq", V("x2"), ["bin", "-", V("time"), ["der", "x1"]]]]
    ieqs = [["eq", V("x1"), V("p2")]]
    return [{"kind": "model", "name": "M", "N": 3, "decls": decls, "funs": [f1, f2], "eqs": eqs, "ieqs": ieqs, "stream": "corpus"}]


# =============================================================================================
PLAIN_FIXED = {"check_balanced": False}
PREAMBLE = ("From Coq Require Import ZArith QArith Qcanon Arith.\nImport ListNotations.\n"
            "From PV Require Import Model.C11_residual Model.C12_options.\nOpen Scope Qc_scope.\n")
# second stream: simplification options that were observed not to interact with the flags
SIMPL_FIXED = {"check_balanced": False, "replace_constant_values": True, "replace_constant_expressions": True,
               "eliminate_constant_assignments": True, "resolve_parameter_values": True,
               "factor_and_simplify_equations": True}
KNOWN_TAG = "inline-functions-x-syntactic-simplification"
# simplification options whose passes ask whether an expression IS a constant / a plain symbol (syntactically)
SYNTACTIC = ("replace_parameter_values", "replace_parameter_expressions", "eliminate_constant_assignments",
             "resolve_parameter_values", "replace_constant_values", "replace_constant_expressions")


def has_call(m):
    return '"call"' in json.dumps([m["decls"], m["eqs"], m["ieqs"]]) or any(q[0] == "tuple" for q in m["eqs"])


DER_TAG = "der-of-function-with-vector-input"


def split_by_inline(case, res):
    for flag in (0, 1):
        idx = [i for i, c in enumerate(case["combos"]) if c[1] == flag]
        sub = dict(case)
        sub["combos"] = [case["combos"][i] for i in idx]
        if len(idx) < 1 or judge(sub, {"combos": [res["combos"][i] for i in idx]}) is not None:
            return False
    return True


def tag_of(m, case, res):
    if m.get("der_vec") and "combos" in res and all(o.get("ok") for o in res["combos"]):
        # der(f(x)) with f a user function of a VECTOR input: get_derivative Case 4 drops der(x) when the call is a
        # node (not inlined).  Narrow: only residual VALUES differ, and exactly along inline_functions
        why = judge(case, res) or ""
        if (why.startswith("dae function") or why.startswith("init function")) and split_by_inline(case, res):
            return DER_TAG
        return "flags-change-the-model"
    return tag_of_structured(m, case, res)


def tag_of_structured(m, case, res):
    """narrow tag of the known interaction: a syntactic simplification option is set, the model calls a user
    function, and the 8 results fall into two internally agreeing groups split exactly by inline_functions"""
    if "decls" in m and any(case["fixed"].get(k) for k in SYNTACTIC) and has_call(m) and "combos" in res:
        for flag in (0, 1):
            idx = [i for i, c in enumerate(case["combos"]) if c[1] == flag]
            sub = dict(case)
            sub["combos"] = [case["combos"][i] for i in idx]
            if len(idx) < 1 or judge(sub, {"combos": [res["combos"][i] for i in idx]}) is not None:
                return "flags-change-the-model"
        return KNOWN_TAG
    return "flags-change-the-model"


def to_case(m, fixed):
    return {"kind": "model", "name": m["name"], "text": m["text"], "points": m["points"], "fixed": fixed, "combos": COMBOS}


def make_group(rng, members, cases):
    order = [[j, ci] for j in range(len(members)) for ci in range(len(COMBOS))]
    rng.shuffle(order)
    return {"members": members, "case": {"kind": "group", "models": [cases[i] for i in members], "order": order}}


def run_models(ctx, cases):
    k = 4 if len(cases) > 4 else 1
    chunks = [cases[i::k] for i in range(k)]
    with ThreadPoolExecutor(max_workers=k) as ex:
        parts = list(ex.map(lambda c: core.run_child(ctx, "c12", c, timeout=1500) if c else [], chunks))
    res = [None] * len(cases)
    for i in range(k):
        for j, r in enumerate(parts[i]):
            res[i + j * k] = r
    return res


def slim(m):
    return {k: m[k] for k in ("kind", "name", "N", "decls", "funs", "eqs", "ieqs", "stream", "text", "points", "der_vec",
                              "coq") if k in m}


def run(ctx):
    pool = ThreadPoolExecutor(max_workers=2)
    f_props = pool.submit(core.check_props, ctx, "C12.v", THEOREMS)
    fp, _ = core.fingerprint(os.path.join(core.REPO, BACKEND, "generator.py"),
                             {"Generator", "ForLoop", "generate"})
    fp2, _ = core.fingerprint(os.path.join(core.REPO, BACKEND, "model.py"), {"Model"})
    ctx.notes["source_fingerprint"] = {BACKEND + "/generator.py": fp, BACKEND + "/model.py": fp2}
    f_tie = pool.submit(tie, ctx)

    n_plain = int(os.environ.get("C12_N", 0)) or ctx.scaled(20, 1400)
    n_delay = ctx.scaled(4, 150)
    n_simpl = ctx.scaled(5, 150)
    npts = 3
    models = [finalize(m, ctx.rng, npts) for m in corpus()]
    n_corpus = len(models)
    for _ in range(n_plain):
        models.append(finalize(MG(ctx.rng).model("plain"), ctx.rng, npts))
    for _ in range(n_delay):
        models.append(finalize(MG(ctx.rng).model("delay"), ctx.rng, npts))
    cases = [to_case(m, PLAIN_FIXED) for m in models]
    simpl_models = models[:n_corpus] + [finalize(MG(ctx.rng).model("simpl"), ctx.rng, npts) for _ in range(n_simpl)]
    cases2 = [to_case(m, SIMPL_FIXED) for m in simpl_models]
    # text-template streams (oracle only): matrix arguments / slices in function loops; intra-array aliases with
    # expand_vectors + detect_aliases fixed
    n_matrix = ctx.scaled(5, 160)
    n_alias = ctx.scaled(7, 200)
    n_attr = ctx.scaled(7, 200)
    n_cond = ctx.scaled(6, 160)
    text_models = ([gen_matrix(ctx.rng) for _ in range(n_matrix)] + [gen_alias(ctx.rng) for _ in range(n_alias)]
                   + [gen_attr(ctx.rng) for _ in range(n_attr)] + [gen_cond(ctx.rng) for _ in range(n_cond)])
    cases3 = [to_case(m, m.get("fixed", PLAIN_FIXED)) for m in text_models]
    import time as _t
    t0 = _t.time()
    # stream 1 runs INTERLEAVED: groups of 2 (sometimes 3) different models, all 8 x k compilations first, then the
    # evaluations in a shuffled order; stream 2 one model at a time
    groups, gi = [], 0
    while gi < len(cases):
        k = 3 if (ctx.rng.random() < 0.25 and gi + 3 <= len(cases)) else 2
        groups.append(make_group(ctx.rng, list(range(gi, min(gi + k, len(cases)))), cases))
        gi += k
    allres = run_models(ctx, [g["case"] for g in groups] + cases2 + cases3)
    results = [None] * len(cases)
    group_of = {}
    for g, r in zip(groups, allres[:len(groups)]):
        for j, i in enumerate(g["members"]):
            group_of[i] = g
            results[i] = r["models"][j] if "models" in r else r        # a crash takes the whole group
    results2 = allres[len(groups):len(groups) + len(cases2)]
    results3 = allres[len(groups) + len(cases2):]
    ctx.notes["t_child_s"] = round(_t.time() - t0, 1)

    # (a) oracle
    evals = 0
    distinct = set()
    rejected = 0
    feat = {}
    for stream, ms, cs, rs in (("no simplification option", models, cases, results),
                               ("substitution options fixed", simpl_models, cases2, results2),
                               ("text templates: matrix function arguments / intra-array aliases with expand_vectors+detect_aliases fixed / attributes through piecewise-linear user functions, der() of calls / sums of one-sided conditionals with expand_vectors fixed",
                                text_models, cases3, results3)):
        for mi_, (m, c, r) in enumerate(zip(ms, cs, rs)):
            why = judge(c, r)
            evals += n_values(r)
            if why:
                payload = {"input": slim(m), "fixed": c["fixed"], "combos": COMBOS, "stream": stream,
                           "expected": "identical lists/metadata and numerically equal output functions under all 8 flag combinations"}
                g = group_of.get(mi_) if ms is models else None
                if g is not None and len([v for v in ctx.violations if not v["no_input"]]) < core.MAX_REPLAYS:
                    alone = run_models(ctx, [c])[0]
                    if judge(c, alone) is None:
                        # only the interleaving shows it: the replay is the whole group with its evaluation order
                        payload["group"] = [slim(models[i]) for i in g["members"]]
                        payload["order"] = g["case"]["order"]
                        payload["member"] = g["members"].index(mi_)
                        payload["stream"] = stream + ", interleaved (compile all, then evaluate in shuffled order)"
                        why = "only when interleaved with other models: " + why
                core.report(ctx, tag_of(m, c, r), why, payload)
            if "combos" in r and all(o.get("ok") for o in r["combos"]):
                distinct.add(m["text"])
            elif "combos" in r and not any(o.get("ok") for o in r["combos"]):
                rejected += 1
                ctx.notes.setdefault("rejected_samples", [])
                if len(ctx.notes["rejected_samples"]) < 3:
                    ctx.notes["rejected_samples"].append([r["combos"][0].get("exc"), r["combos"][0].get("msg", "")[:160]])
            for tok in ('"for"', '"fordelay"', '"delay"', '"tuple"', '"call"', '"if"', '"lidx"', '"loopvar"', '"der"', '"ifassign"',
                        '"and"', '"not"', '"par"'):
                if "eqs" in m and tok in json.dumps([m["eqs"], m["ieqs"], m["funs"], m["decls"]]):
                    feat[tok.strip('"')] = feat.get(tok.strip('"'), 0) + 1

    f_props.result()
    tie_ok = f_tie.result()
    pool.shutdown()

    # (b) correspondence (first stream: the model's quantifier is "no simplification option")
    t1 = _t.time()
    enc, owner = [], []
    # stream 1 and the matrix-function stream (both inside the Coq model)
    corr = list(zip(models, cases, results)) + [t for t in zip(text_models, cases3, results3) if "coq" in t[0]]
    for i, (m, c, r) in enumerate(corr):
        if "combos" not in r:
            continue
        enc.append(encode_case(m, c, r))
        owner.append(i)
    bad = core.coq_eval_cases(ctx, "models", PREAMBLE, "case", enc, "check_case", shard=ctx.scaled(6, 40), timeout=1500)
    # value level, array-function stream: exact residuals at dyadic points under each triple
    venc, vowner = [], []
    for i, (m, c, r) in enumerate(corr):
        if m.get("stream") == "matrix":
            for e in encode_vcases(m, c, r):
                venc.append(e)
                vowner.append(i)
    vbad = core.coq_eval_cases(ctx, "values", PREAMBLE, "vcase", venc, "check_case_val", shard=ctx.scaled(6, 40), timeout=1500) if venc else []
    ctx.oblige("correspondence:model-vs-transfer_model(exact dae / initial residual VALUES of the array-function stream) x 8 flag triples",
               vbad == [], "mismatching models: %s" % ([vowner[j] for j in (vbad or [])][:10] if vbad is not None else "coqc failed"))
    if vbad and not ctx.violations:
        m_, c_, r_ = corr[vowner[vbad[0]]]
        core.violation(ctx, "correspondence-broken",
                       {"correspondence": "Model/C12_options.v check_case_val vs the real residuals under 8 flag triples",
                        "input": slim(m_), "fixed": c_["fixed"], "combos": COMBOS}, no_input=True)
    ctx.notes["t_coq_s"] = round(_t.time() - t1, 1)
    ctx.notes["coq_value_cases"] = len(venc)
    ctx.oblige("correspondence:model-vs-transfer_model(lists, delay inputs, residual lengths) x 8 flag triples", bad == [],
               "mismatching models: %s" % ([owner[j] for j in (bad or [])][:10] if bad is not None else "coqc failed"))
    if bad and not ctx.violations:
        m_, c_, r_ = corr[owner[bad[0]]]
        core.violation(ctx, "correspondence-broken",
                       {"correspondence": "Model/C12_options.v check_case vs api.transfer_model under 8 flag triples",
                        "input": slim(m_), "fixed": c_["fixed"], "combos": COMBOS,
                        "observed_lists": [o.get("lists") for o in r_.get("combos", [])][:2]}, no_input=True)

    def still_fails(entry):
        m = dict(entry["replay"]["input"])
        m.setdefault("kind", "model")
        m.setdefault("name", "M")
        m.setdefault("stream", "known")
        if "text" not in m:
            finalize(m, ctx.rng, 2)
        c = to_case(m, entry["replay"].get("fixed", PLAIN_FIXED))
        r = run_models(ctx, [c])[0]
        return judge(c, r) is not None and tag_of(m, c, r) == entry["tag"]
    core.replay_known(ctx, still_fails)

    ctx.cov["evaluations"] = evals
    ctx.cov["distinct_nontrivial"] = len(distinct)
    ctx.cov["rule"] = ("%d generated models (%d corpus, %d plain, %d with a delay inside a loop) x 8 flag combinations x %d dyadic "
                       "points with no simplification option, plus %d models x 8 with the substitution options %s fixed; an "
                       "evaluation = one entry of one of the four output functions under one combination, compared with the "
                       "same entry under (False, False, False); plus %d text-template models x 8 (matrix-argument functions with row/column "
                       "slices in for-statements; intra-array alias chains in both index orders with expand_vectors+detect_aliases "
                       "[+eliminate_constant_assignments] fixed); distinct non-trivial = distinct model texts compiled under "
                       "all 8 combinations (%d rejected under all 8 alike); %d Coq correspondence cases (8 observations each; the array-function stream included) + %d VALUE-level cases "
                       "(exact dae / initial residuals of the array-function stream at dyadic points x 8 triples)"
                       % (len(models), n_corpus, n_plain, n_delay, npts, len(simpl_models),
                          sorted(k for k in SIMPL_FIXED if k != "check_balanced"), len(text_models), rejected, len(enc), len(venc)))
    ctx.cov["samples"] = [models[n_corpus]["text"], models[n_corpus + 1]["text"][:700]]
    ctx.notes["input_distribution"] = {"models_using": feat, "models": len(models) + len(simpl_models) + len(text_models),
                                       "text_streams": {"matrix": n_matrix, "alias": n_alias, "attr": n_attr, "cond": n_cond},
                                       "flag_combinations": COMBOS}
    ctx.assumptions += [
        "CasADi's contract (Section hypotheses of Proofs/C12_options.v, `strategies_ok`): the value of a mapped function "
        "(inline or serial), of a function call (inlined or not), of get_integer's call and of Function.expand() depends only on "
        "the extension of the function; sampled by the 8-combination differential, not proved",
        "the data-flow scan is syntactic (Python ast): it sees string constants equal to an option name, the attributes "
        "map_mode / function_mode / _expand_mx_func, computed subscripts of the options dictionary and the callees the whole "
        "dictionary is passed to; a read through a dynamically built key or through reflection would escape it",
        "Boolean-typed variables are evaluated at 0/1 only (MX and SX if_else differ at other values)",
        "the theorem covers runs without simplification option and cache (no_simpl); with expand_vectors / detect_aliases / "
        "eliminable_variable_expression the flags are read at the modelled sites but the passes are opaque "
        "(C12_expand_commutes of DESIGN.md is not proved); the second oracle stream samples the substitution options only",
        "operators are copied one to one in the Coq model (C11's subject); user functions have two scalar inputs, or (A[r,c], b[r], x) "
        "array inputs with for-statements over rows / columns; no nested calls; the alias and attribute text streams are oracle-only",
    ]
    if not tie_ok and not [v for v in ctx.violations if not v["no_input"]]:
        ctx.notes["search_after_broken_tie"] = "the 8-combination differential found no disagreement"


def replay(ctx, path):
    rec = json.load(open(path))
    m = rec.get("input")
    if not m:
        print("replay: no input recorded (broken obligation without failing input)")
        return 1
    case = to_case(m, rec.get("fixed", PLAIN_FIXED))
    case["combos"] = rec.get("combos", COMBOS)
    if rec.get("group"):
        gcase = {"kind": "group", "order": rec["order"],
                 "models": [dict(to_case(x, rec.get("fixed", PLAIN_FIXED)), combos=case["combos"]) for x in rec["group"]]}
        gr = run_models(ctx, [gcase])[0]
        r = gr["models"][rec["member"]] if "models" in gr else gr
    else:
        r = run_models(ctx, [case])[0]
    why = judge(case, r)
    if why:
        print("tag:", tag_of(m, case, r))
    print("replay:", why or "all flag combinations agree on this model")
    if why:
        print(m["text"])
    return 1 if why else 0
