"""C10 — generated CasADi model classifies every variable exactly once."""
import itertools
import json
import re
import time

from . import core
from .core import cq_bool, cq_list, cq_nat

THEOREMS = ["C10_partition", "C10_precedence", "C10_order", "C10_states", "C10_outputs",
            "C10_model_produced", "C10_outputs_refuted", "C10_no_model_iff", "C10_example"]

LISTS = ["states", "der_states", "alg_states", "inputs", "parameters", "constants",
         "string_parameters", "string_constants", "outputs"]
BUILTIN = ("Real", "Integer", "Boolean", "String")
KW = {"constant": "Kconstant", "parameter": "Kparameter", "input": "Kinput", "output": "Koutput",
      "discrete": "Kdiscrete", "flow": "Kflow", "stream": "Kstream", "state": "Kstate"}
KNOWN_TAG = "output-string-variable"
SHADOW_TAG = "loop-index-shadow-under-der"

# ---------------------------------------------------------------------------------------------
# Case structure (JSON):
#   {"classes": [cls...] (file order), "main": name, "inject": {top-level name: {"prefixes","order"}}}
#   cls  = {"name", "decls": [clause...], "eqs": [eq...], "ieqs": [eq...]}
#   clause = {"prefixes": [...], "type": builtin or class name, "items": [{"name","dim","value","start"}]}
#   expr = ["ref", local dotted name, index|None] | ["lit", number] | ["op", sym, [args]] |
#          ["der", [args]] | ["call", fname, [args]] | ["neg", e]
#   eq   = ["eq", lhs, rhs] | ["if", cond, eq, eq] | ["for", var, n, eq]
# ---------------------------------------------------------------------------------------------


def pr_expr(e):
    k = e[0]
    if k == "ref":
        return e[1] if e[2] is None else "%s[%s]" % (e[1], e[2])
    if k == "lit":
        return repr(e[1])
    if k == "op":
        return "(" + (" %s " % e[1]).join(pr_expr(a) for a in e[2]) + ")"
    if k == "der":
        return "der(" + ", ".join(pr_expr(a) for a in e[1]) + ")"
    if k == "call":
        return "%s(%s)" % (e[1], ", ".join(pr_expr(a) for a in e[2]))
    if k == "neg":
        return "(-" + pr_expr(e[1]) + ")"
    raise ValueError(k)


def pr_eq(q, ind="  "):
    if q[0] == "eq":
        return "%s%s = %s;" % (ind, pr_expr(q[1]), pr_expr(q[2]))
    if q[0] == "if":
        return "%sif %s > 0 then\n%s\n%selse\n%s\n%send if;" % (
            ind, pr_expr(q[1]), pr_eq(q[2], ind + "  "), ind, pr_eq(q[3], ind + "  "), ind)
    if q[0] == "for":
        return "%sfor %s in 1:%d loop\n%s\n%send for;" % (ind, q[1], q[2], pr_eq(q[3], ind + "  "), ind)
    raise ValueError(q[0])


def pr_value(v):
    if isinstance(v, list):
        return pr_expr(v)
    if isinstance(v, bool):
        return "true" if v else "false"
    if isinstance(v, str):
        return '"%s"' % v
    return repr(v)


def pr_alias(t):
    mods = ", ".join("%s = %s" % (k, v) for k, v in t.get("mods", []))
    return "type %s = %s%s;" % (t["name"], t["base"], "(%s)" % mods if mods else "")


def btype(case_or_types, cl):
    """Builtin type a clause's type resolves to through the short-class aliases, or None (a model)."""
    if cl.get("btype"):
        return cl["btype"]
    return cl["type"] if cl["type"] in BUILTIN else None


def pr_function(f):
    """User function with an algorithm section; optional for-STATEMENT with index f["loop"]."""
    out = ["function %s" % f["name"]]
    out += ["  input Real %s;" % n for n in f["inputs"]]
    out.append("  output Real %s;" % f["output"])
    if f.get("protected"):
        out.append("protected")
        out += ["  Real %s;" % n for n in f["protected"]]
    out.append("algorithm")
    acc = " + ".join(f["inputs"])
    for n in f.get("protected", []):
        out.append("  %s := %s;" % (n, acc))
        acc = "2.0 * " + n
    out.append("  %s := %s;" % (f["output"], acc))
    if f.get("loop"):
        out += ["  for %s in 1:3 loop" % f["loop"],
                "    %s := 0.5 * %s + %s;" % (f["output"], f["output"], f["loop"]), "  end for;"]
    out.append("end %s;" % f["name"])
    return "\n".join(out)


def pr_redeclares(rl):
    return ", ".join("redeclare %s%s %s" % ("".join(p + " " for p in r.get("prefixes", [])), r["type"], r["name"]) for r in rl)


def to_text(case):
    out = []
    types = case.get("types", [])
    funcs = case.get("functions", [])
    for i, c in enumerate(case["classes"]):
        out += [pr_alias(t) for t in types if t["pos"] == i]
        out += [pr_function(f) for f in funcs if f["pos"] == i]
        out.append("model %s" % c["name"])
        for j, cl in enumerate(c["decls"] + [None]):
            for e in c.get("extends", []):
                if e["at"] == j or (cl is None and e["at"] > j):
                    out.append("  extends %s%s;" % (e["base"], "(%s)" % pr_redeclares(e["redeclare"]) if e.get("redeclare") else ""))
            if cl is None:
                break
            items = []
            for it in cl["items"]:
                s = it["name"]
                if it.get("redeclare"):
                    s += "(%s)" % pr_redeclares(it["redeclare"])
                if it.get("dim") is not None:
                    s += "[%d]" % it["dim"]
                if it.get("start") is not None:
                    s += "(start = %s)" % pr_value(it["start"])
                if it.get("value") is not None:
                    s += " = %s" % pr_value(it["value"])
                items.append(s)
            out.append("  %s%s%s %s;" % ("replaceable " if cl.get("replaceable") else "",
                                          "".join(p + " " for p in cl["prefixes"]), cl["type"], ", ".join(items)))
        if c.get("ieqs"):
            out.append("initial equation")
            out += [pr_eq(q) for q in c["ieqs"]]
        if c.get("eqs"):
            out.append("equation")
            out += [pr_eq(q) for q in c["eqs"]]
        out.append("end %s;" % c["name"])
    out += [pr_alias(t) for t in types if t["pos"] >= len(case["classes"])]
    out += [pr_function(f) for f in funcs if f["pos"] >= len(case["classes"])]
    return "\n".join(out) + "\n"


# ---- flat description of a case (harness side, trusted): what pymoca's flattening yields --------
def flat_of(case):
    """-> (syms, exprs): syms = [{"name","order","prefixes","type","empty"}] in flat-class
    insertion order; exprs = expression trees over flat names (["ref", flat, idx])."""
    classes = {c["name"]: c for c in case["classes"]}
    order = {}
    n = 0
    types = case.get("types", [])
    pending = False                            # parser.symbol_node is not None
    for i, c in enumerate(case["classes"] + [None]):   # parser: one counter over the file
        for t in types:
            if (t["pos"] == i or (c is None and t["pos"] > i)) and t.get("mods") and not pending:
                n += 1                         # parser.py:670-673: a modification outside a declaration
                pending = True                 # ... creates ONE symbol, reused until a declaration ends
        for f in case.get("functions", []):
            if f["pos"] == i or (c is None and f["pos"] > i):
                n += len(f["inputs"]) + 1 + len(f.get("protected", []))   # function-local declarations
                pending = False
        if c is None:
            break
        for j, cl in enumerate(c["decls"] + [None]):
            for e in c.get("extends", []):
                if e["at"] == j or (cl is None and e["at"] > j):
                    if e.get("redeclare"):
                        n += len(e["redeclare"])       # each `redeclare T x` is a component declaration
                        pending = False
            if cl is None:
                break
            for it in cl["items"]:
                order[(c["name"], it["name"])] = n
                n += 1 + len(it.get("redeclare", []))
                pending = False
    syms, exprs = [], []

    def ren(e, pre):
        k = e[0]
        if k == "ref":
            return ["ref", pre + e[1], e[2]]
        if k == "lit":
            return e
        if k == "neg":
            return ["neg", ren(e[1], pre)]
        if k == "der":
            return ["der", [ren(a, pre) for a in e[1]]]
        return [k, e[1], [ren(a, pre) for a in e[2]]]

    def ren_eq(q, pre, loopvars=()):
        if q[0] == "eq":
            return ["op", "=", [ren(q[1], pre), ren(q[2], pre)]]
        if q[0] == "if":
            return ["op", "if", [ren(q[1], pre), ren_eq(q[2], pre), ren_eq(q[3], pre)]]
        return ["for", q[1], ren_eq(q[3], pre)]

    def walk(cname, pre, redecl=None):
        """redecl: {name: redeclaring entry} - a redeclaration replaces the TYPE of the element; its type
        prefixes stay those of the original declaration (Modelica: inherited by the redeclaration)"""
        c = classes[cname]
        redecl = redecl or {}
        for e in sorted(c.get("extends", []), key=lambda e: e["at"]):
            walk(e["base"], pre, dict(redecl, **{r["name"]: r for r in e.get("redeclare", [])}))
        for cl in c["decls"]:
            for it in cl["items"]:
                bt = btype(case, cl)
                if bt and it["name"] in redecl:
                    bt = redecl[it["name"]]["btype"]
                if bt:
                    p = list(cl["prefixes"])
                    if pre:
                        p = [x for x in p if x not in ("input", "output")]   # nested: stripped
                    syms.append({"name": pre + it["name"], "order": order[(cname, it["name"])],
                                 "prefixes": p, "type": bt, "empty": it.get("dim") == 0})
                    for a in ("value", "start"):
                        if isinstance(it.get(a), list):
                            exprs.append(ren(it[a], pre))
                else:
                    walk(cl["type"], pre + it["name"] + ".", {r["name"]: r for r in it.get("redeclare", [])})
        for q in c.get("eqs", []) + c.get("ieqs", []):
            exprs.append(ren_eq(q, pre))

    walk(case["main"], "")
    for name, inj in (case.get("inject") or {}).items():
        for s in syms:
            if s["name"] == name:
                if "prefixes" in inj:
                    s["prefixes"] = list(inj["prefixes"])
                if "order" in inj:
                    s["order"] = inj["order"]
    return syms, exprs


# ---- independent reference (the property's spec, in Python) -----------------------------------
def differentiated(exprs, scoped=True):
    """Names of model variables occurring under der().  scoped=True (the property): a for-equation index
    shadows a model variable of the same name inside the loop; scoped=False: every textual occurrence,
    including subscripts, counts (what StateAnnotator does, known finding loop-index-shadow-under-der)."""
    out = set()

    def go(e, d, bound=()):
        k = e[0]
        if k == "ref":
            if d and not (scoped and e[1] in bound):
                out.add(e[1])
            if d and isinstance(e[2], str) and not (scoped and e[2] in bound):
                out.add(e[2])
        elif k == "for":
            go(e[2], d, bound + (e[1],))
        elif k == "neg":
            go(e[1], d, bound)
        elif k == "der":
            for a in e[1]:
                go(a, True, bound)
        elif k in ("op", "call"):
            for a in e[2]:
                go(a, d, bound)
    for e in exprs:
        go(e, False)
    return out


def spec_category(prefixes, typ, is_diff):
    for kw, plain, strl in (("constant", "constants", "string_constants"),
                            ("parameter", "parameters", "string_parameters")):
        if kw in prefixes:
            return strl if typ == "String" else plain
    if "input" in prefixes:
        return "inputs"
    if is_diff or "state" in prefixes:
        return "states"
    return "alg_states"


def expected(case, scoped=True):
    syms, exprs = flat_of(case)
    diff = differentiated(exprs, scoped)
    exp = {k: [] for k in LISTS}
    decorated = sorted(enumerate(syms), key=lambda t: (t[1]["order"], t[0]))   # declaration order
    cat = {}
    for _, s in decorated:
        if s["empty"]:
            continue
        c = spec_category(s["prefixes"], s["type"], s["name"] in diff)
        cat[s["name"]] = c
        exp[c].append(s["name"])
    exp["der_states"] = ["der(%s)" % n for n in exp["states"]]
    pre = {s["name"]: s["prefixes"] for s in syms}
    exp["outputs"] = [n for n in exp["states"] + exp["alg_states"] if "output" in pre[n]]
    bad = [s["name"] for s in syms if not s["empty"] and s["type"] == "String" and "output" in s["prefixes"]
           and cat.get(s["name"]) in ("states", "alg_states")]
    return exp, bad, syms, exprs


def judge(case, res):
    """Property oracle on the implementation's observation.  -> (tag, why) or None."""
    exp, bad, syms, _ = expected(case)
    if "lists" not in res:
        if case.get("malformed"):
            return None                                    # outside the quantifier
        if bad and res.get("exc") == "AttributeError" and "symbol" in res.get("msg", ""):
            return (KNOWN_TAG, "generate() raises AttributeError for output String variable(s) %s" % bad)
        return ("exception", "no Model for a valid flat model: %s" % json.dumps(res)[:300])
    got = res["lists"]
    if case.get("malformed"):
        return None
    # exactly-once, stated directly
    seven = [k for k in LISTS if k not in ("der_states", "outputs")]
    occ = {}
    for k in seven:
        for n in got[k]:
            occ.setdefault(n, []).append(k)
    for s in syms:
        if s["empty"]:
            if s["name"] in occ:
                return ("empty-listed", "empty variable %s listed in %s" % (s["name"], occ[s["name"]]))
        elif len(occ.get(s["name"], [])) != 1:
            return ("not-exactly-once", "variable %s appears in %s (expected exactly one list)"
                    % (s["name"], occ.get(s["name"], [])))
    if any(got[k] != exp[k] for k in LISTS):
        quirk = expected(case, scoped=False)[0]
        if quirk != exp and all(got[k] == quirk[k] for k in LISTS):
            return (SHADOW_TAG, "a model variable shadowed by a for-equation index is classified as a state because the "
                    "index occurs in a subscript under der(): states = %s, property gives %s" % (got["states"], exp["states"]))
    for k in LISTS:
        if got[k] != exp[k]:
            if sorted(got[k]) != sorted(exp[k]):
                return ("category:" + k, "%s = %s, property gives %s" % (k, got[k], exp[k]))
            return ("order:" + k, "%s = %s, declaration order gives %s" % (k, got[k], exp[k]))
    return None


# ---- Coq encoding -------------------------------------------------------------------------
def enc_expr(e, ids):
    k = e[0]
    if k == "ref":
        r = "ERef %s" % cq_nat(ids.get(e[1], 0))          # 0 = not a symbol of the class (loop index)
        if isinstance(e[2], str):                          # the subscript is a ComponentRef and is walked too
            return "EOp false [%s; ERef %s]" % (r, cq_nat(ids.get(e[2], 0)))
        return r
    if k == "for":
        return "EOp false [%s]" % enc_expr(e[2], ids)
    if k == "lit":
        return "ELit"
    if k == "neg":
        return "EOp false [%s]" % enc_expr(e[1], ids)
    if k == "der":
        return "EOp true %s" % cq_list([enc_expr(a, ids) for a in e[1]])
    return "EOp false %s" % cq_list([enc_expr(a, ids) for a in e[2]])


def enc_names(l, ids):
    return cq_list([cq_nat(ids.get(n, 0)) for n in l])


def encode_case(case, res):
    syms, exprs = flat_of(case)
    ids = {s["name"]: i + 1 for i, s in enumerate(syms)}
    ss = cq_list(["mkSym %s %s %s T%s %s" % (cq_nat(ids[s["name"]]), cq_nat(s["order"]),
                                               cq_list([KW[p] for p in s["prefixes"]]), s["type"],
                                               cq_bool(s["empty"])) for s in syms])
    es = cq_list([enc_expr(e, ids) for e in exprs])
    if "lists" in res:
        g = res["lists"]
        ders = []
        for n in g["der_states"]:
            m = re.fullmatch(r"der\((.*)\)", n)
            ders.append("Der %s" % cq_nat(ids.get(m.group(1), 0)) if m else "Plain %s" % cq_nat(ids.get(n, 0)))
        ob = "(Some (mkObs %s %s %s %s %s %s %s %s %s))" % (
            enc_names(g["states"], ids), cq_list(ders), enc_names(g["alg_states"], ids),
            enc_names(g["inputs"], ids), enc_names(g["parameters"], ids), enc_names(g["constants"], ids),
            enc_names(g["string_parameters"], ids), enc_names(g["string_constants"], ids),
            enc_names(g["outputs"], ids))
    else:
        ob = "None"
    return "(mkFlat %s %s, %s)" % (ss, es, ob)


# ---- generators ---------------------------------------------------------------------------
DEFAULT_VALUE = {"Real": 1.5, "Integer": 2, "Boolean": True, "String": "s"}


def one_var_case(prefixes, typ, with_der, inject=None):
    """One probed variable v (+ a helper Real h that carries the equation)."""
    value = DEFAULT_VALUE[typ] if ("constant" in prefixes or "parameter" in prefixes) else None
    decls = [{"prefixes": list(prefixes), "type": typ, "items": [{"name": "v", "value": value}]},
             {"prefixes": [], "type": "Real", "items": [{"name": "h"}]}]
    eqs = [["eq", ["ref", "h", None], ["op", "+", [["der", [["ref", "v", None]]], ["lit", 1.0]]]]] if with_der \
        else [["eq", ["ref", "h", None], ["lit", 1.0]]]
    case = {"classes": [{"name": "M", "decls": decls, "eqs": eqs, "ieqs": []}], "main": "M", "kind": "probe"}
    if inject is not None:
        case["inject"] = {"v": {"prefixes": list(inject)}}
    return case


def probe_cases():
    """Finite behavioural table: (a) every grammatical prefix combination x type x der?, through
    the parser; (b) every subset of 7 keywords x type injected at AST level."""
    out = []
    for fl in ([], ["flow"], ["stream"]):
        for var in ([], ["discrete"], ["parameter"], ["constant"]):
            for cau in ([], ["input"], ["output"]):
                for typ in BUILTIN:
                    for d in (False, True):
                        if d and typ == "String":
                            continue
                        out.append(one_var_case(fl + var + cau, typ, d))
    kws = ["constant", "parameter", "input", "output", "discrete", "flow", "state"]
    for r in range(len(kws) + 1):
        for sub in itertools.combinations(kws, r):
            for typ in BUILTIN:
                out.append(one_var_case([], typ, False, inject=list(reversed(sub)) if r % 2 else list(sub)))
    return out


def gen_prefixes(rng, nested=False):
    p = []
    x = rng.random()
    if x < 0.06:
        p.append("flow")
    elif x < 0.08:
        p.append("stream")
    x = rng.random()
    if x < 0.18:
        p.append("parameter")
    elif x < 0.30:
        p.append("constant")
    elif x < 0.38:
        p.append("discrete")
    x = rng.random()
    if x < 0.22:
        p.append("input")
    elif x < 0.45:
        p.append("output")
    return p


def gen_type(rng):
    x = rng.random()
    return "Real" if x < 0.58 else "Integer" if x < 0.70 else "Boolean" if x < 0.82 else "String"


def gen_aliases(rng, n_classes):
    """Short class definitions `type T = Real(...)`, also Integer/Boolean/String and alias of alias.
    -> (types list, {builtin: [alias names]})"""
    types, by = [], {}
    if rng.random() < 0.45:
        return types, by
    mods = {"Real": [[], [["unit", '"m3/s"']], [["unit", '"m"'], ["min", "0"]], [["nominal", "2"]]],
            "Integer": [[], [["max", "10"]]], "Boolean": [[], [["start", "true"]]], "String": [[]]}
    for k in range(rng.randint(1, 4)):
        bt = rng.choice(["Real", "Real", "Real", "Integer", "Boolean", "String"])
        base = bt
        if by.get(bt) and rng.random() < 0.35:
            base = rng.choice(by[bt])                     # alias of alias
        name = "T%s%d" % (bt[0], k)
        types.append({"name": name, "base": base, "mods": rng.choice(mods[bt]), "pos": rng.randint(0, n_classes)})
        by.setdefault(bt, []).append(name)
    return types, by


def gen_redeclares(rng, cls, aliases):
    """Component redeclarations of replaceable elementary elements of class `cls`: new type = an alias of the same
    builtin type (or the builtin itself); the type prefixes are omitted (inherited) or repeated unchanged."""
    out = []
    for cl in cls["decls"]:
        if cl.get("replaceable") and rng.random() < 0.7:
            bt = btype(None, cl)
            cand = list((aliases or {}).get(bt, [])) + [bt]
            r = {"name": cl["items"][0]["name"], "type": rng.choice(cand), "btype": bt}
            if rng.random() < 0.35:
                r["prefixes"] = list(cl["prefixes"])
            out.append(r)
    rng.shuffle(out)
    return out


def gen_class(rng, name, helpers, nmin, nmax, allow_out_string, aliases=None, npre="", classes=None):
    """helpers: list of (class name, [local referable names]) usable as component types."""
    decls, refs, arrays = [], [], {}
    k = 0
    n = rng.randint(nmin, nmax)
    while k < n:
        if helpers and rng.random() < 0.22:
            hname, hrefs = rng.choice(helpers)
            inst = "%sc%d" % (npre, k)
            it = {"name": inst}
            hcls = (classes or {}).get(hname)
            if hcls and rng.random() < 0.6:
                rl = gen_redeclares(rng, hcls, aliases)
                if rl:
                    it["redeclare"] = rl
            decls.append({"prefixes": [], "type": hname, "items": [it]})
            refs += [inst + "." + r for r in hrefs]
            k += 1
            continue
        typ = gen_type(rng)
        pre = gen_prefixes(rng)
        if typ == "String" and "output" in pre and not ({"constant", "parameter", "input"} & set(pre)) \
                and not (allow_out_string and rng.random() < 0.5):
            pre = [x for x in pre if x != "output"]
        items = []
        for _ in range(1 if rng.random() < 0.75 else rng.randint(2, 3)):
            nm = "%s%s%d" % (npre, "xyzuvwpq"[k % 8], k)
            it = {"name": nm}
            x = rng.random()
            if typ != "String" and x < 0.07:
                it["dim"] = 0
            elif typ == "Real" and x < 0.17:
                it["dim"] = rng.randint(2, 3)
                arrays[nm] = it["dim"]
            if ("constant" in pre or "parameter" in pre) and it.get("dim") is None:
                it["value"] = DEFAULT_VALUE[typ]
            items.append(it)
            if typ != "String" and it.get("dim") != 0:
                refs.append(nm)
            k += 1
        cl = {"prefixes": pre, "type": typ, "items": items}
        if len(items) == 1 and items[0].get("dim") is None and typ != "String" and rng.random() < 0.5:
            cl["replaceable"] = True
        if aliases and aliases.get(typ) and rng.random() < 0.45:
            cl["type"] = rng.choice(aliases[typ])
            cl["btype"] = typ
        decls.append(cl)
    return decls, refs, arrays


def gen_expr(rng, refs, arrays, depth, p_der, loopvar=None):
    def ref():
        r = rng.choice(refs)
        if "." not in r and r in arrays:
            idx = loopvar[0] if (loopvar and arrays[r] >= loopvar[1] and rng.random() < 0.7) else rng.randint(1, arrays[r])
            return ["ref", r, idx]
        return ["ref", r, None]
    x = rng.random()
    if depth <= 0 or x < 0.30:
        return ref() if (refs and rng.random() < 0.85) else ["lit", float(rng.randint(1, 9))]
    if x < 0.30 + p_der:
        args = [gen_expr(rng, refs, arrays, depth - 1, p_der * 0.25, loopvar)]
        if rng.random() < 0.04:
            args.append(ref())
        return ["der", args]
    if x < 0.80:
        return ["op", rng.choice(["+", "-", "*", "/", "+", "*"]),
                [gen_expr(rng, refs, arrays, depth - 1, p_der, loopvar) for _ in range(rng.randint(2, 3) if rng.random() < 0.2 else 2)]]
    if x < 0.90:
        return ["call", rng.choice(["sin", "cos", "exp"]), [gen_expr(rng, refs, arrays, depth - 1, p_der, loopvar)]]
    return ["neg", gen_expr(rng, refs, arrays, depth - 1, p_der, loopvar)]


def gen_eq(rng, refs, arrays, p_der, shadow=()):
    """shadow: names of model variables that may be (re)used as the index name of a for-equation."""
    x = rng.random()
    if x < 0.10:
        return ["if", gen_expr(rng, refs, arrays, 1, p_der), gen_eq_simple(rng, refs, arrays, p_der),
                gen_eq_simple(rng, refs, arrays, p_der)]
    if x < 0.18 and arrays and shadow and rng.random() < 0.45:
        # index name = name of a model variable; inside the loop the name means the index, so the body neither
        # mentions it under der nor uses the index in a subscript under der (see known finding SHADOW_TAG)
        a = rng.choice(sorted(arrays))
        idx = rng.choice(list(shadow))
        inner = [r for r in refs if r != idx]
        rhs = ["op", "*", [gen_expr(rng, inner, arrays, 1, p_der) if inner else ["lit", 2.0], ["ref", idx, None]]] \
            if rng.random() < 0.5 else (gen_expr(rng, inner, arrays, 2, p_der) if inner else ["lit", 2.0])
        rhs = strip_der_on(rhs, idx)
        return ["for", idx, arrays[a], ["eq", ["ref", a, idx], rhs]]
    if x < 0.18 and arrays:
        a = rng.choice(sorted(arrays))
        body = ["eq", ["der", [["ref", a, "i"]]] if rng.random() < 0.6 else ["ref", a, "i"],
                gen_expr(rng, refs, arrays, 1, p_der * 0.5, loopvar=("i", arrays[a]))]
        return ["for", "i", arrays[a], body]
    return gen_eq_simple(rng, refs, arrays, p_der)


def strip_der_on(e, name):
    """Replace der(...) nodes that mention `name` by their first argument (keeps the loop body free of
    der applied to the shadowed name)."""
    def mentions(e):
        if e[0] == "ref":
            return e[1] == name or e[2] == name
        if e[0] == "lit":
            return False
        if e[0] == "neg":
            return mentions(e[1])
        return any(mentions(a) for a in (e[1] if e[0] == "der" else e[2]))
    k = e[0]
    if k in ("ref", "lit"):
        return e
    if k == "neg":
        return ["neg", strip_der_on(e[1], name)]
    if k == "der":
        return strip_der_on(e[1][0], name) if mentions(e) else e
    return [k, e[1], [strip_der_on(a, name) for a in e[2]]]


def gen_functions(rng, n_classes, model_names):
    """User functions with algorithm sections; local names (inputs / output / protected / for-statement
    index) are drawn from the calling model's variable names most of the time."""
    funcs = []
    for k in range(rng.randint(1, 2)):
        pool = list(model_names)
        rng.shuffle(pool)
        fresh = iter(["fa", "fb", "fc", "fd", "fe", "ff"])

        def pick(p=0.7):
            return pool.pop() if (pool and rng.random() < p) else next(fresh)
        f = {"name": "F%d" % (k + 1), "inputs": [pick() for _ in range(rng.randint(1, 2))], "output": pick(),
             "protected": [pick()] if rng.random() < 0.4 else [], "pos": rng.randint(0, n_classes)}
        if rng.random() < 0.85:
            f["loop"] = pick(0.85)
        funcs.append(f)
    return funcs


def strip_all_der(e):
    k = e[0]
    if k in ("ref", "lit"):
        return e
    if k == "neg":
        return ["neg", strip_all_der(e[1])]
    if k == "der":
        return strip_all_der(e[1][0])
    return [k, e[1], [strip_all_der(a) for a in e[2]]]


def edited_case(rng, case):
    """The same model after an edit of the main class's equations: every der() removed from the equations (formerly
    differentiated variables become algebraic), initial equations dropped, and one new der() equation on a plain
    top-level Real (a formerly algebraic variable becomes a state)."""
    def ed(q):
        if q[0] == "eq":
            return ["eq", strip_all_der(q[1]), strip_all_der(q[2])]
        if q[0] == "if":
            return ["if", strip_all_der(q[1]), ed(q[2]), ed(q[3])]
        return ["for", q[1], q[2], ed(q[3])]
    c2 = json.loads(json.dumps({k: v for k, v in case.items() if k not in ("text", "regen")}))
    m = [c for c in c2["classes"] if c["name"] == c2["main"]][0]
    m["eqs"] = [ed(q) for q in m["eqs"]]
    m["ieqs"] = []
    plain = [it["name"] for cl in m["decls"] if cl["type"] == "Real" and not cl["prefixes"]
             for it in cl["items"] if it.get("dim") is None]
    if plain:
        m["eqs"].append(["eq", ["der", [["ref", rng.choice(plain), None]]], ["lit", 1.0]])
    c2["kind"] = "regen"
    return c2


def gen_eq_simple(rng, refs, arrays, p_der):
    lhs = gen_expr(rng, refs, arrays, 1, p_der * 1.5)
    return ["eq", lhs, gen_expr(rng, refs, arrays, rng.randint(1, 3), p_der)]


def gen_model(rng, allow_out_string=False):
    classes = []
    helpers = []
    nh = rng.choice([0, 0, 1, 1, 2])
    types, aliases = gen_aliases(rng, nh + 1)
    for h in range(nh):
        name = "S%d" % (h + 1)
        decls, refs, arrays = gen_class(rng, name, helpers if rng.random() < 0.6 else [], 1, 4, False, aliases,
                                        classes={c["name"]: c for c in classes})
        p_der = rng.choice([0.0, 0.15, 0.3])
        eqs = [gen_eq(rng, refs, arrays, p_der) for _ in range(rng.randint(0, 3))] if refs else []
        classes.append({"name": name, "decls": decls, "eqs": eqs, "ieqs": []})
        helpers.append((name, [r for r in refs if r not in arrays]))
    # a base class that M extends (names prefixed "e" so that they cannot clash), with component redeclarations
    ext = None
    if rng.random() < 0.35:
        bdecls, brefs, barrays = gen_class(rng, "B", helpers if rng.random() < 0.4 else [], 1, 5, False, aliases, npre="e",
                                           classes={c["name"]: c for c in classes})
        bp = rng.choice([0.0, 0.2, 0.4])
        beqs = [gen_eq(rng, brefs, barrays, bp) for _ in range(rng.randint(0, 3))] if brefs else []
        base = {"name": "B", "decls": bdecls, "eqs": beqs, "ieqs": []}
        classes.append(base)
        ext = (base, brefs, barrays)
        if rng.random() < 0.4:
            helpers.append(("B", [r for r in brefs if r not in barrays]))
    decls, refs, arrays = gen_class(rng, "M", helpers, 2, 9, allow_out_string, aliases,
                                    classes={c["name"]: c for c in classes})
    if ext:
        refs = refs + ext[1]
        arrays = dict(arrays, **ext[2])
    p_der = rng.choice([0.05, 0.15, 0.25, 0.4])
    scalars = [r for r in refs if "." not in r and r not in arrays]
    eqs = [gen_eq(rng, refs, arrays, p_der, shadow=scalars) for _ in range(rng.randint(1, 6))] if refs else []
    funcs = []
    if scalars and rng.random() < 0.35:
        # calls of user functions whose local names / for-statement indices coincide with model variables,
        # and the clashing model variable differentiated in an ordinary equation
        funcs = gen_functions(rng, nh + 1, scalars)
        for f in funcs:
            args = [gen_expr(rng, refs, arrays, 1, p_der) for _ in f["inputs"]]
            eqs.append(["eq", ["ref", rng.choice(scalars), None], ["call", f["name"], args]])
            clash = [n for n in [f.get("loop")] + f["inputs"] + [f["output"]] + f.get("protected", []) if n in scalars]
            for n in clash[:2]:
                if rng.random() < 0.7:
                    eqs.append(["eq", ["op", "*", [["lit", 2.0], ["der", [["ref", n, None]]]]],
                                gen_expr(rng, refs, arrays, 1, 0.1)])
        rng.shuffle(eqs)
    ieqs = [gen_eq_simple(rng, refs, arrays, 0.5) for _ in range(rng.randint(0, 2))] if refs and rng.random() < 0.4 else []
    # der() in a declaration equation / start attribute of a plain Real
    if refs:
        for cl in decls:
            if cl["type"] == "Real" and not cl["prefixes"]:      # (builtin Real only: aliases may carry start)
                for it in cl["items"]:
                    if it.get("dim") is None and rng.random() < 0.12:
                        it["value" if rng.random() < 0.6 else "start"] = gen_expr(rng, refs, arrays, 2, 0.5)
    main = {"name": "M", "decls": decls, "eqs": eqs, "ieqs": ieqs}
    if ext:
        main["extends"] = [{"base": "B", "at": rng.randint(0, len(decls)), "redeclare": gen_redeclares(rng, ext[0], aliases)}]
    pos = rng.randint(0, len(classes))               # main before / between / after the helpers
    classes.insert(pos, main)
    case = {"classes": classes, "main": "M", "kind": "random"}
    if types:
        case["types"] = types
    if funcs:
        case["functions"] = funcs
    # AST-level injection on top-level elementary symbols: arbitrary prefix subsets and orders
    if rng.random() < 0.30:
        inj = {}
        tops = [(cl, it) for cl in decls if btype(case, cl) for it in cl["items"]]
        for cl, it in tops:
            if rng.random() < 0.5:
                e = {}
                if rng.random() < 0.6:
                    kws = [k for k in ("constant", "parameter", "input", "output", "discrete", "flow", "state")
                           if rng.random() < 0.25]
                    if btype(case, cl) == "String" and "output" in kws and not ({"constant", "parameter", "input"} & set(kws)):
                        kws.remove("output")
                    if btype(case, cl) == "String" and it.get("value") is not None and not ({"constant", "parameter"} & set(kws)):
                        kws.append(rng.choice(["constant", "parameter"]))     # a String with a binding stays a constant/parameter
                    rng.shuffle(kws)
                    e["prefixes"] = kws
                if rng.random() < 0.6:
                    e["order"] = rng.randint(0, 12)
                if e:
                    inj[it["name"]] = e
        if inj:
            case["inject"] = inj
            case["kind"] = "random+inject"
    return case


def corpus_cases():
    def V(pre, typ, *names, **kw):
        return {"prefixes": pre, "type": typ, "items": [dict({"name": n}, **kw) for n in names]}
    R = lambda n, i=None: ["ref", n, i]                                             # noqa: E731
    D = lambda *a: ["der", list(a)]                                                 # noqa: E731
    out = []
    # precedence: input / parameter / constant under der stay what they are; shared clause prefixes
    out.append({"classes": [{"name": "M", "decls": [
        V(["input"], "Real", "u"), V(["parameter"], "Real", "p", value=1.0), V(["constant"], "Real", "c", value=2.0),
        V(["parameter", "input"], "Real", "pi", value=1.0), V(["output"], "Real", "x", "y"), V([], "Real", "z"),
        V(["constant"], "String", "sc", value="a"), V(["parameter"], "String", "sp", value="b"), V([], "String", "sa"),
        V(["discrete", "output"], "Integer", "i"), V([], "Boolean", "b"), V(["parameter"], "Real", "e", dim=0)],
        "eqs": [["eq", D(R("x")), ["op", "+", [D(R("u")), D(R("p")), D(R("c")), D(R("pi"))]]],
                ["eq", R("y"), ["op", "*", [R("z"), D(["op", "*", [R("i"), R("b")]])]]]], "ieqs": []}],
        "main": "M", "kind": "corpus"})
    # nested components, order ties between instances, helper declared after main, initial equation
    S = {"name": "S", "decls": [V(["input"], "Real", "u"), V(["output"], "Real", "y"), V([], "Real", "x"),
                                 V(["parameter"], "Real", "k", value=1.0)],
         "eqs": [["eq", D(R("x")), ["op", "*", [R("u"), R("k")]]], ["eq", R("y"), R("x")]], "ieqs": []}
    M = {"name": "M", "decls": [V([], "S", "a"), V([], "Real", "z"), V([], "S", "b"), V(["output"], "Real", "w")],
         "eqs": [["eq", R("a.u"), ["lit", 1.0]], ["eq", R("b.u"), D(["op", "+", [R("a.y"), R("z")]])], ["eq", R("w"), R("z")]],
         "ieqs": [["eq", D(R("w")), ["lit", 0.0]]]}
    out.append({"classes": [S, M], "main": "M", "kind": "corpus"})
    out.append({"classes": [M, S], "main": "M", "kind": "corpus"})
    # arrays, for loop, if equation, declaration equation and start attribute with der
    out.append({"classes": [{"name": "M", "decls": [
        V([], "Real", "v", dim=3), V([], "Real", "w", dim=2), V([], "Real", "x"),
        {"prefixes": [], "type": "Real", "items": [{"name": "y", "start": D(R("x"))}, {"name": "q", "value": ["op", "+", [D(R("y")), ["lit", 1.0]]]}]},
        V(["parameter"], "Real", "p", value=2.0)],
        "eqs": [["for", "i", 3, ["eq", D(R("v", "i")), ["lit", 1.0]]], ["eq", R("w", 1), D(R("w", 2))],
                ["if", R("x"), ["eq", D(["op", "*", [R("p"), R("q")]]), ["lit", 1.0]], ["eq", R("q"), ["call", "sin", [D(R("x"))]]]]],
        "ieqs": []}], "main": "M", "kind": "corpus"})
    # short-class type aliases (type Flow = Real(...)), alias of alias, nested AND top-level, with prefixes:
    # only TOP-LEVEL input/output count (the coordinator's Pump/Plant example + every prefix on aliases)
    def VA(pre, alias, bt, *names, **kw):
        return {"prefixes": pre, "type": alias, "btype": bt, "items": [dict({"name": n}, **kw) for n in names]}
    types = [{"name": "Flow", "base": "Real", "mods": [["unit", '"m3/s"'], ["min", "0"]], "pos": 0},
             {"name": "Cnt", "base": "Integer", "mods": [], "pos": 1},
             {"name": "Flag", "base": "Boolean", "mods": [["start", "true"]], "pos": 1},
             {"name": "F2", "base": "Flow", "mods": [["max", "10"]], "pos": 2}]
    Pump = {"name": "Pump", "decls": [V(["parameter"], "Real", "gain", value=0.5), VA(["input"], "Flow", "Real", "q_in"),
                                       VA(["output"], "F2", "Real", "q_out"), V(["input"], "Real", "speed"),
                                       V(["output"], "Real", "head"), VA([], "Flow", "Real", "store"),
                                       VA(["parameter"], "Cnt", "Integer", "n", value=2), VA(["discrete", "output"], "Flag", "Boolean", "fl"),
                                       VA(["discrete", "input"], "Cnt", "Integer", "ci")],
            "eqs": [["eq", D(R("store")), ["op", "-", [R("q_in"), R("q_out")]]],
                    ["eq", R("q_out"), ["op", "*", [R("gain"), R("speed"), R("store")]]],
                    ["eq", R("head"), ["op", "*", [["lit", 2.0], R("store")]]]], "ieqs": []}
    Plant = {"name": "M", "decls": [VA(["input"], "Flow", "Real", "demand"), V(["input"], "Real", "u"),
                                    VA(["output"], "F2", "Real", "total"), V(["output"], "Real", "level"),
                                    V([], "Pump", "p"), VA(["constant"], "Cnt", "Integer", "k", value=3),
                                    VA(["parameter", "input"], "Flow", "Real", "pf", value=1.0),
                                    VA(["output"], "Flag", "Boolean", "g"), VA(["flow"], "Flow", "Real", "arr", dim=2),
                                    VA(["input"], "Flow", "Real", "e0", dim=0), V([], "Pump", "q")],
             "eqs": [["eq", R("p.q_in"), R("demand")], ["eq", R("p.speed"), R("u")], ["eq", R("total"), R("p.q_out")],
                     ["eq", D(R("level")), ["op", "+", [R("p.head"), D(["op", "*", [R("q.q_in"), R("q.ci")]])]]]], "ieqs": []}
    out.append({"classes": [Pump, Plant], "main": "M", "types": types, "kind": "corpus"})
    out.append({"classes": [Plant, Pump], "main": "M", "types": [dict(t, pos=2) for t in types], "kind": "corpus"})
    # user functions with for-statements / locals named like differentiated model variables; for-equation in the
    # model whose index is named like a model variable (used outside der only)
    Coil = {"name": "M", "decls": [V(["parameter"], "Real", "L", value=0.5), V(["input"], "Real", "v"), V([], "Real", "i", "u", "y", "k"),
                                   V([], "Real", "flux", dim=2), V(["output"], "Real", "v_eff", "heat")],
            "eqs": [["eq", R("v_eff"), ["call", "Shape", [R("v"), R("k")]]],
                    ["eq", ["op", "+", [["op", "*", [R("L"), D(R("i"))]], R("i")]], R("v_eff")],
                    ["for", "k", 2, ["eq", R("flux", "k"), ["op", "*", [D(R("y")), R("k", None)]]]],
                    ["eq", D(R("heat")), ["op", "*", [R("i"), D(R("u"))]]], ["eq", R("k"), ["lit", 1.0]]], "ieqs": []}
    for pos in (0, 1):
        out.append({"classes": [Coil], "main": "M", "kind": "corpus",
                    "functions": [{"name": "Shape", "inputs": ["u", "heat"], "output": "y", "protected": ["flux"], "loop": "i", "pos": pos}]})
    return out


def shadow_case():
    """Known finding loop-index-shadow-under-der."""
    return {"classes": [{"name": "M", "decls": [{"prefixes": [], "type": "Real", "items": [{"name": "i"}]},
                                                 {"prefixes": [], "type": "Real", "items": [{"name": "v", "dim": 2}]}],
                         "eqs": [["for", "i", 2, ["eq", ["der", [["ref", "v", "i"]]], ["lit", 1.0]]],
                                 ["eq", ["ref", "i", None], ["lit", 3.0]]], "ieqs": []}], "main": "M", "kind": "known"}


def known_case():
    return {"classes": [{"name": "M", "decls": [
        {"prefixes": ["output"], "type": "String", "items": [{"name": "t"}]},
        {"prefixes": ["output"], "type": "Real", "items": [{"name": "x"}]}],
        "eqs": [["eq", ["ref", "x", None], ["lit", 1.0]]], "ieqs": []}], "main": "M", "kind": "known"}


def malformed_case(rng):
    c = gen_model(rng)
    c["malformed"] = True
    c["kind"] = "malformed"
    m = [k for k in c["classes"] if k["name"] == "M"][0]
    m["eqs"].append(["eq", ["der", [["ref", "undeclared_zz", None]]], ["lit", 1.0]])
    c.pop("inject", None)
    return c


# ---- the check --------------------------------------------------------------------------------
def run_children(ctx, cases, workers=3):
    """core.run_child on `workers` contiguous chunks in parallel (parsing dominates: ~80 ms per model)."""
    from concurrent.futures import ThreadPoolExecutor
    if len(cases) < 50:
        return core.run_child(ctx, "c10", cases, timeout=1500)
    step = (len(cases) + workers - 1) // workers
    chunks = [cases[i:i + step] for i in range(0, len(cases), step)]
    with ThreadPoolExecutor(max_workers=workers) as ex:
        parts = list(ex.map(lambda ch: core.run_child(ctx, "c10", ch, timeout=1500), chunks))
    return [r for p in parts for r in p]


def prepare(case):
    c = dict(case)
    c["text"] = to_text(case)
    if c.get("regen"):
        c["regen"] = dict(c["regen"], text2=to_text(c["regen"]["case2"]))
    return c


def run(ctx):
    core.check_props(ctx, "C10.v", THEOREMS)
    fps = {}
    for path, names in (("/src/pymoca/backends/casadi/generator.py", {"exitClass", "_ast_symbols_to_variables", "get_derivative"}),
                        ("/src/pymoca/tree.py", {"StateAnnotator", "annotate_states"})):
        try:
            fps[path] = core.fingerprint(core.REPO + path, names)[0]
        except Exception as e:  # noqa
            fps[path] = "unreadable: %r" % e
    ctx.notes["source_fingerprint"] = fps

    cases = corpus_cases() + [shadow_case()] + probe_cases()
    n_fixed = len(cases)
    n_rand = ctx.scaled(250, 6000)
    for i in range(n_rand):
        c = gen_model(ctx.rng, allow_out_string=(i % 25 == 0))
        if i % 7 == 3 and not c.get("inject"):           # generate / edit equations / generate on one tree
            c["regen"] = {"case2": edited_case(ctx.rng, c)}
        cases.append(c)
    rc = corpus_cases()[0]
    rc["regen"] = {"case2": edited_case(ctx.rng, rc)}
    cases.append(rc)
    for _ in range(ctx.scaled(10, 60)):
        cases.append(malformed_case(ctx.rng))
    cases = [prepare(c) for c in cases]
    t_child = time.time()
    results = run_children(ctx, cases)
    t_child = time.time() - t_child

    # (a) property oracle
    kinds, cats = {}, {k: 0 for k in LISTS}
    nontrivial = set()
    n_exc_malformed = 0
    n_regen = 0
    enc, idx = [], []
    for i, (c, r) in enumerate(zip(cases, results)):
        kinds[c["kind"]] = kinds.get(c["kind"], 0) + 1
        if "crash" in r:
            core.violation(ctx, "impl-violation", {"input": c, "observed": r, "what": "child crashed"})
            continue
        v = judge(c, r)
        if v:
            core.report(ctx, v[0], v[1], {"input": c, "observed": r})
        if "lists" in r:
            for k in LISTS:
                cats[k] += len(r["lists"][k])
        if c.get("malformed"):
            n_exc_malformed += 0 if "lists" in r else 1
            continue
        syms, _ = flat_of(c)
        if len(syms) >= 2:
            nontrivial.add(json.dumps([[s["order"], s["prefixes"], s["type"], s["empty"]] for s in syms]) + c["text"])
        if "lists" in r or (v and v[0] == KNOWN_TAG):
            enc.append(encode_case(c, r))
            idx.append(i)
        if c.get("regen") and "lists2" in r:
            c2 = c["regen"]["case2"]
            v2 = judge(c2, {"lists": r["lists2"]})
            if not v2 and r["lists2"] != r["fresh2"]:
                v2 = ("fresh", "differs from a fresh parse of the edited text: %s" % json.dumps(r["fresh2"])[:300])
            if v2:
                core.report(ctx, "regen-" + v2[0], "second generate() on the same parsed tree after editing the equations: " + v2[1],
                            {"input": c, "observed": r})
            enc.append(encode_case(c2, {"lists": r["lists2"]}))
            idx.append(i)
            n_regen += 1
    # (b) correspondence, inside Coq
    t_coq = time.time()
    bad = core.coq_eval_cases(ctx, "gen", "From PV Require Import Model.C10_classify.\nImport ListNotations.\n",
                              "flat * option obs", enc, "check_case", shard=200)
    t_coq = time.time() - t_coq
    ctx.notes["timing_s"] = {"implementation_children": round(t_child, 1), "coq_correspondence": round(t_coq, 1)}
    mism = list(range(len(enc))) if bad is None else bad
    ctx.oblige("correspondence:model-vs-generate", not mism,
               "mismatching cases (indices into the case list): %s" % [idx[j] for j in mism[:10]])
    if mism and not ctx.violations:
        j = idx[mism[0]]
        core.violation(ctx, "correspondence-broken",
                       {"correspondence": "Model/C10_classify.v check_case vs pymoca generate()",
                        "input": cases[j], "observed": results[j]}, no_input=True)

    def still_fails(entry):
        c = prepare(entry["replay"]["input"])
        r = core.run_child(ctx, "c10", [c])[0]
        v = judge(c, r)
        return bool(v and v[0] == entry["tag"])
    core.replay_known(ctx, still_fails)

    ctx.cov["evaluations"] = len(cases)
    ctx.cov["distinct_nontrivial"] = len(nontrivial)
    ctx.cov["rule"] = ("%d fixed cases (hand-written corpus + finite table: 36 grammatical prefix combinations x 4 types x der?, "
                       "and all 128 subsets of 7 keywords x 4 types injected at AST level) + %d random flat models (0-2 helper "
                       "classes, short-class type aliases incl. alias of alias on nested and top-level symbols, nested instances, arrays, for/if equations, user functions with for-statements and locals named like model variables, for-equation "
                       "indices named like model variables, replaceable elements with component redeclarations in extends / component "
                       "modifications, generate-edit-generate sequences on one tree, der in expressions / initial equations / "
                       "declaration equations / start attributes; 30%% with AST-injected prefixes and orders) + malformed; "
                       "non-trivial = valid case with >= 2 flat symbols, distinct by (symbol table, text)" % (n_fixed, n_rand))
    ctx.cov["samples"] = [cases[0]["text"], cases[n_fixed]["text"], cases[n_fixed + 1].get("inject") or cases[n_fixed + 1]["text"]]
    ctx.notes["input_distribution"] = {"kinds": kinds, "variables_per_list_observed": cats,
                                       "malformed_rejected": n_exc_malformed, "generate_edit_generate_sequences": n_regen, "encoded_for_coq": len(enc)}
    ctx.assumptions += [
        "the flat description of a case (names with instance prefixes, input/output stripped on nested symbols, one "
        "parser order counter over the file) is computed by the harness (vlib/c10.py flat_of) and is the model's input; "
        "pymoca's flattening itself is not modelled here (C07/C08)",
        "array index expressions in generated equations are literals or loop indices (not modelled as references)",
        "known finding loop-index-shadow-under-der: subscripts are encoded as references (the annotator walks them), so the "
        "Coq model agrees with the code; the scoping-aware Python oracle reports the input under its own tag",
        "known finding output-string-variable: the model mirrors the AttributeError as generate = None; theorems about "
        "the produced Model carry the carving hypothesis (C10_model_produced)",
    ]


def replay(ctx, path):
    rec = json.load(open(path))
    case = prepare(rec["input"])
    res = core.run_child(ctx, "c10", [case])[0]
    v = judge(case, res)
    if not v and case.get("regen") and "lists2" in res:
        v = judge(case["regen"]["case2"], {"lists": res["lists2"]})
        if not v and res["lists2"] != res["fresh2"]:
            v = ("fresh", "second generate differs from a fresh parse of the edited text")
        if v:
            v = ("regen-" + v[0], v[1])
        print("edited text:\n" + case["regen"]["text2"])
    print(case["text"])
    if case.get("inject"):
        print("inject:", case["inject"])
    print("observed:", json.dumps(res)[:600])
    print("replay:", ("%s: %s" % v) if v else "property holds on this input")
    return 1 if v else 0
