"""Assemble /verif/MANIFEST.json from manifest.d/<ID>.json (one file per claimed property).
Properties without a file are listed under not_applicable with the reason from
manifest.d/_unclaimed.json (default: machinery not finished)."""
import json
import os
import sys

VERIF = os.path.dirname(os.path.dirname(os.path.abspath(__file__)))


def main():
    props = [json.loads(l) for l in open(os.path.join(VERIF, "properties.jsonl")) if l.strip()]
    ids = [p["id"] for p in props]
    d = os.path.join(VERIF, "manifest.d")
    try:
        unclaimed = json.load(open(os.path.join(d, "_unclaimed.json")))
    except OSError:
        unclaimed = {}
    checks, na = [], []
    for pid in ids:
        f = os.path.join(d, pid + ".json")
        if os.path.exists(f):
            e = json.load(open(f))
            e.setdefault("property_id", pid)
            e.setdefault("quick_cmd", "./check %s --tier quick" % pid)
            e.setdefault("thorough_cmd", "./check %s --tier thorough" % pid)
            e.setdefault("evidence_file", "/verif/evidence/%s.json" % pid)
            e.setdefault("replay_cmd_template", "./check %s --replay {path}" % pid)
            e.setdefault("engine", "coq-proof")
            checks.append(e)
        else:
            na.append({"property_id": pid,
                       "reason": unclaimed.get(pid, "not claimed: the Coq model, theorems and correspondence "
                                                    "check for this property are not finished (see DESIGN.md); "
                                                    "the technique applies, no other technique is substituted")})
    m = {
        "version": 1,
        "setup_cmd": "./setup.sh",
        "hooks": {
            "guard": "PYMOCA_VERIF",
            "enable": "no source hooks are needed: the checks control clock, version, sqlite connections and cache "
                      "locations by patching module attributes and environment variables from the harness "
                      "(PYMOCA_VERIF=1 is exported to child processes but read by nothing in /repo)",
            "baseline_off_cmd": "cd /repo && /venv/bin/python -m pytest -ra -q -p no:cacheprovider --timeout=900 "
                                "--continue-on-collection-errors",
            "source_commits": [],
            "add_only": True,
        },
        "engines": [{
            "name": "coq-proof",
            "path": "/verif/coq",
            "serves_properties": [c["property_id"] for c in checks],
            "kind_free_text": "Coq 8.16.1 development (Lib/ Model/ Proofs/ Props/), full .vo build; models tied to "
                              "/repo by regenerated tables and by correspondence runs (cases_*.v evaluated with "
                              "vm_compute against the implementation run in child processes); driver vlib/ (Python)",
        }],
        "checks": checks,
        "not_applicable": na,
        "notes": "One entry point: ./check <ID> [--tier quick|thorough] [--seed N] [--replay FILE]. "
                 "Known findings and fixed defects: findings/known_findings.json. See DESIGN.md.",
    }
    json.dump(m, open(os.path.join(VERIF, "MANIFEST.json"), "w"), indent=1)
    print("MANIFEST.json: %d checks, %d not claimed" % (len(checks), len(na)))


if __name__ == "__main__":
    main()
