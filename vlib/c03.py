"""C03 — parsed expressions follow Modelica precedence and literal values.

S1  T1: the table of alternatives of rule `expr` is re-read from Modelica.g4 (fail-closed reader) and
    run/C03/Tie_C03.v checks by vm_compute that it satisfies the side condition `tab_ok` under which
    the theorems of Props/C03.v are stated.
S3  (a) property oracle: generated expression trees, printed by an independent printer that follows the
    grammar rules of the Modelica specification (minimal / full / random redundant parentheses), parsed by
    the real pymoca parser in a child; the parsed tree and the generated tree are evaluated by an exact
    evaluator (Fractions) at several points, leaves (literal values + Python types) compared exactly.
    (b) correspondence: the Coq model `parse_antlr` driven by the REGENERATED table gives the same tree
    as the real parser on the same token lists (also on texts outside the specification's grammar).
"""
import hashlib
import json
import re
from fractions import Fraction

from . import core
from .core import cq_bool, cq_list, cq_nat, cq_pos, cq_str

THEOREMS = ["C03_roundtrip", "C03_roundtrip_fuel", "C03_value", "C03_literals_int", "C03_literals_real",
            "C03_string_raw", "C03_string_escape_free", "C03_string_escape_refuted",
            "C03_string_escape_refuted_witness", "C03_example"]

# ---------------------------------------------------------------------------
# T1: fail-closed reader of rule `expr` in Modelica.g4
# ---------------------------------------------------------------------------
SYMS = {"+": "SPlus", "-": "SMinus", ".+": "SEPlus", ".-": "SEMinus", "*": "SMul", "/": "SDiv",
        ".*": "SEMul", "./": "SEDiv", "^": "SPow", ".^": "SEPow", "<": "SLt", "<=": "SLe", ">": "SGt",
        ">=": "SGe", "==": "SEq", "<>": "SNe", "not": "SNot", "and": "SAnd", "or": "SOr"}
LABELS = {"expr_signed": "LSigned", "expr_exp": "LExp", "expr_mul": "LMul", "expr_add": "LAdd",
          "expr_rel": "LRel", "expr_not": "LNot", "expr_and": "LAnd", "expr_or": "LOr",
          "expr_primary": "LPrimary"}


class Shape(Exception):
    pass


def rule_text(g4, name):
    m = re.search(r"^%s\s*:(.*?)^\s*;" % re.escape(name), g4, flags=re.S | re.M)
    if not m:
        raise Shape("rule %s not found" % name)
    body = re.sub(r"//[^\n]*", "", m.group(1))
    return body


def read_expr_table(g4):
    body = rule_text(g4, "expr")
    toks = re.findall(r"'[^']*'|#\s*\w+|\w+\s*=|\w+|[()|]|\S", body)
    alts, cur, depth = [], [], 0
    for t in toks:
        if t == "(":
            depth += 1
        elif t == ")":
            depth -= 1
        if t == "|" and depth == 0:
            alts.append(cur)
            cur = []
        else:
            cur.append(t)
    alts.append(cur)
    table = []
    for a in alts:
        if not a or not a[-1].startswith("#"):
            raise Shape("alternative without label: %s" % " ".join(a))
        label = a[-1][1:].strip()
        if label not in LABELS:
            raise Shape("unknown label %s" % label)
        a = a[:-1]

        def ops_at(i):
            """operator group starting at a[i]: 'x'  |  op=( 'x' | 'y' ... )  -> (symbols, next index)"""
            if i < len(a) and a[i].startswith("'"):
                return [a[i][1:-1]], i + 1
            if i < len(a) and re.fullmatch(r"op\s*=", a[i]) and i + 1 < len(a) and a[i + 1] == "(":
                j, out = i + 2, []
                while j < len(a) and a[j] != ")":
                    if a[j].startswith("'"):
                        out.append(a[j][1:-1])
                    elif a[j] != "|":
                        raise Shape("operator group: %s" % a[j])
                    j += 1
                if j >= len(a):
                    raise Shape("unterminated operator group")
                return out, j + 1
            raise Shape("operator expected in: %s" % " ".join(a))

        if a == ["primary"]:
            kind, ops = "KAtom", []
        elif a and a[0] == "expr":
            ops, j = ops_at(1)
            if a[j:] != ["expr"]:
                raise Shape("binary alternative: %s" % " ".join(a))
            kind = "KBinary"
        elif a and a[0] == "primary":
            ops, j = ops_at(1)
            if a[j:] != ["primary"]:
                raise Shape("primary-binary alternative: %s" % " ".join(a))
            kind = "KPrimBin"
        else:
            ops, j = ops_at(0)
            if a[j:] != ["expr"]:
                raise Shape("prefix alternative: %s" % " ".join(a))
            kind = "KPrefix"
        for o in ops:
            if o not in SYMS:
                raise Shape("unknown operator %r" % o)
        table.append((kind, ops, label))
    return table


def table_coq(table):
    return cq_list(["mkAlt %s %s %s" % (k, cq_list([SYMS[o] for o in ops]), LABELS[l]) for k, ops, l in table])


# ---------------------------------------------------------------------------
# T2: fail-closed reader (Python ast) of the listener handlers in parser.py
# ---------------------------------------------------------------------------
import ast as pyast

ROW_HANDLERS = [("exitExpr_signed", "LSigned"), ("exitExpr_exp", "LExp"), ("exitExpr_mul", "LMul"),
                ("exitExpr_add", "LAdd"), ("exitExpr_rel", "LRel"), ("exitExpr_not", "LNot"),
                ("exitExpr_and", "LAnd"), ("exitExpr_or", "LOr")]
PASS_SHAPES = {
    "exitExpr_primary": "self.ast[ctx] = self.ast[ctx.primary()]",
    "exitExpression_simple": "self.ast[ctx] = self.ast[ctx.simple_expression()]",
    "exitPrimary_component_reference": "self.ast[ctx] = self.ast[ctx.component_reference()]",
    "exitPrimary_output_expression_list":
        "self.ast[ctx] = [self.ast[x] for x in ctx.output_expression_list().expression()]\n"
        "if len(self.ast[ctx]) == 1:\n    self.ast[ctx] = self.ast[ctx][0]",
    "exitPrimary_function":
        "self.ast[ctx] = ast.Expression(operator=self.ast[ctx.component_reference()], operands=[self.ast[x.expression()] "
        "for x in ctx.function_call_args().function_arguments().function_argument()])",
    "exitPrimary_derivative":
        "self.ast[ctx] = ast.Expression(operator='der', operands=[self.ast[x.expression()] "
        "for x in ctx.function_call_args().function_arguments().function_argument()])",
    "exitPrimary_false": "self.ast[ctx] = ast.Primary(value=False)",
    "exitPrimary_true": "self.ast[ctx] = ast.Primary(value=True)",
}


def _body_text(fn):
    body = [b for b in fn.body if not (isinstance(b, pyast.Expr) and isinstance(b.value, pyast.Constant))]
    return "\n".join(pyast.unparse(b) for b in body), body


def _const_int(n):
    if n is None:
        return None
    if isinstance(n, pyast.Constant) and isinstance(n.value, int):
        return n.value
    if isinstance(n, pyast.UnaryOp) and isinstance(n.op, pyast.USub) and isinstance(n.operand, pyast.Constant):
        return -n.operand.value
    raise Shape("slice bound %s" % pyast.unparse(n))


def _slice_of(node, name):
    if not (isinstance(node, pyast.Subscript) and isinstance(node.value, pyast.Name) and node.value.id == name
            and isinstance(node.slice, pyast.Slice)):
        raise Shape("expected %s[a:b:c], got %s" % (name, pyast.unparse(node)))
    sl = node.slice
    return (_const_int(sl.lower), _const_int(sl.upper), _const_int(sl.step))


def read_listener(src):
    """-> dict(rows=[(label, opsrc, accessor, rev)], if_conds, if_blocks1, if_blocks2, num, str, passthrough)"""
    tree = pyast.parse(src)
    cls = [n for n in tree.body if isinstance(n, pyast.ClassDef) and n.name == "ASTListener"]
    if len(cls) != 1:
        raise Shape("class ASTListener not found")
    fns = {n.name: n for n in cls[0].body if isinstance(n, pyast.FunctionDef)}

    def need(name):
        if name not in fns:
            raise Shape("handler %s missing" % name)
        return fns[name]

    rows = []
    for hname, label in ROW_HANDLERS:
        text, body = _body_text(need(hname))
        if len(body) != 1 or not isinstance(body[0], pyast.Assign) or pyast.unparse(body[0].targets[0]) != "self.ast[ctx]":
            raise Shape("%s: not a single assignment to self.ast[ctx]" % hname)
        call = body[0].value
        if not (isinstance(call, pyast.Call) and pyast.unparse(call.func) == "ast.Expression" and not call.args
                and sorted(k.arg for k in call.keywords) == ["operands", "operator"]):
            raise Shape("%s: not ast.Expression(operator=, operands=)" % hname)
        kw = {k.arg: k.value for k in call.keywords}
        op = kw["operator"]
        if pyast.unparse(op) == "ctx.op.text":
            opsrc = "OpText"
        elif isinstance(op, pyast.Constant) and op.value in SYMS:
            opsrc = "(OpLit %s)" % SYMS[op.value]
        else:
            raise Shape("%s: operator source %s" % (hname, pyast.unparse(op)))
        ot = pyast.unparse(kw["operands"])
        m = re.fullmatch(r"\[self\.ast\[(\w+)\] for \1 in (reversed\()?ctx\.(expr|primary)\(\)\)?\]", ot)
        m1 = re.fullmatch(r"\[self\.ast\[ctx\.(expr|primary)\(\)\]\]", ot)
        if m and (m.group(2) is None) == (not ot.endswith("))]")):
            acc, rev = m.group(3), m.group(2) is not None
        elif m1:
            acc, rev = m1.group(1), False
        else:
            raise Shape("%s: operands %s" % (hname, ot))
        rows.append((label, opsrc, "AccExpr" if acc == "expr" else "AccPrimary", rev))

    # exitExpression_if
    text, body = _body_text(need("exitExpression_if"))
    if (len(body) != 4 or pyast.unparse(body[0]) != "all_expr = [self.ast[s] for s in ctx.expression()]"
            or pyast.unparse(body[3]) != "self.ast[ctx] = ast.IfExpression(conditions=conditions, expressions=expressions)"
            or not all(isinstance(b, pyast.Assign) for b in body[1:3])
            or pyast.unparse(body[1].targets[0]) != "conditions" or pyast.unparse(body[2].targets[0]) != "expressions"):
        raise Shape("exitExpression_if: %s" % text)
    conds = _slice_of(body[1].value, "all_expr")
    v = body[2].value
    if not (isinstance(v, pyast.BinOp) and isinstance(v.op, pyast.Add)):
        raise Shape("exitExpression_if expressions: %s" % pyast.unparse(v))
    b1, b2 = _slice_of(v.left, "all_expr"), _slice_of(v.right, "all_expr")

    # exitPrimary_unsigned_number
    text, body = _body_text(need("exitPrimary_unsigned_number"))
    ok = (len(body) == 3 and pyast.unparse(body[0]) == "number_string = ctx.getText()"
          and isinstance(body[1], pyast.Try) and len(body[1].body) == 1 and len(body[1].handlers) == 1
          and not body[1].orelse and not body[1].finalbody
          and pyast.unparse(body[1].handlers[0].type) == "ValueError" and len(body[1].handlers[0].body) == 1
          and pyast.unparse(body[2]) == "self.ast[ctx] = ast.Primary(value=val)")
    if not ok:
        raise Shape("exitPrimary_unsigned_number: %s" % text)
    conv = []
    for st in (body[1].body[0], body[1].handlers[0].body[0]):
        m = re.fullmatch(r"val = (int|float)\(number_string\)", pyast.unparse(st))
        if not m:
            raise Shape("exitPrimary_unsigned_number conversion: %s" % pyast.unparse(st))
        conv.append(m.group(1))
    if conv == ["int", "float"]:
        num = "NumIntThenFloat"
    elif conv == ["float", "float"]:
        num = "NumFloat"
    else:
        raise Shape("exitPrimary_unsigned_number conversions %s" % conv)

    # exitPrimary_string
    text, body = _body_text(need("exitPrimary_string"))
    body = [b for b in body if not isinstance(b, pyast.Assert)]
    if not (len(body) == 2 and pyast.unparse(body[0]) == "val = ctx.getText()" and isinstance(body[1], pyast.Assign)
            and pyast.unparse(body[1].targets[0]) == "self.ast[ctx]" and isinstance(body[1].value, pyast.Call)
            and pyast.unparse(body[1].value.func) == "ast.Primary" and len(body[1].value.keywords) == 1
            and body[1].value.keywords[0].arg == "value" and not body[1].value.args):
        raise Shape("exitPrimary_string: %s" % text)
    strsl = _slice_of(body[1].value.keywords[0].value, "val")

    # fixed-shape handlers
    bad = []
    for hname, want in PASS_SHAPES.items():
        if hname not in fns or _body_text(fns[hname])[0] != want:
            bad.append(hname)
    fn = fns.get("exitSimple_expression")
    ok = (fn is not None and len(_body_text(fn)[1]) == 1 and isinstance(fn.body[-1], pyast.If)
          and pyast.unparse(fn.body[-1].test) == "len(ctx.expr()) > 1"
          and "\n".join(pyast.unparse(b) for b in fn.body[-1].orelse) == "self.ast[ctx] = self.ast[ctx.expr()[0]]")
    if not ok:
        bad.append("exitSimple_expression")
    return {"rows": rows, "if_conds": conds, "if_blocks1": b1, "if_blocks2": b2, "num": num, "str": strsl,
            "passthrough": not bad, "not_passthrough": bad}


def cq_oz(z):
    return "None" if z is None else "(Some (%d)%%Z)" % z


def cq_pslice(t):
    return "(%s, %s, %s)" % tuple(cq_oz(z) for z in t)


def listener_coq(lt):
    rows = cq_list(["mkRow %s %s %s %s" % (l, o, a, cq_bool(r)) for l, o, a, r in lt["rows"]])
    return "(mkLt %s %s %s %s %s %s %s)" % (rows, cq_pslice(lt["if_conds"]), cq_pslice(lt["if_blocks1"]),
                                         cq_pslice(lt["if_blocks2"]), lt["num"], cq_pslice(lt["str"]),
                                         cq_bool(lt["passthrough"]))


# the other rules the model hard-codes (shape only; a change switches the run to the thorough case count)
RULE_SHAPES = ["expression", "simple_expression", "primary", "function_call_args"]


def rule_hashes(g4):
    out = {}
    for r in RULE_SHAPES:
        try:
            out[r] = hashlib.sha256(re.sub(r"\s+", " ", rule_text(g4, r)).strip().encode()).hexdigest()[:8]
        except Shape:
            out[r] = "missing"
    return out



# ---------------------------------------------------------------------------
# trees, the specification's printer, resign-free expected value
# ---------------------------------------------------------------------------
ADD = ["+", "-", ".+", ".-"]
MUL = ["*", "/", ".*", "./"]
POW = ["^", ".^"]
REL = ["<", "<=", ">", ">=", "==", "<>"]
ARITH_BIN = ADD + MUL + POW
KEYWORDS = {"if", "then", "else", "elseif", "not", "and", "or", "true", "false", "der", "end"}


def is_bin(e, ops):
    return e[0] == "bin" and e[1] in ops


# Modelica specification, B.2.7 (one function per grammar rule)
def p_expression(e):
    if e[0] == "if":
        conds, blocks = e[1], e[2]
        out = ["if"] + p_expression(conds[0]) + ["then"] + p_expression(blocks[0])
        for c, b in zip(conds[1:], blocks[1:-1]):
            out += ["elseif"] + p_expression(c) + ["then"] + p_expression(b)
        return out + ["else"] + p_expression(blocks[-1])
    return p_logical_expression(e)          # simple_expression without ':'


def p_logical_expression(e):               # logical_term { or logical_term }
    if is_bin(e, ["or"]):
        return p_logical_expression(e[2]) + ["or"] + p_logical_term(e[3])
    return p_logical_term(e)


def p_logical_term(e):                     # logical_factor { and logical_factor }
    if is_bin(e, ["and"]):
        return p_logical_term(e[2]) + ["and"] + p_logical_factor(e[3])
    return p_logical_factor(e)


def p_logical_factor(e):                   # [ not ] relation
    if e[0] == "un" and e[1] == "not":
        return ["not"] + p_relation(e[2])
    return p_relation(e)


def p_relation(e):                         # arithmetic_expression [ rel_op arithmetic_expression ]
    if is_bin(e, REL):
        return p_arith(e[2]) + [e[1]] + p_arith(e[3])
    return p_arith(e)


def p_arith(e):                            # [ add_op ] term { add_op term }
    if e[0] == "un" and e[1] in ("+", "-"):
        return [e[1]] + p_term(e[2])
    if is_bin(e, ADD):
        return p_arith(e[2]) + [e[1]] + p_term(e[3])
    return p_term(e)


def p_term(e):                             # factor { mul_op factor }
    if is_bin(e, MUL):
        return p_term(e[2]) + [e[1]] + p_factor(e[3])
    return p_factor(e)


def p_factor(e):                           # primary [ (^ | .^) primary ]
    if is_bin(e, POW):
        return p_primary(e[2]) + [e[1]] + p_primary(e[3])
    if e[0] == "usign":
        # pymoca DIALECT (not in the specification's grammar): rule expr's prefix alternative `op expr` is admissible
        # in every operand position and binds tightest, so `a / - b * c` means (a / (-b)) * c.  A "usign" node is
        # a unary sign printed WITHOUT the parentheses the specification would demand; same meaning as "un".
        return [e[1]] + p_factor(e[2])
    return p_primary(e)


def p_primary(e):
    k = e[0]
    if k == "var":
        return [e[1]]
    if k == "num":
        return [e[1]]
    if k == "bool":
        return ["true" if e[1] else "false"]
    if k == "str":
        return ['"' + e[1] + '"']
    if k == "call":
        out = [e[1], "("]
        for i, a in enumerate(e[2]):
            if i:
                out.append(",")
            out += p_expression(a)
        return out + [")"]
    if k == "par":
        return ["("] + p_expression(e[1]) + [")"]
    if k in ("idx", "arr"):          # A[i, j]  /  {a, b}: oracle-only shapes (not in the Coq model)
        items = e[2] if k == "idx" else e[1]
        out = [e[1], "["] if k == "idx" else ["{"]
        for i, a in enumerate(items):
            if i:
                out.append(",")
            out += p_expression(a)
        return out + (["]"] if k == "idx" else ["}"])
    return ["("] + p_expression(e) + [")"]


def children(e):
    k = e[0]
    if k in ("un", "usign"):
        return [e[2]]
    if k == "idx":
        return list(e[2])
    if k == "arr":
        return list(e[1])
    if k == "bin":
        return [e[2], e[3]]
    if k == "call":
        return list(e[2])
    if k == "if":
        return list(e[1]) + list(e[2])
    if k == "par":
        return [e[1]]
    return []


def rebuild(e, ch):
    k = e[0]
    if k in ("un", "usign"):
        return [k, e[1], ch[0]]
    if k == "idx":
        return ["idx", e[1], ch]
    if k == "arr":
        return ["arr", ch]
    if k == "bin":
        return ["bin", e[1], ch[0], ch[1]]
    if k == "call":
        return ["call", e[1], ch]
    if k == "if":
        n = len(e[1])
        return ["if", ch[:n], ch[n:]]
    if k == "par":
        return ["par", ch[0]]
    return e


def add_pars(rng, e, prob, atom_prob):
    ch = [add_pars(rng, c, prob, atom_prob) for c in children(e)]
    out = []
    for c in ch:
        p = prob if children(c) and c[0] != "par" else atom_prob
        while rng.random() < p:
            c = ["par", c]
            p = 0.15
        out.append(c)
    return rebuild(e, out)


def size(e):
    return 1 + sum(size(c) for c in children(e))


def subtrees(e):
    yield e
    for c in children(e):
        yield from subtrees(c)


# ---------------------------------------------------------------------------
# exact evaluation (independent of the Coq model).  Booleans are 1/0, `and`=min, `or`=max,
# `not x`=1-x, so that every tree (also an ill-typed one) has a value that depends on its grouping.
# ---------------------------------------------------------------------------
class Skip(Exception):
    pass


ESC = {"'": "'", '"': '"', "?": "?", "\\": "\\", "a": "\a", "b": "\b", "f": "\f", "n": "\n", "r": "\r",
       "t": "\t", "v": "\v"}


def decode_string(raw):
    out, i = [], 0
    while i < len(raw):
        if raw[i] == "\\" and i + 1 < len(raw) and raw[i + 1] in ESC:
            out.append(ESC[raw[i + 1]])
            i += 2
        else:
            out.append(raw[i])
            i += 1
    return "".join(out)


NUM_RE = re.compile(r"^(\d+)(?:\.(\d*))?(?:[eE]([+-]?)(\d+))?$")


def num_parts(text):
    m = NUM_RE.match(text)
    assert m, text
    ip, fr, sg, ex = m.group(1), m.group(2), m.group(3), m.group(4)
    return ip, fr, (None if ex is None else (sg == "-", ex))


def num_exact(text):
    ip, fr, ex = num_parts(text)
    fd = fr or ""
    e = 0 if ex is None else (-int(ex[1]) if ex[0] else int(ex[1]))
    return Fraction(int(ip + fd)) * Fraction(10) ** (e - len(fd))


def num_is_int(text):
    return text.isdigit()


def bound(x):
    if abs(x.numerator) > 10 ** 60 or x.denominator > 10 ** 60:
        raise Skip()
    return x


def ev_op(op, a):
    if len(a) == 1:
        if op == "+":
            return a[0]
        if op == "-":
            return -a[0]
        if op == "not":
            return 1 - a[0]
        raise KeyError(op)
    x, y = a
    if op in ("+", ".+"):
        return x + y
    if op in ("-", ".-"):
        return x - y
    if op in ("*", ".*"):
        return bound(x * y)
    if op in ("/", "./"):
        if y == 0:
            raise Skip()
        return bound(x / y)
    if op in ("^", ".^"):
        if y.denominator != 1 or abs(y) > 6 or (y < 0 and x == 0):
            raise Skip()
        return bound(x ** int(y))
    if op == "<":
        return Fraction(int(x < y))
    if op == "<=":
        return Fraction(int(x <= y))
    if op == ">":
        return Fraction(int(x > y))
    if op == ">=":
        return Fraction(int(x >= y))
    if op == "==":
        return Fraction(int(x == y))
    if op == "<>":
        return Fraction(int(x != y))
    if op == "and":
        return min(x, y)
    if op == "or":
        return max(x, y)
    raise KeyError(op)


def ev_call(name, args):
    c = sum(ord(ch) for ch in name) % 11
    return bound(Fraction(c) + sum((i + 2) * a for i, a in enumerate(args)))


def ev_if(conds, blocks):
    for c, b in zip(conds, blocks):
        if c() != 0:
            return b()
    return blocks[-1]()


def ev_gen(e, env):
    k = e[0]
    if k == "var":
        return env[e[1]]
    if k == "num":
        return Fraction(int(e[1])) if num_is_int(e[1]) else Fraction(float(num_exact(e[1])))
    if k == "bool":
        return Fraction(int(e[1]))
    if k == "par":
        return ev_gen(e[1], env)
    if k in ("un", "usign"):
        return ev_op(e[1], [ev_gen(e[2], env)])
    if k == "idx":
        return ev_call("idx:" + e[1], [ev_gen(a, env) for a in e[2]])
    if k == "arr":
        return ev_call("{}", [ev_gen(a, env) for a in e[1]])
    if k == "bin":
        return ev_op(e[1], [ev_gen(e[2], env), ev_gen(e[3], env)])
    if k == "call":
        return ev_call(e[1], [ev_gen(a, env) for a in e[2]])
    if k == "if":
        return ev_if([lambda c=c: ev_gen(c, env) for c in e[1]], [lambda b=b: ev_gen(b, env) for b in e[2]])
    raise Skip()


class BadTree(Exception):
    pass


def ev_real(t, env):
    k = t[0]
    if k == "V":
        if t[1] not in env:
            raise BadTree("unknown variable %s" % t[1])
        return env[t[1]]
    if k == "P":
        if t[1] == "int":
            return Fraction(int(t[2]))
        if t[1] == "float" and isinstance(t[2], list):
            return Fraction(int(t[2][0]), int(t[2][1]))
        if t[1] == "bool":
            return Fraction(int(t[2]))
        raise BadTree("literal %s" % t[1:])
    if k == "E":
        if len(t[2]) not in (1, 2):
            raise BadTree("operator %s with %d operands" % (t[1], len(t[2])))
        if t[1] == "der":
            return ev_call("der", [ev_real(a, env) for a in t[2]])
        try:
            return ev_op(t[1], [ev_real(a, env) for a in t[2]])
        except KeyError:
            raise BadTree("operator %r with %d operand(s)" % (t[1], len(t[2])))
    if k == "C":
        return ev_call(t[1], [ev_real(a, env) for a in t[2]])
    if k == "VI":
        return ev_call("idx:" + t[1], [ev_real(a, env) for a in t[2]])
    if k == "A":
        return ev_call("{}", [ev_real(a, env) for a in t[1]])
    if k == "IF":
        if len(t[2]) != len(t[1]) + 1 or not t[1]:
            raise BadTree("if with %d conditions and %d branches" % (len(t[1]), len(t[2])))
        return ev_if([lambda c=c: ev_real(c, env) for c in t[1]], [lambda b=b: ev_real(b, env) for b in t[2]])
    raise BadTree("node %s" % t[:2])


def leaves_gen(e):
    k = e[0]
    if k == "var":
        return [["var", e[1]]]
    if k == "num":
        if num_is_int(e[1]):
            return [["int", str(int(e[1]))]]
        v = float(num_exact(e[1]))
        n, d = v.as_integer_ratio()
        return [["float", [str(n), str(d)]]]
    if k == "bool":
        return [["bool", e[1]]]
    if k == "str":
        return [["str", decode_string(e[1])]]
    out = [["fn", e[1]]] if k == "call" else [["fn", "idx:" + e[1]]] if k == "idx" else [["fn", "{}"]] if k == "arr" else []
    for c in children(e):
        out += leaves_gen(c)
    return out


def leaves_real(t):
    k = t[0]
    if k == "V":
        return [["var", t[1]]]
    if k == "P":
        return [[t[1], t[2]]]
    if k == "E":
        out = [["fn", "der"]] if t[1] == "der" else []
        for a in t[2]:
            out += leaves_real(a)
        return out
    if k == "C":
        out = [["fn", t[1]]]
        for a in t[2]:
            out += leaves_real(a)
        return out
    if k in ("VI", "A"):
        out = [["fn", "idx:" + t[1]]] if k == "VI" else [["fn", "{}"]]
        for a in (t[2] if k == "VI" else t[1]):
            out += leaves_real(a)
        return out
    if k == "IF":
        # source order: c1 b1 c2 b2 ... else
        out = []
        for i, b in enumerate(t[2]):
            if i < len(t[1]):
                out += leaves_real(t[1][i])
            out += leaves_real(b)
        return out
    return [["?", t[1] if len(t) > 1 else ""]]


def leaves_src(e):
    """leaves of the generated tree in SOURCE order (if: c1 b1 c2 b2 .. else)"""
    if e[0] == "if":
        out = []
        for i, b in enumerate(e[2]):
            if i < len(e[1]):
                out += leaves_src(e[1][i])
            out += leaves_src(b)
        return out
    if e[0] in ("var", "num", "bool", "str"):
        return leaves_gen(e)
    out = ([["fn", e[1]]] if e[0] == "call" else [["fn", "idx:" + e[1]]] if e[0] == "idx"
           else [["fn", "{}"]] if e[0] == "arr" else [])
    for c in children(e):
        out += leaves_src(c)
    return out


# ---------------------------------------------------------------------------
# generators
# ---------------------------------------------------------------------------
AVARS = ["a", "b", "c", "d", "x1", "u_2"]
IVARS = ["n", "k"]
BVARS = ["p", "q", "flag"]
FUN1 = ["sin", "cos", "exp", "abs", "myFn"]
FUN2 = ["max", "min", "atan2"]
INTS = ["0", "1", "2", "3", "7", "10", "12", "007", "12345678901234567890"]
REALS = ["1.5", "0.25", "2.", "1e2", "1.5e-3", "3E+2", "12.75e1", "0.1", "6.02e23", "1.0", "2.50", "1e-7", "33.3333"]
DYADIC = [Fraction(x) for x in ("-3", "-2", "-3/2", "-1", "-1/2", "1/2", "1", "3/2", "2", "3", "1/4", "5")]


def gen_arith(rng, d, stats):
    x = rng.random()
    if d <= 0 or x < 0.16:
        y = rng.random()
        if y < 0.55:
            return ["var", rng.choice(AVARS + IVARS)]
        if y < 0.8:
            return ["num", rng.choice(INTS)]
        return ["num", rng.choice(REALS)]
    if x < 0.30:
        return ["un", rng.choice(["-", "-", "+"]), gen_arith(rng, d - 1, stats)]
    if x < 0.58:
        return ["bin", rng.choice(ADD if rng.random() < 0.8 else [".+", ".-"]), gen_arith(rng, d - 1, stats), gen_arith(rng, d - 1, stats)]
    if x < 0.80:
        return ["bin", rng.choice(MUL if rng.random() < 0.8 else [".*", "./"]), gen_arith(rng, d - 1, stats), gen_arith(rng, d - 1, stats)]
    if x < 0.89:
        y = rng.random()
        if y < 0.5:
            ex = ["num", rng.choice(["0", "1", "2", "3"])]
        elif y < 0.8:
            ex = ["var", rng.choice(IVARS)]
        else:
            ex = gen_arith(rng, d - 2, stats)
        return ["bin", rng.choice(["^", "^", ".^"]), gen_arith(rng, d - 1, stats), ex]
    if x < 0.94:
        if rng.random() < 0.3:
            n = 2
            return ["if", [gen_bool(rng, d - 1, stats) for _ in range(n)], [gen_arith(rng, d - 1, stats) for _ in range(n + 1)]]
        return ["if", [gen_bool(rng, d - 1, stats)], [gen_arith(rng, d - 1, stats), gen_arith(rng, d - 1, stats)]]
    y = rng.random()
    if y < 0.6:
        return ["call", rng.choice(FUN1), [gen_arith(rng, d - 1, stats)]]
    if y < 0.9:
        return ["call", rng.choice(FUN2), [gen_arith(rng, d - 1, stats), gen_arith(rng, d - 1, stats)]]
    return ["call", "der", [["var", rng.choice(AVARS)]]]


def gen_bool(rng, d, stats):
    x = rng.random()
    if d <= 0 or x < 0.15:
        if rng.random() < 0.7:
            return ["var", rng.choice(BVARS)]
        return ["bool", rng.random() < 0.5]
    if x < 0.45:
        return ["bin", rng.choice(REL), gen_arith(rng, d - 1, stats), gen_arith(rng, d - 1, stats)]
    if x < 0.60:
        return ["un", "not", gen_bool(rng, d - 1, stats)]
    if x < 0.78:
        return ["bin", "and", gen_bool(rng, d - 1, stats), gen_bool(rng, d - 1, stats)]
    if x < 0.93:
        return ["bin", "or", gen_bool(rng, d - 1, stats), gen_bool(rng, d - 1, stats)]
    if x < 0.97:
        return ["if", [gen_bool(rng, d - 1, stats)], [gen_bool(rng, d - 1, stats), gen_bool(rng, d - 1, stats)]]
    return ["call", "noEvent", [gen_bool(rng, d - 1, stats)]]


UNOPS = ["+", "-", "not"]
BINOPS = ADD + MUL + POW + REL + ["and", "or"]


def gen_untyped(rng, d):
    x = rng.random()
    if d <= 0 or x < 0.2:
        y = rng.random()
        if y < 0.6:
            return ["var", rng.choice(AVARS + IVARS + BVARS)]
        if y < 0.8:
            return ["num", rng.choice(INTS[:6] + REALS[:4])]
        return ["bool", rng.random() < 0.5]
    if x < 0.4:
        return ["un", rng.choice(UNOPS), gen_untyped(rng, d - 1)]
    if x < 0.95:
        return ["bin", rng.choice(BINOPS), gen_untyped(rng, d - 1), gen_untyped(rng, d - 1)]
    return ["if", [gen_untyped(rng, d - 1)], [gen_untyped(rng, d - 1), gen_untyped(rng, d - 1)]]



def to_usign(rng, e, prob):
    """rewrite some unary signs to the dialect form (printed without the specification's parentheses)"""
    e = rebuild(e, [to_usign(rng, c, prob) for c in children(e)])
    if e[0] == "un" and e[1] in ("+", "-") and rng.random() < prob:
        return ["usign", e[1], e[2]]
    return e


def signed_operand_cases():
    """a signed operand (dialect form, no parentheses) in every operand position of every ordered pair of
    additive / multiplicative operators: a o1 -b o2 c | a o1 (-b o2 c) | -a o1 b o2 c, plus relations/logic outside"""
    out = []
    a, b, c, d = (["var", v] for v in "abcd")
    ops = ADD + MUL
    for o1 in ops:
        for o2 in ops:
            for sg in ("-", "+"):
                out.append(["bin", o2, ["bin", o1, a, ["usign", sg, b]], c])
                if sg == "-":
                    out.append(["bin", o1, a, ["bin", o2, ["usign", sg, b], c]])
                    out.append(["bin", o2, ["bin", o1, ["usign", sg, a], b], c])
    for o1 in MUL:
        for o2 in MUL:
            out.append(["bin", "-", d, ["bin", o2, ["bin", o2, ["bin", o1, a, ["usign", "-", b]], c], d]])
            out.append(["bin", "<", ["bin", o2, ["bin", o1, a, ["usign", "-", b]], c], ["usign", "-", d]])
            out.append(["bin", o2, ["bin", o1, a, ["usign", "-", ["bin", "^", b, ["num", "2"]]]], c])
            out.append(["bin", o2, ["bin", o1, a, ["usign", "-", ["usign", "-", b]]], c])
            out.append(["call", "max", [["bin", o2, ["bin", o1, a, ["usign", "+", b]], c], d]])
    return out


def gen_chain(rng):
    """chain of 3..6 operands (some signed, dialect form) joined by random + - * / and element-wise forms,
    grouped by a random binary shape (the printer adds the parentheses that shape needs)"""
    n = rng.randrange(3, 7)

    def operand():
        x = rng.random()
        if x < 0.6:
            e = ["var", rng.choice(AVARS)]
        elif x < 0.75:
            e = ["num", rng.choice(["2", "3", "0.5", "1.5"])]
        elif x < 0.9:
            e = ["bin", "^", ["var", rng.choice(AVARS)], ["num", rng.choice(["2", "3"])]]
        else:
            e = ["call", rng.choice(FUN1), [["var", rng.choice(AVARS)]]]
        if rng.random() < 0.45:
            e = ["usign", rng.choice(["-", "-", "+"]), e]
        return e

    items = [operand() for _ in range(n)]
    pool = MUL + MUL + ADD
    if rng.random() < 0.6:          # left-to-right chain with precedence-free (left-assoc) grouping
        e = items[0]
        for it in items[1:]:
            e = ["bin", rng.choice(pool), e, it]
        return e
    while len(items) > 1:
        i = rng.randrange(len(items) - 1)
        items[i:i + 2] = [["bin", rng.choice(pool), items[i], items[i + 1]]]
    return items[0]


def paren_shape_cases():
    """parenthesised single expressions whose text contains a comma, and other primaries inside parentheses"""
    a, b, c, d, n, k = (["var", v] for v in ("a", "b", "c", "d", "n", "k"))
    one, two = ["num", "1"], ["num", "2"]
    return [
        ["bin", "-", ["par", ["call", "max", [a, b]]], c],
        ["bin", "*", ["par", ["call", "atan2", [a, ["bin", "+", b, c]]]], d],
        ["par", ["call", "min", [a, b]]],
        ["bin", "+", c, ["par", ["par", ["call", "max", [a, ["call", "min", [b, c]]]]]]],
        ["un", "-", ["par", ["call", "max", [a, b]]]],
        ["bin", "^", ["par", ["call", "max", [a, two]]], two],
        ["if", [["bin", ">", ["par", ["call", "max", [a, b]]], c]], [["par", ["call", "min", [a, b]]], d]],
        ["call", "sin", [["par", ["call", "max", [a, b]]]]],
        ["bin", "+", ["par", ["idx", "A", [one, two]]], c],
        ["bin", "*", ["idx", "A", [n, ["bin", "+", k, one]]], ["par", ["idx", "B", [one, two, ["num", "3"]]]]],
        ["un", "-", ["par", ["idx", "A", [n, k]]]],
        ["bin", "-", ["idx", "v", [one]], ["par", ["idx", "v", [two]]]],
        ["bin", "-", ["par", ["arr", [a, b]]], c],
        ["call", "sum", [["par", ["arr", [a, b, c]]]]],
        ["bin", "*", two, ["par", ["arr", [["bin", "+", a, one], ["un", "-", b]]]]],
        ["par", ["arr", [a]]],
        ["par", ["par", ["arr", [a, ["call", "max", [b, c]]]]]],
    ]


def operator_pairs():
    """every ordered pair of operators, the inner one in every operand position of the outer one"""
    out = []
    leaf = iter(())

    def mk(op, args):
        return ["un", op, args[0]] if len(args) == 1 else ["bin", op, args[0], args[1]]

    ops = [(o, 1) for o in UNOPS] + [(o, 2) for o in BINOPS]
    names = ["a", "b", "c", "d"]
    for o1, n1 in ops:
        for o2, n2 in ops:
            for pos in range(n1):
                vs = iter(names)
                inner = None
                args = []
                for i in range(n1):
                    if i == pos:
                        inner = mk(o2, [["var", next(vs)] for _ in range(n2)])
                        args.append(inner)
                    else:
                        args.append(["var", next(vs)])
                out.append(mk(o1, args))
    del leaf
    return out


STR_PIECES = ["a", "b", "xy", " ", "1", "+", "\\\"", "\\\\", "\\n", "\\t", "\\'", "\\?", "'", "%"]


def string_bodies(rng, n):
    """raw bodies (text between the outer quotes): escaped quotes / backslashes at the start, in the middle, at the
    END and as the whole body, plus random concatenations of pieces"""
    q, b = "\\\"", "\\\\"
    out = [q, q + "x", "x" + q + "y", "x" + q, "ends with " + q + "quote" + q, q + q, q + "x" + q,
           b, b + "x", "x" + b + "y", "x" + b, b + b, b + q, q + b, "x" + b + q, "say " + q + "hi" + q + " twice" + q,
           "\\n", "x\\n", "\\t\\t", "it's", "'", "?" ]
    for _ in range(n):
        k = rng.randrange(1, 6)
        body = "".join(rng.choice(STR_PIECES) for _ in range(k))
        if rng.random() < 0.5:
            body += rng.choice([q, b, q + q, b + q])
        out.append(body)
    return out


def literal_cases(rng, n):
    out = []
    strs = ["", "abc", "hello world", "a\\\"b", "tab\\tx", "back\\\\slash", "q\\'s", "new\\nline", "x+y*(z)", "100%",
            "\\?", "C:/dir/file.mo", "a\\\\", "if then else"]
    for s in strs + string_bodies(rng, max(10, n // 2)):
        out.append(["str", s])
        out.append(["call", rng.choice(["f", "print", "assertMsg"]), [["str", s]]])
        out.append(["call", "g", [["var", "a"], ["str", s]]])
        out.append(["binding", ["str", s]])
    for t in INTS + REALS + ["0.0", "5e0", "1.e1", "00.50", "9007199254740993", "1.7976931348623157e308", "4.9e-300",
                             "123456789.123456789", "1E5", "0e0"]:
        out.append(["num", t])
    out += [["bool", True], ["bool", False]]
    for _ in range(n):
        ip = str(rng.randrange(0, 10 ** rng.randrange(1, 9)))
        t = ip
        if rng.random() < 0.7:
            t += "." + "".join(rng.choice("0123456789") for _ in range(rng.randrange(0, 7)))
        if rng.random() < 0.5:
            t += rng.choice("eE") + rng.choice(["", "+", "-"]) + str(rng.randrange(0, 25))
        out.append(["num", t])
    return out


def drop_parens(rng, toks):
    """remove some matched pairs of grouping parentheses (not call parentheses) -> a text outside the
    specification's grammar or a different tree; used for correspondence only"""
    stack, pairs = [], []
    for i, t in enumerate(toks):
        if t == "(":
            call = i > 0 and re.fullmatch(r"[A-Za-z_]\w*", toks[i - 1]) and toks[i - 1] not in KEYWORDS
            stack.append((i, call))
        elif t == ")":
            j, call = stack.pop()
            if not call:
                pairs.append((j, i))
    if not pairs:
        return None
    kill = set()
    for p in pairs:
        if rng.random() < 0.5:
            kill.update(p)
    if not kill:
        kill.update(rng.choice(pairs))
    return [t for i, t in enumerate(toks) if i not in kill]


# ---------------------------------------------------------------------------
# case construction, judge
# ---------------------------------------------------------------------------
def model_text(toks):
    decl = "Real %s; Integer %s; Boolean %s;" % (", ".join(AVARS + ["y"]), ", ".join(IVARS), ", ".join(BVARS))
    return "model M %s equation y = %s; end M;" % (decl, " ".join(toks))


def make_case(kind, tree, toks, mode):
    if tree is not None and tree[0] == "binding":
        # the literal is the value bound in a parameter declaration; the observed tree is that binding
        tree = tree[1]
        toks = p_expression(tree)
        decl = "Real a, y; parameter String s = %s;" % " ".join(toks)
        return {"kind": kind, "mode": "binding", "tree": tree, "tokens": toks, "binding": True,
                "text": "model M %s equation y = a; end M;" % decl}
    return {"kind": kind, "mode": mode, "tree": tree, "tokens": toks, "text": model_text(toks)}


def observed(case, res):
    """the serialised tree the case is about: the equation's right-hand side, or the declaration binding"""
    return res.get("binding") if case.get("binding") else res.get("tree")


def child_input(c):
    return {"text": c["text"], "binding": bool(c.get("binding"))}


def points(seed_text, n=4):
    import random
    r = random.Random("pts-" + seed_text)
    out = []
    for _ in range(n):
        env = {v: r.choice(DYADIC) for v in AVARS}
        env.update({v: Fraction(r.choice([0, 1, 2, 3])) for v in IVARS})
        env.update({v: Fraction(r.choice([0, 1])) for v in BVARS})
        out.append(env)
    return out


def judge(case, res):
    """None, or (tag, description).  Only for cases whose text is in the specification's grammar."""
    if "crash" in res:
        return "parser-crash", "the parser process died (%s)" % res["crash"]
    if "exc" in res:
        return "parser-exception:" + res["exc"], "parser raised %s: %s" % (res["exc"], res.get("msg", ""))
    t = observed(case, res)
    if t is None:
        return "rejected", "the text was rejected (no tree)"
    gen = case["tree"]
    lg, lr = leaves_src(gen), leaves_real(t)
    if lg != lr:
        # which leaf?
        for x, y in zip(lg, lr):
            if x != y:
                if x[0] == "str" and y[0] == "str":
                    raws = [s[1] for s in subtrees(gen) if s[0] == "str"]
                    # known finding = EXACTLY the raw body between the outer quotes (escapes kept, nothing lost
                    # or added); any other result is a violation of its own
                    if len(raws) == 1 and y[1] == raws[0] and raws[0] != decode_string(raws[0]):
                        return "string-escape-not-decoded", "string literal %r parsed to %r, exact value is %r" % (
                            '"%s"' % y[1], y[1], x[1])
                    return "string-literal-altered", (
                        "string literal %r parsed to %r: neither its exact value %r nor its raw body %r "
                        "(characters lost or added)" % (['"%s"' % r for r in raws], y[1], x[1], raws))
                return "literal-value", "leaf %r parsed as %r" % (x, y)
        return "leaves", "leaves differ: %r vs %r" % (lg[:6], lr[:6])
    if any(s[0] == "str" for s in subtrees(gen)):
        return None
    nskip = 0
    for env in points(case["text"]):
        try:
            want = ev_gen(gen, env)
        except Skip:
            nskip += 1
            continue
        try:
            got = ev_real(t, env)
        except Skip:
            return "value", "parsed tree is undefined (division by zero / power) where the source text has value %s at %s" % (
                want, {k: str(v) for k, v in env.items()})
        except BadTree as ex:
            return "bad-tree", "parsed tree is not an expression tree: %s" % ex
        if got != want:
            return "value", "parsed tree evaluates to %s, Modelica precedence gives %s at %s" % (
                got, want, {k: str(v) for k, v in sorted(env.items())})
    case["_skipped_points"] = nskip
    return None


# ---------------------------------------------------------------------------
# Coq encoding
# ---------------------------------------------------------------------------
KW_TOK = {"(": "TLp", ")": "TRp", ",": "TComma", "if": "TIf", "then": "TThen", "elseif": "TElseif",
          "else": "TElse", "der": "TDer", "true": "TTrue", "false": "TFalse"}


def cq_digits(s):
    return cq_list([cq_nat(int(ch)) for ch in s])


def cq_numtok(text):
    ip, fr, ex = num_parts(text)
    return "(mkNum %s %s %s)" % (
        cq_digits(ip),
        "None" if fr is None else "(Some %s)" % cq_digits(fr),
        "None" if ex is None else "(Some (%s, %s))" % (cq_bool(ex[0]), cq_digits(ex[1])))


class Ids:
    def __init__(self):
        self.m = {}

    def get(self, name):
        if name not in self.m:
            self.m[name] = len(self.m) + 1
        return cq_pos(self.m[name])


def cq_tok(t, ids):
    if t in KW_TOK:
        return KW_TOK[t]
    if t in SYMS:
        return "TSym " + SYMS[t]
    if t.startswith('"'):
        return "TStr " + cq_str(t[1:-1])
    if t[0].isdigit():
        return "TNum " + cq_numtok(t)
    return "TId " + ids.get(t)


def cq_oexpr(t, ids):
    k = t[0]
    if k == "V":
        return "(OVar %s)" % ids.get(t[1])
    if k == "P":
        if t[1] == "int":
            return "(OInt (%s)%%Z)" % t[2]
        if t[1] == "float" and isinstance(t[2], list):
            return "(OReal (%s # %s)%%Q)" % (t[2][0], t[2][1])
        if t[1] == "bool":
            return "(OBool %s)" % cq_bool(t[2])
        if t[1] == "str" and all(32 <= ord(ch) < 127 for ch in t[2]):
            return "(OStr %s)" % cq_str(t[2])
        return None
    if k == "E":
        args = [cq_oexpr(a, ids) for a in t[2]]
        if None in args:
            return None
        if t[1] == "der":
            return "(OCall FDer %s)" % cq_list(args)
        if t[1] not in SYMS:
            return None
        if len(args) == 1:
            return "(OUn %s %s)" % (SYMS[t[1]], args[0])
        if len(args) == 2:
            return "(OBin %s %s %s)" % (SYMS[t[1]], args[0], args[1])
        return None
    if k == "C":
        args = [cq_oexpr(a, ids) for a in t[2]]
        if None in args:
            return None
        return "(OCall (FName %s) %s)" % (ids.get(t[1]), cq_list(args))
    if k == "IF":
        cs = [cq_oexpr(a, ids) for a in t[1]]
        bs = [cq_oexpr(a, ids) for a in t[2]]
        if None in cs or None in bs:
            return None
        return "(OIf %s %s)" % (cq_list(cs), cq_list(bs))
    return None


def encode(case, res):
    """Gallina term of type `case`, or None when the observation cannot be expressed (reported separately)"""
    ids = Ids()
    if any(t in ("[", "]", "{", "}") for t in case["tokens"]):
        return None            # subscripts / array literals: oracle only, not in the Coq model
    toks = cq_list([cq_tok(t, ids) for t in case["tokens"]])
    if "tree" not in res:
        return None
    obs = observed(case, res)
    if obs is None:
        return "(%s, None)" % toks
    o = cq_oexpr(obs, ids)
    if o is None:
        return None
    return "(%s, Some %s)" % (toks, o)


PRE = ("From Coq Require Import String List ZArith QArith.\nImport ListNotations.\n"
       "From PV Require Import Model.C03_prec.\n")


def shrink(ctx, case, tag):
    """smallest subtree of a failing generated tree that still fails with the same tag (one extra child run)"""
    subs = sorted((s for s in subtrees(case["tree"]) if s[0] not in ("var", "num", "bool", "str")), key=size)
    seen, cands = set(), []
    for s in subs:
        toks = p_expression(s)
        key = " ".join(toks)
        if key not in seen and len(cands) < 60:
            seen.add(key)
            cands.append(make_case(case["kind"], s, toks, "min"))
    if not cands:
        return case
    res = core.run_child(ctx, "c03", [child_input(c) for c in cands])
    for c, r in zip(cands, res):
        j = judge(c, r)
        if j and j[0] == tag:
            return c
    return case


def known_still_fails(ctx):
    def f(entry):
        rep = entry.get("replay") or {}
        tree = rep.get("tree")
        if not tree:
            return None
        toks = p_expression(tree)
        c = make_case("known", tree, toks, "min")
        r = core.run_child(ctx, "c03", [child_input(c)])[0]
        j = judge(c, r)
        return bool(j and j[0] == entry.get("tag"))
    return f


def run(ctx):
    core.check_props(ctx, "C03.v", THEOREMS)

    # ---- S1: regenerate the table from the grammar --------------------------------------
    g4 = open(core.REPO + "/src/pymoca/Modelica.g4").read()
    table = None
    unrecognised = []
    try:
        table = read_expr_table(g4)
    except Shape as ex:
        # fall back to behaviour: the correspondence runs with the table the theorems were proved for
        unrecognised.append("T1 rule expr: %s" % str(ex)[:300])
    lst = None
    try:
        lst = read_listener(open(core.REPO + "/src/pymoca/parser.py").read())
    except (Shape, SyntaxError) as ex:
        # fall back to behaviour: the standard listener table is used for the correspondence, which then decides
        unrecognised.append("T2 listener: %s" % str(ex)[:300])
    ctx.notes["translators"] = ("T1 and T2 recognised the source shapes" if not unrecognised else
                                "shape not recognised, falling back to behaviour (correspondence with the proved "
                                "tables, 3x cases): " + "; ".join(unrecognised))
    gen_def = ("Definition gen_table : table := %s.\nDefinition gen_lt : ltable := %s.\n"
               % (table_coq(table) if table else "g4", listener_coq(lst) if lst else "std_lt"))
    ok, out, err = core.coq_run(ctx, "Tie_C03", core.HEADER + PRE + "From PV Require Import Lib.C03_spec.\n" + gen_def +
                                "Eval vm_compute in (tab_ok gen_table).\n"
                                "Eval vm_compute in (table_eqb gen_table g4).\n"
                                "Eval vm_compute in (listener_ok gen_lt).\n")
    vals = core.coq_results(out) if ok else []
    good = ok and len(vals) == 3
    if table:
        ctx.oblige("tie:regenerated-table-satisfies-tab_ok", good and vals[0] == "true",
                   (err[-600:] if not good else "tab_ok=%s identical=%s table=%s" % (vals[0], vals[1], table)))
        ctx.notes["T1_table"] = [[k, ops, l] for k, ops, l in table]
        ctx.notes["T1_table_identical_to_g4"] = bool(good and vals[1] == "true")
    if lst:
        ctx.oblige("tie:regenerated-listener-table-satisfies-listener_ok", good and vals[2] == "true",
                   (err[-600:] if not good else "listener_ok=%s table=%s" % (vals[2], lst)))
        ctx.notes["T2_listener_table"] = {k: (list(v) if isinstance(v, tuple) else v) for k, v in lst.items()}
    hashes = rule_hashes(g4)
    ctx.notes["rule_shape_hashes"] = hashes
    fp, nfp = core.fingerprint(core.REPO + "/src/pymoca/parser.py",
                               {"exitExpr_add", "exitExpr_exp", "exitExpr_mul", "exitExpr_rel", "exitExpr_not",
                                "exitExpr_and", "exitExpr_or", "exitExpr_signed", "exitExpr_primary",
                                "exitExpression_if", "exitExpression_simple", "exitSimple_expression",
                                "exitPrimary_unsigned_number", "exitPrimary_string", "exitPrimary_false",
                                "exitPrimary_true", "exitPrimary_function", "exitPrimary_derivative",
                                "exitPrimary_output_expression_list", "exitPrimary_component_reference"})
    ctx.notes["source_fingerprint"] = {"parser.py:listener(%d fns)" % nfp: fp}
    changed = (fp != LISTENER_FP) or (hashes != RULE_HASHES) or bool(unrecognised)
    ctx.notes["adaptive_depth"] = "listener/rule shapes changed: 3x quick case counts" if changed else "unchanged"
    big = ctx.tier == "thorough"

    # ---- cases ---------------------------------------------------------------------------
    rng = ctx.rng
    cases = []
    try:
        for c in json.load(open(core.VERIF + "/corpus/C03/cases.json")):
            cases.append(make_case("corpus", c["tree"], p_expression(c["tree"]), "min"))
    except OSError:
        pass
    n_corpus = len(cases)
    stats = {}
    for t in operator_pairs():
        cases.append(make_case("pairs", t, p_expression(t), "min"))
    for t in signed_operand_cases():
        cases.append(make_case("signed-operand", t, p_expression(t), "dialect-min"))
    for t in paren_shape_cases():
        cases.append(make_case("paren-shapes", t, p_expression(t), "min"))
    for i in range(120 if not big else 3000):
        t = gen_chain(rng)
        mode = rng.choice(["dialect-min", "dialect-min", "rand"])
        tp = t if mode != "rand" else add_pars(rng, t, 0.25, 0.06)
        cases.append(make_case("chains", tp, p_expression(tp), mode))
    n_typed, n_untyped, n_dialect = (500, 150, 150) if not big else (9000, 4000, 3000)
    if changed and not big:      # adaptive depth: the mirrored code changed -> three times the quick counts
        n_typed, n_untyped, n_dialect = 1500, 450, 450
    for i in range(n_typed):
        d = rng.choice([2, 3, 3, 4])
        t = gen_arith(rng, d, stats) if rng.random() < 0.6 else gen_bool(rng, d, stats)
        mode = rng.choice(["min", "min", "full", "rand"])
        if rng.random() < 0.3:
            t = to_usign(rng, t, 0.7)       # dialect: signed operands without the specification's parentheses
        tp = t if mode == "min" else add_pars(rng, t, 1.0 if mode == "full" else 0.3, 0.3 if mode == "full" else 0.08)
        toks = p_expression(tp)
        if len(toks) <= 90:
            cases.append(make_case("typed", tp, toks, mode))
    for i in range(n_untyped):
        t = gen_untyped(rng, rng.choice([2, 3, 3]))
        mode = rng.choice(["min", "min", "rand"])
        if rng.random() < 0.3:
            t = to_usign(rng, t, 0.7)
        tp = t if mode == "min" else add_pars(rng, t, 0.3, 0.08)
        toks = p_expression(tp)
        if len(toks) <= 90:
            cases.append(make_case("untyped", tp, toks, mode))
    for t in literal_cases(rng, 40 if not big else 600):
        cases.append(make_case("literal", t, [] if t[0] == "binding" else p_expression(t), "min"))
    spec_n = len(cases)
    nd = 0
    tries = 0
    while nd < n_dialect and tries < 20 * n_dialect:
        tries += 1
        t = add_pars(rng, gen_untyped(rng, 3) if rng.random() < 0.5 else gen_arith(rng, 3, stats), 0.2, 0.05)
        toks = drop_parens(rng, p_expression(t))
        if toks and len(toks) <= 90:
            cases.append(make_case("dialect", None, toks, "dropped-parens"))
            nd += 1
    for txt in ["a * - b", "a - - b", "- - a", "a < b < c", "a ^ b ^ c", "a ^ - b", "not not p", "- not p", "a + + b",
                "a and not p or q", "not a < b", "- a ^ b", "- a * b", "a / - b * c", "a .^ b ./ c", "+ a .* b"]:
        cases.append(make_case("dialect", None, txt.split(), "hand"))

    results = core.run_child(ctx, "c03", [child_input(c) for c in cases], timeout=1500)

    # ---- (a) property oracle -------------------------------------------------------------
    nontrivial = set()
    dist = {}
    failing = []
    skipped = 0
    for i, (c, r) in enumerate(zip(cases, results)):
        dist[c["kind"] + "/" + c["mode"]] = dist.get(c["kind"] + "/" + c["mode"], 0) + 1
        if i >= spec_n:
            continue
        j = judge(c, r)
        skipped += c.pop("_skipped_points", 0)
        if j:
            failing.append((size(c["tree"]), i, j))
        if c["tree"][0] in ("un", "usign", "bin", "if", "call", "par", "idx", "arr"):
            nontrivial.add(" ".join(c["tokens"]))
    failing.sort()
    reported_tags = {}
    for _, i, (tag, why) in failing:
        if reported_tags.get(tag, 0) >= 2:
            continue
        reported_tags[tag] = reported_tags.get(tag, 0) + 1
        c = cases[i]
        known = any(e.get("tag") == tag for e in core.load_known(ctx.pid))
        if not known and tag in ("value", "rejected", "bad-tree") and size(c["tree"]) > 3:
            c = shrink(ctx, c, tag)
            r = core.run_child(ctx, "c03", [child_input(c)])[0]
            j = judge(c, r)
            why = j[1] if j else why
        else:
            r = results[i]
        core.report(ctx, tag, why, {"input": {"text": c["text"], "expr": " ".join(c["tokens"]), "tree": c["tree"],
                                              "binding": bool(c.get("binding"))},
                                    "observed": r})

    # ---- (b) correspondence ----------------------------------------------------------------
    enc, idx, unenc = [], [], []
    for i, (c, r) in enumerate(zip(cases, results)):
        e = encode(c, r)
        if e is None:
            unenc.append(i)
        else:
            enc.append(e)
            idx.append(i)
    # a spec-grammar case whose observation is not expressible has been reported by the oracle already;
    # for dialect cases an exception / odd node is a mismatch (the model always answers tree or None)
    odd_dialect = [i for i in unenc if i >= spec_n]
    bad = core.coq_eval_cases(ctx, "parse", PRE + gen_def, "case", enc, "check_with gen_table gen_lt", shard=250)
    mism = None if bad is None else [idx[j] for j in bad]
    # literal / string-escape cases: the model mirrors the raw behaviour, so they are expected to agree
    ok_corr = mism == [] and not odd_dialect
    ctx.oblige("correspondence:parse_antlr(regenerated table)-vs-pymoca.parser", ok_corr,
               "mismatching: %s; dialect cases with exception/odd node: %s" % (
                   [" ".join(cases[i]["tokens"]) for i in (mism or [])[:5]],
                   [(" ".join(cases[i]["tokens"]), results[i]) for i in odd_dialect[:3]]))
    if not ok_corr and not [v for v in ctx.violations if not v["no_input"]]:
        first = (mism or odd_dialect or [0])[0]
        core.violation(ctx, "correspondence-broken",
                       {"correspondence": "Model/C03_prec.v check_with gen_table vs pymoca.parser.parse",
                        "input": {"text": cases[first]["text"], "expr": " ".join(cases[first]["tokens"])},
                        "observed": results[first]}, no_input=True)

    core.replay_known(ctx, known_still_fails(ctx))

    ctx.cov["evaluations"] = len(cases)
    ctx.cov["distinct_nontrivial"] = len(nontrivial)
    ctx.cov["rule"] = ("every ordered operator pair in every operand position (%d); typed random trees depth<=4 over "
                       "variables, int/real/bool literals, unary + - not, + - * / ^ and element-wise forms, relations, and/or, "
                       "if/elseif, calls, printed minimal/full/random-redundant parentheses; untyped random trees; literal "
                       "texts; texts with grouping parentheses dropped (correspondence only); corpus (%d). non-trivial = "
                       "distinct token strings of specification-grammar cases with at least one operator/call/if"
                       % (len(operator_pairs()), n_corpus))
    ctx.cov["samples"] = [" ".join(cases[n_corpus + 7]["tokens"]),
                          " ".join(cases[min(len(cases) - 1, n_corpus + len(operator_pairs()) + 3)]["tokens"]),
                          " ".join(cases[spec_n + 1]["tokens"]) if len(cases) > spec_n + 1 else ""]
    ctx.notes["input_distribution"] = {"by_kind_and_parenthesisation": dist, "evaluation_points_skipped": skipped,
                                       "rejected_by_both(dialect)": sum(1 for i in range(spec_n, len(cases))
                                                                        if results[i].get("tree", 0) is None)}
    ctx.assumptions += [
        "lexer not modelled: the Coq parser works on the token list the harness printed (tokens separated by blanks)",
        "float(text) is modelled as the exact decimal value; the correspondence accepts the Python float x for the exact "
        "value q iff |x-q| <= |q|*2^-53; the oracle requires x == correctly rounded q",
        "C03_roundtrip covers the whole expression language of the property (atoms, parentheses, unary + - not, all "
        "binary operators, ^, if/elseif/else, calls with expression arguments); named arguments and zero-argument calls "
        "are outside it",
        "T2: the listener table is re-read from parser.py by a fail-closed Python-ast reader; an unrecognised handler "
        "shape breaks an obligation and the correspondence (run with the standard listener table) decides",
        "array constructors, slices (a:b), named arguments, subscripts and dotted names are not modelled",
    ]


# fingerprints of the verified tree (adaptive depth only; a change is not an alarm)
LISTENER_FP = "bcf9388b55f66cd1"
RULE_HASHES = {"expression": "258d7dee", "simple_expression": "9ce25c78", "primary": "1d364438",
               "function_call_args": "27a5f22d"}


def replay(ctx, path):
    rec = json.load(open(path))
    inp = rec.get("input") or {}
    if inp.get("tree"):
        tr = ["binding", inp["tree"]] if inp.get("binding") else inp["tree"]
        c = make_case("replay", tr, p_expression(inp["tree"]), "min")
        c["text"] = inp.get("text", c["text"])
        r = core.run_child(ctx, "c03", [child_input(c)])[0]
        j = judge(c, r)
        known = bool(j) and any(e.get("tag") == j[0] for e in core.load_known(ctx.pid))
        print("replay: %s%s" % ("(listed known finding, not a new violation) " if known else "",
                                ("%s: %s" % j) if j else "property holds on this input"), "| expr:", " ".join(c["tokens"]))
        return 1 if j and not known else 0
    if inp.get("text"):
        r = core.run_child(ctx, "c03", [{"text": inp["text"], "binding": bool(inp.get("binding"))}])[0]
        same = r == rec.get("observed")
        print("replay (correspondence input, no oracle verdict): parser returns %s; %s the recorded observation"
              % (json.dumps(r)[:300], "same as" if same else "differs from"))
        return 1 if same else 0
    print("replay: nothing to replay in", path)
    return 1
