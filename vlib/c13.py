"""C13 — variable metadata reports the declared attributes.

S1  tables (CASADI_ATTRIBUTES, Variable.__init__ defaults, ast.Symbol defaults) regenerated from the
    sources by a fail-closed Python-ast reader -> run/C13/Gen.v, side condition tie_ok by vm_compute.
S2  Props/C13.v.
S3  generated Modelica models (attribute literals, `each`, array literals, vector expressions,
    affine / non-affine parameter expressions, Real/Integer/Boolean, scalars and arrays, all five
    categories) compiled by the real backend in a child; (a) ORACLE: independent exact evaluation of
    the declared attributes with Fractions; (b) CORRESPONDENCE: Model/C13_metadata.v check_case.
"""
import ast as pyast
import json
import re
from fractions import Fraction as Fr

from . import core

def encode_const(case, res):
    """constattr cases (the metadata function cannot be built): Variable-level cells only, check_case_const.
    Constant symbol j is entry nparams + j of the valuation."""
    slot, _ = slots_of(case, res["params"])
    n = sum(sh[0] * sh[1] for _, sh in res["params"])
    D = declared(case)
    cnames = [o["name"] for o in res["cats"]["constants"]]
    for j, nm in enumerate(cnames):
        slot[(nm, None)] = n + j
        slot[(nm, 0)] = n + j

    def term(d):
        if d is None:
            return "DNone"
        if d["k"] == "lit":
            return "DLit %s" % cq_lit(decl_elems(d, 1, [])[0])
        if d["k"] == "exp":
            return "DExp %s" % cq_tree_(d["e"], slot)
        raise NoEncoding()
    cats = []
    for cat in CATS:
        vs = []
        for o in res["cats"][cat]:
            v = D[o["name"]]
            br = " ".join("| %s => %s" % (COQ_ATTR[a], term(v["attrs"].get(a))) for a in ATTRS)
            vs.append("(Var %s %d%%nat (fun a => match a with %s end))" % (VT.get(o["ptype"], "TReal"), o["numel"], br))
        cats.append("[%s]" % "; ".join(vs))
    cs = []
    for nm in cnames:
        d = D[nm]["attrs"]["value"]
        cs.append(cq_tree_(d["e"], slot) if d["k"] == "exp" else "(Cst %s)" % cq_qc(decl_elems(d, 1, [])[0][1]))
    pts = []
    for pi, pv in enumerate(case["pvs_exact"]):
        vec = []
        for nm, _ in res["params"]:
            vec += [fr(x) for x in pv[nm]]
        vm = "[%s]" % "; ".join("[%s]" % "; ".join("[%s]" % "; ".join(cq_ext(o["attrs"][a]["vals"][pi][k]) for a in ATTRS)
                                                   for o in res["cats"][cat] for k in range(o["numel"])) for cat in CATS)
        pts.append("([%s], %s)" % ("; ".join(cq_qc(x) for x in vec), vm))
    return "([%s], [%s], %d%%nat, true, [%s])" % ("; ".join(cats), "; ".join(cs), n, "; ".join(pts))


THEOREMS = ["C13_defaults", "C13_values", "C13_variable_attributes", "C13_affine_rebuild",
            "C13_types", "C13_substitute", "C13_values_steps", "C13_vector_elements",
            "C13_test_sound_partial", "C13_values_test", "C13_numeric_test_refuted", "C13_blockdiag_test_refuted", "C13_example",
            "C13_variable_attributes_constants", "C13_values_no_constants", "C13_metadata_function_constants_refuted"]

ATTRS = ["value", "min", "max", "start", "fixed", "nominal"]       # documented column order
COQ_ATTR = {"value": "AValue", "min": "AMin", "max": "AMax", "start": "AStart",
            "fixed": "AFixed", "nominal": "ANominal"}
CATS = ["states", "alg_states", "inputs", "parameters", "constants"]
SPEC_DEFAULT = {"value": "nan", "start": Fr(0), "min": "-inf", "max": "inf", "nominal": Fr(0), "fixed": Fr(0)}
PTYPE = {"Real": "float", "Integer": "int", "Boolean": "bool"}
TOL = Fr(1, 2 ** 30)
MAXMAG = Fr(4096)
MINDIV = Fr(1, 8)


# =====================================================================================
# expression trees
# =====================================================================================
def fr(s):
    return Fr(s)


def fs(x):
    x = Fr(x)
    return "%d/%d" % (x.numerator, x.denominator)


BILINEAR = [False]      # mode of the current case, see g_bilinear


class Unsafe(Exception):
    pass


def ev(t, env):
    """exact value; raises Unsafe when a divisor is small or an intermediate is large"""
    k = t[0]
    if k == "c":
        r = fr(t[1])
    elif k == "p":
        r = env[(t[1], t[2])]
    elif k == "neg":
        r = -ev(t[1], env)
    elif k == "^":
        r = ev(t[1], env) ** t[2]
    elif k == "if":
        r = ev(t[2], env) if ev(t[1], env) != 0 else ev(t[3], env)
    elif k == "not":
        r = Fr(0) if ev(t[1], env) != 0 else Fr(1)
    elif k == "lt":
        r = Fr(1) if ev(t[1], env) < ev(t[2], env) else Fr(0)
    else:
        a, b = ev(t[1], env), ev(t[2], env)
        if k == "+":
            r = a + b
        elif k == "-":
            r = a - b
        elif k == "*":
            r = a * b
        elif k == "/":
            if abs(b) < MINDIV:
                raise Unsafe()
            r = a / b
        else:
            raise ValueError(k)
    if abs(r) > MAXMAG:
        raise Unsafe()
    return r


def has_param(t):
    if t[0] == "p":
        return True
    if t[0] == "c":
        return False
    return any(has_param(x) for x in t[1:] if isinstance(x, list))


def syn_affine(t):
    k = t[0]
    if k in ("c", "p"):
        return True
    if k in ("+", "-"):
        return syn_affine(t[1]) and syn_affine(t[2])
    if k == "*":
        return (not has_param(t[1]) and syn_affine(t[2])) or (syn_affine(t[1]) and not has_param(t[2]))
    if k == "/":
        return syn_affine(t[1]) and not has_param(t[2])
    if k == "neg":
        return syn_affine(t[1])
    return not has_param(t)


class NotPoly(Exception):
    pass


def poly(t):
    """multivariate polynomial normal form {monomial(tuple of sorted (var,exp)) : coeff}"""
    k = t[0]
    if k == "c":
        c = fr(t[1])
        return {(): c} if c else {}
    if k == "p":
        return {(((t[1], t[2]), 1),): Fr(1)}

    def add(a, b, s=1):
        r = dict(a)
        for m, c in b.items():
            r[m] = r.get(m, 0) + s * c
            if r[m] == 0:
                del r[m]
        return r

    def mul(a, b):
        r = {}
        for m1, c1 in a.items():
            for m2, c2 in b.items():
                d = dict(m1)
                for v, e in m2:
                    d[v] = d.get(v, 0) + e
                m = tuple(sorted(d.items()))
                r[m] = r.get(m, 0) + c1 * c2
                if r[m] == 0:
                    del r[m]
        return r
    if k in ("if", "not", "lt"):
        raise NotPoly()
    if k == "neg":
        return add({}, poly(t[1]), -1)
    if k == "^":
        r = {(): Fr(1)}
        for _ in range(t[2]):
            r = mul(r, poly(t[1]))
        return r
    a, b = poly(t[1]), poly(t[2])
    if k == "+":
        return add(a, b)
    if k == "-":
        return add(a, b, -1)
    if k == "*":
        return mul(a, b)
    if k == "/":
        if list(b.keys()) == [()]:
            return mul(a, {(): 1 / b[()]})
        raise NotPoly()
    raise ValueError(k)


def pdeg(p):
    return max([sum(e for _, e in m) for m in p] + [0])


def degenerate(t):
    """a subtree that mentions parameters but whose value does not depend on them (structural
    cancellation could make CasADi's and the syntactic affinity verdicts differ), or a tree that is
    syntactically non-affine yet an affine polynomial"""
    def walk(u):
        if u[0] in ("c", "p"):
            return False
        for x in u[1:]:
            if isinstance(x, list) and walk(x):
                return True
        if has_param(u):
            try:
                if pdeg(poly(u)) == 0:
                    return True
            except NotPoly:
                pass
        return False
    if walk(t):
        return True
    if not syn_affine(t):
        try:
            if pdeg(poly(t)) <= 1:
                return True
        except NotPoly:
            pass
    return False


def rconst(rng, integer, positive=False):
    k = rng.choice([1, 2, 3, 4, 5, 6, 8])
    if not positive and rng.random() < 0.4:
        k = -k
    c = Fr(k, 1 if integer else rng.choice([1, 1, 2, 4]))
    if abs(c) == 2 and "BILINEAR" in globals() and BILINEAR[0]:
        c = c * 3 / 2          # 2*x becomes CasADi's OP_TWICE, which the allowed-operation test rejects
    return ["c", fs(c)]


def g_aff(rng, slots, d, integer):
    if d <= 0 or rng.random() < 0.3:
        if slots and rng.random() < 0.75:
            s = rng.choice(slots)
            return ["p", s[0], s[1]]
        return rconst(rng, integer)
    op = rng.choice(["+", "-", "c*", "*c", "neg"] + ([] if integer else ["/c"]))
    if op in ("+", "-"):
        return [op, g_aff(rng, slots, d - 1, integer), g_aff(rng, slots, d - 1, integer)]
    if op == "c*":
        return ["*", rconst(rng, integer), g_aff(rng, slots, d - 1, integer)]
    if op == "*c":
        return ["*", g_aff(rng, slots, d - 1, integer), rconst(rng, integer)]
    if op == "/c":
        return ["/", g_aff(rng, slots, d - 1, integer), ["c", fs(rng.choice([Fr(2), Fr(4), Fr(1, 2), Fr(8)]))]]
    return ["neg", g_aff(rng, slots, d - 1, integer)]


def g_safe_aff(rng, slots, integer):
    """affine shapes whose CasADi instructions stay inside the allowed set (no x+x / 2*x -> OP_TWICE,
    no x*x -> OP_SQ)"""
    s = rng.choice(slots)
    p = ["p", s[0], s[1]]

    def c():
        while True:
            k = rconst(rng, integer)
            if abs(fr(k[1])) not in (1, 2):
                return k
    form = rng.choice(["p", "neg", "+c", "-c", "c-", "c*", "c*+c"] + ([] if integer else ["/c"]))
    if form == "p":
        return p
    if form == "neg":
        return ["neg", p]
    if form == "+c":
        return ["+", p, c()]
    if form == "-c":
        return ["-", p, c()]
    if form == "c-":
        return ["-", c(), p]
    if form == "c*":
        return ["*", c(), p]
    if form == "/c":
        return ["/", p, ["c", fs(rng.choice([Fr(4), Fr(8)]))]]
    return ["+", ["*", c(), p], c()]


def g_aff_p(rng, slots, d, integer):
    if BILINEAR[0]:
        return g_safe_aff(rng, slots, integer)
    for _ in range(50):
        t = g_aff(rng, slots, d, integer)
        if has_param(t) and not degenerate(t):
            return t
    s = rng.choice(slots)
    return ["p", s[0], s[1]]


def g_non(rng, slots, d, integer):
    form = rng.choice(["mul", "pow", "pow", "mix", "scale"] + ([] if integer else ["div", "div"]))
    if form == "mul":
        return ["*", g_aff_p(rng, slots, 1, integer), g_aff_p(rng, slots, 1, integer)]
    if form == "pow":
        return ["^", g_aff_p(rng, slots, 1, integer), rng.choice([2, 2, 3])]
    if form == "div":
        return ["/", g_aff_p(rng, slots, 1, False),
                ["+", rconst(rng, False, positive=True) if rng.random() < 0.0 else ["c", fs(rng.choice([1, 2, 4]))],
                 ["^", g_aff_p(rng, slots, 1, False), 2]]]
    if form == "mix":
        return [rng.choice(["+", "-"]), g_non(rng, slots, d - 1, integer) if d > 1 else
                ["^", g_aff_p(rng, slots, 0, integer), 2], g_aff(rng, slots, 1, integer)]
    return ["*", rconst(rng, integer), ["^", g_aff_p(rng, slots, 1, integer), 2]]


#                         mode of the current case: non-affine expressions use products only (no sq/pow/division
                        # by an expression), so that CasADi's allowed-operation test passes and only the Hessian
                        # test stands between the expression and the affine rebuild


def g_bilinear(rng, slots, integer):
    while True:
        a, b = g_safe_aff(rng, slots, integer), g_safe_aff(rng, slots, integer)
        if a != b and not (a[0] == "neg" and b[0] == "neg") and (a[0] != "p" or b[0] != "p"):
            break
    t = ["*", a, b]
    r = rng.random()
    if r < 0.3:
        t = [rng.choice(["+", "-"]), t, g_safe_aff(rng, slots, integer)]
    return t


def g_multilinear(rng, slots, integer):
    """pure product of 3-4 DISTINCT parameters (optionally scaled, optionally plus an affine part): passes
    CasADi's allowed-operation test, and its Hessian is non-zero but vanishes at p = 0"""
    ps = [s for s in slots]
    rng.shuffle(ps)
    ps = ps[:rng.choice([3, 3, 4])]
    t = None
    if rng.random() < 0.5:
        while True:
            t = rconst(rng, integer)
            if abs(fr(t[1])) not in (1, 2):
                break
    for s_ in ps:
        x = ["p", s_[0], s_[1]]
        t = x if t is None else ["*", t, x]
    r = rng.random()
    if r < 0.3:
        t = ["+", t, rconst(rng, integer)]
    elif r < 0.5:
        t = [rng.choice(["+", "-"]), t, g_safe_aff(rng, slots, integer)]
    return t


def gen_expr(rng, slots, integer, want_affine):
    for _ in range(100):
        if want_affine:
            t = g_aff_p(rng, slots, rng.choice([1, 2, 2, 3]), integer)
        elif BILINEAR[0] == "multilinear" and len(slots) >= 3:
            t = g_multilinear(rng, slots, integer)
        elif BILINEAR[0]:
            t = g_bilinear(rng, slots, integer)
        else:
            t = g_non(rng, slots, 2, integer)
        if degenerate(t) or syn_affine(t) != want_affine:
            continue
        return t
    s = slots[0]
    return ["p", s[0], s[1]] if want_affine else ["^", ["p", s[0], s[1]], 2]


# ---- rendering -------------------------------------------------------------------------
def rnum(x, integer):
    x = fr(x)
    if integer or False:
        assert x.denominator == 1
        s = str(abs(x.numerator))
    else:
        s = repr(float(abs(x)))
        assert Fr(float(s)) == abs(x)
    return "(-%s)" % s if x < 0 else s


def rtree(t, integer):
    k = t[0]
    if k == "c":
        return rnum(t[1], integer and fr(t[1]).denominator == 1)
    if k == "p":
        return t[1] if t[2] is None else "%s[%d]" % (t[1], t[2] + 1)
    if k == "neg":
        return "(-%s)" % rtree(t[1], integer)
    if k == "^":
        return "(%s)^%d" % (rtree(t[1], integer), t[2])
    if k == "if":
        if len(t) > 4 and t[3][0] == "if":          # if .. then .. elseif .. (same meaning as the nested form)
            txt, u = "", t
            while len(u) > 4 and u[3][0] == "if":
                txt += "%s %s then %s " % ("if" if u is t else "elseif", rtree(u[1], integer), rtree(u[2], integer))
                u = u[3]
            txt += "elseif %s then %s else %s" % (rtree(u[1], integer), rtree(u[2], integer), rtree(u[3], integer))
            return "(%s)" % txt
        return "(if %s then %s else %s)" % (rtree(t[1], integer), rtree(t[2], integer), rtree(t[3], integer))
    if k == "not":
        return "(not %s)" % rtree(t[1], integer)
    if k == "lt":
        return "(%s < %s)" % (rtree(t[1], True), rtree(t[2], True))
    return "(%s %s %s)" % (rtree(t[1], integer), k, rtree(t[2], integer))


def rvec(v, integer):
    k = v[0]
    if k == "vp":
        return v[1]
    if k == "vscale":
        return "(%s * %s)" % (rnum(v[1], integer and fr(v[1]).denominator == 1), rvec(v[2], integer))
    if k == "vneg":
        return "(-%s)" % rvec(v[1], integer)
    return "(%s + %s)" % (rvec(v[1], integer), rvec(v[2], integer))


def vexpand(v):
    k = v[0]
    if k == "vp":
        return [["p", v[1], i] for i in range(v[2])]
    if k == "vscale":
        return [["*", ["c", v[1]], e] for e in vexpand(v[2])]
    if k == "vneg":
        return [["neg", e] for e in vexpand(v[1])]
    return [["+", a, b] for a, b in zip(vexpand(v[1]), vexpand(v[2]))]


def rmat(m, integer):
    k = m[0]
    if k == "mp":
        return m[1]
    if k == "mscale":
        return "(%s * %s)" % (rnum(m[1], False), rmat(m[2], integer))
    if k == "mneg":
        return "(-%s)" % rmat(m[1], integer)
    if k == "mfill":
        return "fill(%s, %d, %d)" % (rtree(m[1], integer), m[2], m[3])
    return "(%s + %s)" % (rmat(m[1], integer), rmat(m[2], integer))


def mexpand(m, r, c):
    """matrix expression -> scalar trees in COLUMN-MAJOR (veccat) order; a matrix parameter element (i,j) is
    the parameter's veccat entry j*r+i"""
    k = m[0]
    if k == "mp":
        return [["p", m[1], j * r + i] for j in range(c) for i in range(r)]
    if k == "mscale":
        return [["*", ["c", m[1]], e] for e in mexpand(m[2], r, c)]
    if k == "mneg":
        return [["neg", e] for e in mexpand(m[1], r, c)]
    if k == "mfill":
        return [m[1] for _ in range(r * c)]
    return [["+", a, b] for a, b in zip(mexpand(m[1], r, c), mexpand(m[2], r, c))]


def rlit(l):
    if l["t"] == "B":
        return "true" if l["v"] else "false"
    x = fr(l["v"])
    s = str(abs(x.numerator)) if l["t"] == "I" else repr(float(abs(x)))
    return ("-" if x < 0 else "") + s


def rdecl(d, integer):
    if d["k"] == "lit":
        return rlit(d)
    if d["k"] == "exp":
        return rtree(d["e"], integer)
    if d["k"] == "vec":
        return rvec(d["e"], integer)
    if d["k"] == "mexp":
        return rmat(d["e"], integer)
    if d["k"] == "mat":
        return "{" + ", ".join("{" + ", ".join(rlit(x) for x in row) + "}" for row in d["rows"]) + "}"
    return "{" + ", ".join(rlit(x) if x["k"] == "lit" else rtree(x["e"], integer) for x in d["es"]) + "}"


def render(case):
    lines = ["model M"]
    eqs = []
    for v in case["params"] + case["vars"]:
        integer = v["type"] == "Integer"
        mods = []
        for a in ["min", "max", "start", "nominal", "fixed"]:
            d = v["attrs"].get(a)
            if d is not None:
                mods.append("%s%s = %s" % ("each " if d.get("each") else "", a, rdecl(d, integer)))
        dims = v.get("dims") or []
        decl = "%s%s %s%s%s" % (
            {"param": "parameter ", "constant": "constant ", "input": "input "}.get(v["cat"], ""),
            v["type"], v["name"],
            "[%s]" % ",".join(str(x) for x in dims) if dims else "",
            "(%s)" % ", ".join(mods) if mods else "")
        if v["attrs"].get("value") is not None:
            decl += " = " + rdecl(v["attrs"]["value"], integer)
        lines.append("  " + decl + ";")
        n = dims[0] if dims else 0
        one = {"Real": "1", "Integer": "1", "Boolean": "true"}[v["type"]]
        rhs = one if not dims else "{" + ", ".join([one] * n) + "}"
        if len(dims) == 2:
            continue                      # 2-D variables: no equation (the backend has no 2-D array literals)
        if v["cat"] == "state":
            eqs.append("  der(%s) = %s;" % (v["name"], rhs))
        elif v["cat"] == "alg":
            eqs.append("  %s = %s;" % (v["name"], rhs))
    lines.append("equation")
    lines += eqs
    lines.append("end M;")
    return "\n".join(lines) + "\n"


# =====================================================================================
# case generator
# =====================================================================================
def lit(t, v, each=False):
    d = {"k": "lit", "t": t, "v": v if t == "B" else fs(v)}
    if each:
        d["each"] = True
    return d


def rlitval(rng, t):
    if t == "B":
        return rng.random() < 0.5
    k = rng.randint(-6, 9)
    return Fr(k) if t == "I" else Fr(k, rng.choice([1, 2, 4]))


def gen_attr(rng, v, a, P, mode, arrlit_exp=False):
    """one attribute declaration for variable v (dict with type, dims)"""
    T = v["type"]
    n = v["dims"][0] if v.get("dims") else 0
    integer = T == "Integer"
    if a == "fixed":
        return lit("B", rng.random() < 0.6, each=bool(n) and rng.random() < 0.8)
    if T == "Boolean":
        return lit("B", rng.random() < 0.5, each=bool(n))
    if len(v.get("dims") or []) == 2 and rng.random() < 0.8:
        return g_mexp(rng, P, v["dims"][0], v["dims"][1])
    slots = [(p["name"], None, p["type"]) for p in P if not p.get("dims") and p["type"] != "Boolean"]
    for p in P:
        if p.get("dims") and len(p["dims"]) == 1:
            slots += [(p["name"], i, p["type"]) for i in range(p["dims"][0])]
    slots = [s for s in slots if (s[2] == "Integer") == integer or (not integer and rng.random() < 0.3)]
    want_aff = mode == "affine" or (mode == "mixed" and rng.random() < 0.5)
    r = rng.random()
    if not n:
        if slots and r < 0.55:
            return {"k": "exp", "e": gen_expr(rng, slots, integer, want_aff)}
        if integer:
            if rng.random() < 0.08:
                return lit("R", Fr(rng.randint(-4, 6)))          # ill-typed but accepted: int(2.0)
            return lit("I", rlitval(rng, "I"))
        t = rng.choice(["R", "R", "I"])
        return lit(t, rlitval(rng, t))
    # arrays
    if len(v.get("dims") or []) == 2:
        if slots and r < 0.6:
            return {"k": "exp", "e": gen_expr(rng, slots, integer, want_aff), "each": True}
        return lit("R", rlitval(rng, "R"), each=True)
    if arrlit_exp and slots:
        es = [{"k": "exp", "e": gen_expr(rng, slots, integer, want_aff)} if rng.random() < 0.6
              else lit("I" if integer else "R", rlitval(rng, "I" if integer else "R")) for _ in range(n)]
        if not any(e["k"] == "exp" for e in es):
            es[0] = {"k": "exp", "e": gen_expr(rng, slots, integer, want_aff)}
        if rng.random() < 0.5:                                       # bare component reference element
            s = rng.choice(slots)
            es[rng.randrange(n)] = {"k": "exp", "e": ["p", s[0], s[1]]}
        return {"k": "elems", "es": es}
    vecs = [p for p in P if p.get("dims") == [n] and (p["type"] == "Integer") == integer]
    if vecs and r < 0.3:
        p = rng.choice(vecs)
        v0 = ["vp", p["name"], n]
        form = rng.choice(["id", "scale", "neg", "add"])
        if form == "scale":
            v0 = ["vscale", rconst(rng, integer)[1], v0]
        elif form == "neg":
            v0 = ["vneg", v0]
        elif form == "add":
            q = rng.choice(vecs)
            v0 = ["vadd", v0, ["vscale", rconst(rng, integer)[1], ["vp", q["name"], n]]]
        return {"k": "vec", "e": v0}
    if slots and r < 0.55:
        return {"k": "exp", "e": gen_expr(rng, slots, integer, want_aff), "each": True}
    if r < 0.8:
        t = "I" if integer else rng.choice(["R", "I"])
        return {"k": "elems", "es": [lit(t if rng.random() < 0.8 or integer else "R", rlitval(rng, t)) for _ in range(n)]}
    t = "I" if integer else rng.choice(["R", "I"])
    return lit(t, rlitval(rng, t), each=True)


SIMPLIFY_STEPS = [{"eliminate_constant_assignments": True}, {"replace_parameter_expressions": True},
                  {"replace_parameter_values": True}, {"replace_constant_values": True}, {"expand_mx": True},
                  {"replace_parameter_expressions": True, "replace_parameter_values": True}]


def g_mexp(rng, P, r, c):
    mats = [q for q in P if q.get("dims") == [r, c]]
    scal = [(q["name"], None, "Real") for q in P if not q.get("dims") and q["type"] == "Real"]
    m = ["mp", rng.choice(mats)["name"]]
    form = rng.choice(["id", "scale", "scale", "neg", "fill", "fill", "add"])
    if form == "scale":
        m = ["mscale", rconst(rng, False)[1], m]
    elif form == "neg":
        m = ["mneg", m]
    elif form == "fill" and scal:
        m = ["madd", m if rng.random() < 0.6 else ["mscale", rconst(rng, False)[1], m],
             ["mfill", g_aff_p(rng, scal, 1, False), r, c]]
    elif form == "add":
        m = ["madd", m, ["mscale", rconst(rng, False)[1], ["mp", rng.choice(mats)["name"]]]]
    return {"k": "mexp", "e": m}


def gen_constattr(rng):
    """attributes that depend on constants (and constant chains c2 = e(c)), with or without parameters"""
    c = {"name": "c", "cat": "constant", "type": "Real", "dims": [], "attrs": {"value": lit("R", rlitval(rng, "R"))}}
    consts = [c]
    head = "c"
    if rng.random() < 0.6:
        c2 = {"name": "c2", "cat": "constant", "type": "Real", "dims": [],
              "attrs": {"value": {"k": "exp", "e": g_aff_p(rng, [("c", None, "Real")], 1, False)}}}
        consts = [c2, c] if rng.random() < 0.5 else [c, c2]
        head = "c2"
    P = [{"name": "p", "cat": "param", "type": "Real", "dims": [], "attrs": {"value": lit("R", rlitval(rng, "R"))}}] \
        if rng.random() < 0.7 else []
    slots = [(head, None, "Real")] + ([("p", None, "Real")] if P and rng.random() < 0.6 else [])
    x = {"name": "x", "cat": "alg", "type": "Real", "dims": [], "attrs": {}}
    for a in rng.sample(["min", "max", "start", "nominal"], rng.randint(1, 2)):
        for _ in range(20):
            t = g_aff(rng, slots, rng.choice([0, 1, 2]), False)
            if has_param(t):
                break
        x["attrs"][a] = {"k": "exp", "e": t}
    if not const_attr({"params": P, "vars": consts + [x]}):
        x["attrs"]["max"] = {"k": "exp", "e": ["p", head, None]}
    case = {"kind": "constattr", "params": P, "vars": consts + [x], "via": "generate", "opts": {}}
    case["text"] = render(case)
    case["pvs_exact"] = make_pvs(rng, P)
    return case


def gen_case(rng, kind):
    if kind in ("switch", "extends", "component", "constattr"):
        return {"switch": gen_switch, "extends": gen_extends, "component": gen_component,
                "constattr": gen_constattr}[kind](rng)
    BILINEAR[0] = {"single_bilinear": "bilinear", "multilinear": "multilinear"}.get(kind, False)
    try:
        return gen_case_(rng, kind)
    finally:
        BILINEAR[0] = False


def gen_case_(rng, kind):
    P = []
    mode = {"single_affine": "affine", "none": "lit", "known_shape": "mixed"}.get(kind, "mixed")

    def mkparam(name, T, dims):
        p = {"name": name, "cat": "param", "type": T, "dims": dims, "attrs": {}}
        r = rng.random()
        if T == "Boolean":
            p["attrs"]["value"] = lit("B", rng.random() < 0.5)
        elif len(dims) == 2:
            p["attrs"]["value"] = {"k": "mat", "rows": [[lit(rng.choice(["R", "I"]), rlitval(rng, "I")) for _ in range(dims[1])]
                                                       for _ in range(dims[0])]}
        elif dims:
            if r < 0.8:
                t = "I" if T == "Integer" else rng.choice(["R", "I"])
                p["attrs"]["value"] = {"k": "elems", "es": [lit(t, rlitval(rng, t)) for _ in range(dims[0])]}
        else:
            if r < (0.6 if kind == "sequence" else 0.12) and kind in ("multi", "sequence") \
                    and any(not q.get("dims") and q["type"] == T and q["attrs"].get("value", {}).get("k") == "lit" for q in P):
                p["attrs"]["value"] = gen_attr(rng, p, "value", P, "mixed")
            elif r < 0.85 or kind == "subst":
                t = "I" if T == "Integer" else rng.choice(["R", "I"])
                p["attrs"]["value"] = lit(t, rlitval(rng, t))
        if T != "Boolean" and len(dims) < 2 and kind not in ("single_affine", "single_mixed", "single_bilinear", "subst", "multilinear", "matrix2d"):
            for a in ("min", "max", "nominal"):
                if rng.random() < 0.15:
                    p["attrs"][a] = gen_attr(rng, p, a, P, "mixed")
        if kind == "subst" and not dims and rng.random() < 0.35:
            p["attrs"].pop("value", None)        # stays a free parameter after replace_parameter_values
        return p

    if kind in ("single_affine", "single_mixed", "single_bilinear"):
        r = rng.random()
        if r < 0.55 or kind == "single_bilinear":
            P.append(mkparam("p", "Real", []))
        elif r < 0.85:
            P.append(mkparam("pa", "Real", [rng.choice([2, 3])]))
        else:
            P.append(mkparam("n", "Integer", []))
    elif kind == "multilinear":
        for nm in ["p", "q", "r", "s"][:rng.choice([3, 3, 4])]:
            P.append(mkparam(nm, "Real", []))
    elif kind == "matrix2d":
        r_, c_ = rng.choice([(2, 3), (3, 2), (2, 2)])
        P.append(mkparam("p", "Real", []))
        P.append(mkparam("P", "Real", [r_, c_]))
        if rng.random() < 0.4:
            P.append(mkparam("Q", "Real", [r_, c_]))
        rng.shuffle(P)
    elif kind in ("multi", "known_shape", "subst", "sequence"):
        pool = [("p", "Real", []), ("q", "Real", []), ("n", "Integer", []), ("m", "Integer", []),
                ("pa", "Real", [rng.choice([2, 3])]), ("flag", "Boolean", [])]
        if kind == "multi":
            pool += [("ka", "Integer", [2]), ("pm", "Real", [2, 2])]
        rng.shuffle(pool)
        chosen = pool[:rng.randint(2, 4)]
        if kind not in ("multi", "sequence"):
            chosen = [c for c in chosen if not c[2] or kind == "known_shape"] or [("p", "Real", [])]
            if not any(c[1] == "Real" and not c[2] for c in chosen):
                chosen.append(("p", "Real", []))
        for nm, T, dims in chosen:
            P.append(mkparam(nm, T, dims))
    pa_n = next((p["dims"][0] for p in P if p["name"] == "pa"), rng.choice([2, 3]))
    vpool = [("x", "state", "Real", []), ("xs", "state", "Real", [2]), ("a", "alg", "Real", []),
             ("y", "alg", "Real", [pa_n]), ("z", "alg", "Real", [2]), ("i", "alg", "Integer", []),
             ("j", "alg", "Integer", [2]), ("b", "alg", "Boolean", []), ("u", "input", "Real", []),
             ("w", "alg", "Real", []), ("c", "constant", "Real", []), ("kc", "constant", "Integer", [])]
    if kind in ("single_bilinear", "multilinear"):   # symbolic attributes on scalars only (repmat is not an allowed operation)
        vpool = [v for v in vpool if not v[3] or v[2] == "Integer"]
    rng.shuffle(vpool)
    if kind == "matrix2d":
        md = next(q["dims"] for q in P if len(q.get("dims") or []) == 2)
        vpool = [("A", "alg", "Real", md)] + ([("B", "alg", "Real", md)] if rng.random() < 0.3 else []) + vpool[:rng.randint(0, 2)]
        vpool += [None] * 5
    V = []
    for ent in vpool[:rng.randint(2, 5)]:
        if ent is None:
            continue
        nm, cat, T, dims = ent
        v = {"name": nm, "cat": cat, "type": T, "dims": dims, "attrs": {}}
        if cat == "constant":
            v["attrs"]["value"] = lit("I" if T == "Integer" else "R", rlitval(rng, "I" if T == "Integer" else "R"))
        else:
            for a in (["start", "fixed"] if T == "Boolean" else ["min", "max", "start", "nominal", "fixed"]):
                if rng.random() < (0.25 if a == "fixed" else 0.7 if len(dims) == 2 else 0.5):
                    v["attrs"][a] = gen_attr(rng, v, a, P, mode)
        V.append(v)
    if kind == "multilinear":
        def nonaff(v):
            return any(d is not None and d["k"] == "exp" and not syn_affine(d["e"]) for d in v["attrs"].values())
        if not any(nonaff(v) for v in V):
            tgt = next((v for v in V if v["type"] == "Real" and v["cat"] != "constant"), None)
            if tgt is None:
                tgt = {"name": "w", "cat": "alg", "type": "Real", "dims": [], "attrs": {}}
                V = [v for v in V if v["name"] != "w"] + [tgt]
            sl = [(q["name"], None, "Real") for q in P]
            tgt["attrs"][rng.choice(["min", "max", "start", "nominal"])] = {"k": "exp", "e": gen_expr(rng, sl, False, False)}
    if kind == "known_shape":
        tgt = next((v for v in V if v["dims"] and v["type"] == "Real" and v["cat"] != "constant"), None)
        if tgt is None:
            tgt = {"name": "z", "cat": "alg", "type": "Real", "dims": [2], "attrs": {}}
            V = [v for v in V if v["name"] != "z"] + [tgt]
        tgt["attrs"][rng.choice(["min", "max", "start", "nominal"])] = gen_attr(rng, tgt, "max", P, "mixed", arrlit_exp=True)
    via, opts = "generate", {}
    r = rng.random()
    steps = None
    if kind == "subst":
        via, opts = "transfer", {"replace_parameter_values": True}
    elif kind == "sequence":
        steps = rng.sample(SIMPLIFY_STEPS, rng.randint(1, 3))
        roots = [q for q in P if q["type"] == "Real" and not q.get("dims") and (q["attrs"].get("value") or {}).get("k") == "lit"]
        if roots and rng.random() < 0.65:
            # chain of dependent parameters d1 = e(d2), d2 = e(d3) .., last = e(root), declared in definition-before-use
            # order, in use-before-definition order, or shuffled; attributes refer to the head (and the middle)
            depth = rng.choice([2, 2, 3])
            names = ["d%d" % (i + 1) for i in range(depth)]
            chain_ps = []
            for i, nm in enumerate(names):
                src = names[i + 1] if i + 1 < depth else rng.choice(roots)["name"]
                chain_ps.append({"name": nm, "cat": "param", "type": "Real", "dims": [],
                                 "attrs": {"value": {"k": "exp", "e": g_aff_p(rng, [(src, None, "Real")], rng.choice([1, 2]), False)}}})
            order = rng.choice(["use-first", "use-first", "def-first", "shuffled"])
            if order == "def-first":
                chain_ps.reverse()
            elif order == "shuffled":
                rng.shuffle(chain_ps)
            P[:] = (chain_ps + P) if rng.random() < 0.5 else (P + chain_ps)
            users = [v for v in V if v["type"] == "Real" and v["cat"] != "constant"]
            if not users:
                users = [{"name": "w", "cat": "alg", "type": "Real", "dims": [], "attrs": {}}]
                V[:] = [v for v in V if v["name"] != "w"] + users
            for nm in [names[0]] + ([names[1]] if rng.random() < 0.5 else []):
                tgt = rng.choice(users)
                d = {"k": "exp", "e": gen_expr(rng, [(nm, None, "Real")], False, rng.random() < 0.6)}
                if tgt["dims"]:
                    d["each"] = True
                tgt["attrs"][rng.choice(["min", "max", "start", "nominal"])] = d
            rest = [x for x in SIMPLIFY_STEPS if "replace_parameter_expressions" not in x]
            steps = [{"replace_parameter_expressions": True}] + rng.sample(rest, rng.randint(0, 2))
            if rng.random() < 0.3:
                steps = [rng.choice(rest)] + steps[:2]
    elif kind == "multilinear":
        opts = {"expand_mx": True} if r < 0.25 else {}
    elif kind == "matrix2d":
        if r < 0.65:
            via, opts = "transfer", ({"expand_vectors": True, "expand_mx": True} if r < 0.3 else {"expand_vectors": True})
        elif r < 0.8:
            opts = {"expand_mx": True}
    elif r < 0.25:
        opts = {"expand_mx": True}
    elif r < 0.5:
        via = "transfer"
        if rng.random() < 0.4 and not any(len(p.get("dims") or []) == 2 for p in P):
            opts = {"expand_vectors": True}
    case = {"kind": kind, "params": P, "vars": V, "via": via, "opts": opts}
    if steps:
        case["steps"] = steps
    case["text"] = render(case)
    case["pvs_exact"] = make_pvs(rng, P)
    return case


def make_pvs(rng, P, booleans=None, force=None):
    """parameter vectors: declared values (when literal) + random ones; booleans = forced value of all Boolean
    parameters per vector (None = random)"""
    pvs = []
    for i in range(3):
        pv = {}
        for p in P:
            dims = p.get("dims") or []
            cnt = 1
            for d in dims:
                cnt *= d
            dv = p["attrs"].get("value")
            if force and p["name"] in force and force[p["name"]][i] is not None:
                vals = [Fr(force[p["name"]][i])] * cnt
            elif p["type"] == "Boolean" and booleans and booleans[i] is not None:
                vals = [Fr(booleans[i])] * cnt
            elif i == 0 and dv is not None and dv["k"] in ("lit", "elems", "mat") \
                    and all(x[0] == "lit" for x in decl_elems(dv, cnt, dims)):
                vals = [x[1] for x in decl_elems(dv, cnt, dims)]
            elif p["type"] == "Boolean":
                vals = [Fr(rng.randint(0, 1)) for _ in range(cnt)]
            elif p["type"] == "Integer":
                vals = [Fr(rng.randint(-4, 5)) for _ in range(cnt)]
            else:
                vals = [Fr(rng.randint(-12, 12), 4) for _ in range(cnt)]
            pv[p["name"]] = [fs(x) for x in vals]
        pvs.append(pv)
    return pvs


# ---- attributes switched by Boolean / Integer parameters (if, not, comparison) -----------------------
def gen_switch(rng):
    ifonly = rng.random() < 0.5      # only `if <Boolean parameter>`: no comparison / not instruction anywhere
    P = [{"name": "flag", "cat": "param", "type": "Boolean", "dims": [], "attrs": {"value": lit("B", rng.random() < 0.5)}},
         {"name": "p", "cat": "param", "type": "Real", "dims": [], "attrs": {"value": lit("R", rlitval(rng, "R"))}}]
    if rng.random() < 0.5:
        P.append({"name": "free", "cat": "param", "type": "Boolean", "dims": [], "attrs": {"value": lit("B", rng.random() < 0.5)}})
    if rng.random() < 0.5:
        P.append({"name": "q", "cat": "param", "type": "Real", "dims": [], "attrs": {"value": lit("R", rlitval(rng, "R"))}})
    if not ifonly or rng.random() < 0.3:
        P.append({"name": "n", "cat": "param", "type": "Integer", "dims": [], "attrs": {"value": lit("I", rlitval(rng, "I"))}})
    rng.shuffle(P)
    bools = [(q["name"], None, "Boolean") for q in P if q["type"] == "Boolean"]
    reals = [(q["name"], None, "Real") for q in P if q["type"] == "Real"]
    ints = [(q["name"], None, "Integer") for q in P if q["type"] == "Integer"]

    def cond():
        b = rng.choice(bools)
        c = ["p", b[0], None]
        if ifonly:
            return c
        r = rng.random()
        if r < 0.35 and ints:
            k = ["c", fs(rng.randint(-2, 3))]
            n = ["p", rng.choice(ints)[0], None]
            return ["lt", k, n] if rng.random() < 0.5 else ["lt", n, k]
        if r < 0.6:
            return ["not", c]
        return c

    def branch(integer):
        if ifonly:        # constant branches: the structural Hessian of the switch is zero
            return ["c", fs(rlitval(rng, "I" if integer else "R"))]
        if integer:
            return ["c", fs(rlitval(rng, "I"))] if not ints or rng.random() < 0.6 else g_aff_p(rng, ints, 1, True)
        return ["c", fs(rlitval(rng, "R"))] if rng.random() < 0.55 else g_aff_p(rng, reals, 1, False)
    force = {}

    def chain(integer):
        """if/elseif/else with OVERLAPPING conditions on one numeric parameter: the first true condition wins"""
        src = rng.choice(ints if (integer or (ints and rng.random() < 0.4)) else reals)
        par = ["p", src[0], None]
        nb = rng.choice([2, 2, 3])
        ks = sorted(rng.sample(range(-3, 4), nb), reverse=True)
        up = rng.random() < 0.6                                   # p > k1 > k2 ...   or   p < k1 < k2 ...
        if not up:
            ks = ks[::-1]
        conds = [["lt", ["c", fs(k)], par] if up else ["lt", par, ["c", fs(k)]] for k in ks]
        t = branch(integer)
        for c in reversed(conds):
            t = ["if", c, branch(integer), t, "elseif"]
        # evaluate where all conditions hold, where only the last ones hold, and somewhere else
        f = force.setdefault(src[0], [None, None, None])
        f[1] = (max(ks) + 1) if up else (min(ks) - 1)
        f[2] = Fr(ks[-1] + ks[-2], 2) if src[2] == "Real" else None
        return t
    pool = [("x", "state", "Real", []), ("a", "alg", "Real", []), ("w", "alg", "Real", []), ("i", "alg", "Integer", []),
            ("y", "alg", "Real", [2]), ("u", "input", "Real", [])]
    rng.shuffle(pool)
    V, switched = [], 0
    for nm, cat, T, dims in pool[:rng.randint(2, 4)]:
        v = {"name": nm, "cat": cat, "type": T, "dims": dims, "attrs": {}}
        integer = T == "Integer"
        for a in ["min", "max", "start", "nominal"]:
            r = rng.random()
            if r < 0.3:
                if not ifonly and rng.random() < 0.5 and (ints if integer else (reals or ints)):
                    v["attrs"][a] = {"k": "exp", "e": chain(integer)}
                else:
                    v["attrs"][a] = {"k": "exp", "e": ["if", cond(), branch(integer), branch(integer)]}
                switched += 1
            elif r < 0.5 and (ints if integer else reals):
                v["attrs"][a] = {"k": "exp", "e": g_aff_p(rng, ints if integer else reals, rng.choice([1, 2]), integer)}
            elif r < 0.65:
                v["attrs"][a] = lit("I" if integer else "R", rlitval(rng, "I" if integer else "R"))
            if dims and a in v["attrs"]:
                v["attrs"][a]["each"] = True
        if rng.random() < 0.3:
            b = ["p", rng.choice(bools)[0], None]
            v["attrs"]["fixed"] = {"k": "exp", "e": b if ifonly or rng.random() < 0.4 else ["not", b]}
            if dims:
                v["attrs"]["fixed"]["each"] = True
            switched += 1
        V.append(v)
    if not ifonly and not force:          # every mixed case carries at least one if/elseif/else chain
        tgt = rng.choice(V)
        tgt["attrs"][rng.choice(["min", "max", "start", "nominal"])] = \
            {"k": "exp", "e": chain(tgt["type"] == "Integer"), **({"each": True} if tgt["dims"] else {})}
        switched += 1
    if not switched:
        V[0]["attrs"]["max"] = {"k": "exp", "e": ["if", cond(), branch(V[0]["type"] == "Integer"), branch(V[0]["type"] == "Integer")]}
        if V[0]["dims"]:
            V[0]["attrs"]["max"]["each"] = True
    r = rng.random()
    via, opts = ("generate", {}) if r < 0.6 else ("generate", {"expand_mx": True}) if r < 0.8 else ("transfer", {})
    case = {"kind": "switch", "params": P, "vars": V, "via": via, "opts": opts}
    case["text"] = render(case)
    case["pvs_exact"] = make_pvs(rng, P, booleans=[None, 1, 0], force=force)
    return case


# ---- modified attributes: extends chains and component modifications (outermost wins) ----------------
def rmods(mods, types):
    """{name: {attr: decl}} -> 'x(max = .., each min = ..), p = 3'"""
    out = []
    for nm, am in mods.items():
        integer = types[nm] == "Integer"
        inner = ["%s%s = %s" % ("each " if d.get("each") else "", a, rdecl(d, integer)) for a, d in am.items() if a != "value"]
        txt = nm + ("(%s)" % ", ".join(inner) if inner else "")
        if "value" in am:
            txt += " = " + rdecl(am["value"], integer)
        out.append(txt)
    return ", ".join(out)


def gen_extends(rng):
    base = gen_case_(rng, "multi")
    P, V = base["params"], base["vars"]
    levels = rng.choice([2, 3, 3])
    names = ["Base", "Mid", "M"] if levels == 3 else ["Base", "M"]
    types = {v["name"]: v["type"] for v in P + V}
    lvl_decl = [dict() for _ in range(levels)]          # per level: {name: {attr: decl}}
    overridden = 0
    # combined spelling `name(attrs) = value` in an extends clause: value and attributes at the SAME level >= 1
    combined = {}
    for v in P:
        dv = v["attrs"].get("value")
        if v["type"] != "Boolean" and len(v.get("dims") or []) <= 1 and dv is not None and dv["k"] in ("lit", "elems", "exp") \
                and rng.random() < 0.6:
            combined[v["name"]] = rng.randrange(1, levels)
            if not any(a != "value" and d is not None for a, d in v["attrs"].items()):
                t = "I" if v["type"] == "Integer" else "R"
                v["attrs"][rng.choice(["min", "max", "nominal"])] = lit(t, rlitval(rng, t), each=bool(v.get("dims")))
    for v in P + V:
        for a, d in v["attrs"].items():
            if d is None:
                continue
            modifiable = not (a == "value" and (v["cat"] == "constant" or d["k"] not in ("lit", "elems", "exp")))
            top = rng.randrange(levels) if modifiable else 0
            if a == "value" and d["k"] == "exp" and v["name"] not in combined:
                top = 0
            if v["name"] in combined:
                top = combined[v["name"]]
            lvl_decl[top].setdefault(v["name"], {})[a] = d
            if top >= 1 and rng.random() < 0.75:
                low = rng.randrange(top)
                if a == "value":
                    t = "I" if v["type"] == "Integer" else "R"
                    inner = lit(t, rlitval(rng, t)) if d["k"] in ("lit", "exp") else \
                        {"k": "elems", "es": [lit(t, rlitval(rng, t)) for _ in d["es"]]}
                    if v["type"] == "Boolean":
                        inner = lit("B", not d["v"])
                else:
                    inner = gen_attr(rng, v, a, P, "mixed")
                lvl_decl[low].setdefault(v["name"], {})[a] = inner
                overridden += 1
    # Base: the level-0 declarations
    b0 = {"params": [dict(v, attrs=dict(lvl_decl[0].get(v["name"], {}))) for v in P],
          "vars": [dict(v, attrs=dict(lvl_decl[0].get(v["name"], {}))) for v in V]}
    txt = render(b0).replace("model M\n", "model Base\n").replace("end M;", "end Base;")
    for k in range(1, levels):
        mods = rmods(lvl_decl[k], types)
        txt += "model %s\n  extends %s%s;\nend %s;\n" % (names[k], names[k - 1], "(%s)" % mods if mods else "", names[k])
    r = rng.random()
    case = {"kind": "extends", "params": P, "vars": V, "via": "generate" if r < 0.75 else "transfer",
            "opts": {"expand_mx": True} if r < 0.2 else {}, "text": txt, "overridden": overridden,
            "combined": sorted(combined)}
    case["pvs_exact"] = make_pvs(rng, P)
    return case


def gen_component(rng):
    """Inner declared with attributes, instantiated with modifications at one or two enclosing levels"""
    levels = rng.choice([2, 3])
    prefix = "i."
    comps = [("x", "Real", []), ("k", "Integer", []), ("y", "Real", [2])]
    lvl = [dict() for _ in range(levels)]
    V = []
    for nm, T, dims in comps:
        v = {"name": prefix + nm, "cat": "alg", "type": T, "dims": dims, "attrs": {}}
        t = "I" if T == "Integer" else "R"
        for a in ["min", "max", "start", "nominal"]:
            if rng.random() < 0.6:
                def mk():
                    if dims and rng.random() < 0.5:
                        return {"k": "elems", "es": [lit(t, rlitval(rng, t)) for _ in range(dims[0])]}
                    return lit(t, rlitval(rng, t), each=bool(dims))
                top = rng.randrange(levels)
                d = mk()
                v["attrs"][a] = d
                lvl[top].setdefault(nm, {})[a] = d
                if top >= 1 and rng.random() < 0.8:
                    lvl[rng.randrange(top)].setdefault(nm, {})[a] = mk()
        V.append(v)
    P = [{"name": "p", "cat": "param", "type": "Real", "dims": [], "attrs": {"value": lit("R", rlitval(rng, "R"))}},
         {"name": "n", "cat": "param", "type": "Integer", "dims": [], "attrs": {"value": lit("I", rlitval(rng, "I"))}}]
    mslots = {"Real": [("p", None, "Real")], "Integer": [("n", None, "Integer")]}
    pcomps = [("q", "Real", []), ("c", "Integer", []), ("wv", "Real", [2])]
    IP = []
    for nm, T, dims in pcomps[:rng.randint(1, 3)]:
        v = {"name": prefix + nm, "cat": "param", "type": T, "dims": dims, "attrs": {}}
        t = "I" if T == "Integer" else "R"
        integer = T == "Integer"

        def mkval(allow_exp):
            if dims:
                return {"k": "elems", "es": [{"k": "exp", "e": g_aff_p(rng, mslots[T], 1, integer)} if allow_exp and rng.random() < 0.5
                                             else lit(t, rlitval(rng, t)) for _ in range(dims[0])]}
            if allow_exp and rng.random() < 0.6:
                return {"k": "exp", "e": g_aff_p(rng, mslots[T], 1, integer)}
            return lit(t, rlitval(rng, t))

        def mkattr(allow_exp):
            if allow_exp and rng.random() < 0.5:
                return {"k": "exp", "e": g_aff_p(rng, mslots[T], 1, integer), **({"each": True} if dims else {})}
            return lit(t, rlitval(rng, t), each=bool(dims))
        # Inner declares a literal value; a level >= 1 gives value AND attributes together: q(min = .., max = ..) = ..
        lvl[0].setdefault(nm, {})["value"] = mkval(False)
        top = rng.randrange(1, levels)
        v["attrs"]["value"] = mkval(True)
        lvl[top].setdefault(nm, {})["value"] = v["attrs"]["value"]
        for a in rng.sample(["min", "max", "nominal"], rng.randint(1, 2)):
            v["attrs"][a] = mkattr(True)
            lvl[top][nm][a] = v["attrs"][a]
            if rng.random() < 0.4:
                lvl[0][nm][a] = mkattr(False)
        if top == 2 and rng.random() < 0.5:
            lvl[1].setdefault(nm, {})["value"] = mkval(False)
        IP.append(v)
    P = IP + P
    w = {"name": "w", "cat": "alg", "type": "Real", "dims": [], "attrs": {"max": {"k": "exp", "e": g_aff_p(rng, [("p", None, "Real")], 1, False)}}}
    types = {nm: T for nm, T, _ in comps + pcomps}
    inner = {"params": [{"name": nm, "cat": "param", "type": T, "dims": dims, "attrs": dict(lvl[0].get(nm, {}))}
                        for nm, T, dims in pcomps if prefix + nm in [x["name"] for x in IP]],
             "vars": [{"name": nm, "cat": "alg", "type": T, "dims": dims, "attrs": dict(lvl[0].get(nm, {}))} for nm, T, dims in comps]}
    txt = render(inner).replace("model M\n", "model Inner\n").replace("end M;", "end Inner;")
    if levels == 3:
        # Sub extends Inner with modifications, M instantiates Sub with modifications (a nested component
        # modification m(i(x(..))) raises IndexError in the flattener: C08's territory, not used here)
        m1 = rmods(lvl[1], types)
        txt += "model Sub\n  extends Inner%s;\nend Sub;\n" % ("(%s)" % m1 if m1 else "")
        m2 = rmods(lvl[2], types)
        inst = "  Sub i%s;\n" % ("(%s)" % m2 if m2 else "")
    else:
        m1 = rmods(lvl[1], types)
        inst = "  Inner i%s;\n" % ("(%s)" % m1 if m1 else "")
    txt += "model M\n%s  parameter Real p = %s;\n  parameter Integer n = %s;\n  Real w(max = %s);\nequation\n  w = 1;\nend M;\n" % (
        inst, rdecl(P[-2]["attrs"]["value"], False), rdecl(P[-1]["attrs"]["value"], True), rdecl(w["attrs"]["max"], False))
    case = {"kind": "component", "params": P, "vars": V + [w], "via": "generate", "opts": {}, "text": txt}
    case["pvs_exact"] = make_pvs(rng, P)
    return case


def decl_elems(d, cnt, dims):
    """declaration -> list of cnt entries ('lit', Fraction, t) | ('exp', tree), in veccat (column-major) order"""
    def one(x):
        if x["k"] == "lit":
            return ("lit", (Fr(1) if x["v"] else Fr(0)) if x["t"] == "B" else fr(x["v"]), x["t"])
        return ("exp", x["e"])
    if d["k"] in ("lit", "exp"):
        return [one(d)] * cnt
    if d["k"] == "vec":
        return [("exp", e) for e in vexpand(d["e"])]
    if d["k"] == "mexp":
        return [("exp", e) for e in mexpand(d["e"], dims[0], dims[1])]
    if d["k"] == "mat":
        rows = d["rows"]
        return [one(rows[i][j]) for j in range(len(rows[0])) for i in range(len(rows))]
    return [one(x) for x in d["es"]]


ELEM_RE = re.compile(r"^([\w.]+)\[(\d+)(?:,(\d+))?\]$")


def elem_of(name, D):
    """expanded element name 'y[2]' / 'A[1,3]' -> (declared variable, veccat index) or None"""
    m = ELEM_RE.match(name)
    if not m or m.group(1) not in D:
        return None
    v = D[m.group(1)]
    dims = v.get("dims") or []
    if m.group(3) is None:
        return (v, int(m.group(2)) - 1) if len(dims) == 1 else None
    if len(dims) != 2:
        return None
    i, j = int(m.group(2)) - 1, int(m.group(3)) - 1
    return (v, j * dims[0] + i)


def child_case(case):
    dims = {p["name"]: p.get("dims") or [] for p in case["params"]}
    pvs = []
    for pv in case["pvs_exact"]:
        d = {}
        for name, vals in pv.items():
            fl = [float(fr(x)) for x in vals]
            d[name] = fl
            if len(dims[name]) == 1:
                for i, x in enumerate(fl):
                    d["%s[%d]" % (name, i + 1)] = [x]
            elif len(dims[name]) == 2:
                r, c = dims[name]
                for j in range(c):
                    for i in range(r):
                        d["%s[%d,%d]" % (name, i + 1, j + 1)] = [fl[j * r + i]]
        pvs.append(d)
    out = {"text": case["text"], "via": case["via"], "opts": case["opts"], "pvs": pvs}
    if case.get("steps"):
        out["steps"] = case["steps"]
    return out


# =====================================================================================
# oracle (independent of the Coq model)
# =====================================================================================
def pnum(s):
    if s in ("nan", "inf", "-inf"):
        return s
    return Fr(s)


def near(x, q):
    if isinstance(x, str) or isinstance(q, str):
        return x == q
    return abs(x - q) <= TOL * (1 + abs(q))


def declared(case):
    return {v["name"]: v for v in case["params"] + case["vars"]}


def locate(case, res):
    """observed variable -> (declared variable, element index or None)"""
    D = declared(case)
    out = {}
    for cat in CATS:
        for o in res["cats"][cat]:
            nm = o["name"]
            if nm in D:
                out[(cat, nm)] = (D[nm], None)
            elif elem_of(nm, D):
                out[(cat, nm)] = elem_of(nm, D)
    return out


def envs(case, res):
    """per parameter vector: (name, elem) -> exact value.  Parameters no longer present in the model
    (replace_parameter_values) take their declared literal value."""
    live = set()
    for nm, _ in res["params"]:
        live.add(re.sub(r"\[\d+(,\d+)?\]$", "", nm))
    out = []
    for pv in case["pvs_exact"]:
        env = {}
        # dependent parameters may be declared BEFORE the parameters they refer to: iterate to a fixed point
        consts = [v for v in case["vars"] if v["cat"] == "constant"]
        todo = (list(case["params"]) + consts) * (len(case["params"]) + len(consts) + 1)
        live = live - {v["name"] for v in consts}
        for p in todo:
            if (p["name"], 0) in env:
                continue
            dims = p.get("dims") or []
            cnt = 1
            for d in dims:
                cnt *= d
            if p["name"] in live:
                vals = [fr(x) for x in pv[p["name"]]]
            else:
                dv = p["attrs"].get("value")
                vals = None
                if dv is not None and dv["k"] in ("lit", "elems", "mat"):
                    vals = [x[1] for x in decl_elems(dv, cnt, dims)]
                elif dv is not None and dv["k"] == "exp":
                    # eliminated dependent parameter (replace_parameter_expressions): follows from its declaration
                    try:
                        vals = [ev(dv["e"], env)]
                    except (Unsafe, KeyError):
                        vals = None
            if vals is None:
                continue
            if not dims:
                env[(p["name"], None)] = vals[0]
            for i, x in enumerate(vals):
                env[(p["name"], i)] = x
        out.append(env)
    return out


def numel(v):
    n = 1
    for d in v.get("dims") or []:
        n *= d
    return n


def expected(v, a, k, env):
    """declared value of attribute a of element k (veccat order) of v; Unsafe -> None"""
    d = v["attrs"].get(a)
    if d is None:
        return SPEC_DEFAULT[a]
    e = decl_elems(d, numel(v), v.get("dims") or [])[k]
    if e[0] == "lit":
        return e[1]
    try:
        return ev(e[1], env)
    except (Unsafe, KeyError):
        return None


def known_shape(case):
    """the recorded input class: an array-literal attribute with a parameter-expression element"""
    for v in case["params"] + case["vars"]:
        for d in v["attrs"].values():
            if d is not None and d["k"] == "elems" and any(x["k"] == "exp" for x in d["es"]):
                return True
    return False


def judge(case, res):
    """None | (tag, description); a sequence case is judged after every simplify step"""
    if "stages" in res:
        for i, st in enumerate(res["stages"]):
            v = judge_one(case, st, later=i > 0)
            if v:
                what = "after generate" if i == 0 else "after simplify(%s)" % json.dumps(case["steps"][:i])
                return (v[0], "%s [accessed %s] %s" % (v[1], what, ""))
        return None
    return judge_one(case, res)


def const_attr(case):
    """the recorded input class: an attribute (not a constant's own value) mentions a constant symbol"""
    cn = {v["name"] for v in case["vars"] if v["cat"] == "constant"}

    def mentions(t):
        if t[0] == "p":
            return t[1] in cn
        return any(mentions(x) for x in t[1:] if isinstance(x, list))
    for v in case["params"] + case["vars"]:
        for a, d in v["attrs"].items():
            if d is None or (v["cat"] == "constant" and a == "value"):
                continue
            if any(e[0] == "exp" and mentions(e[1]) for e in decl_elems(d, numel(v), v.get("dims") or [])):
                return True
    return False


def judge_one(case, res, later=False):
    if "meta_exc" in res:
        if const_attr(case) and "free" in res["meta_exc"]:
            return ("constant-dependent-attribute-free-variable",
                    "variable_metadata_function cannot be built: %s" % res["meta_exc"][-140:].replace("\n", " "))
        return ("exception", "variable_metadata_function raised: %s" % res["meta_exc"][-200:])
    if "crash" in res:
        return ("crash", "interpreter crashed (rc=%s)" % res["crash"])
    if "exc" in res:
        if known_shape(case) and res["exc"] in ("KeyError", "NotImplementedError"):
            return ("array-literal-attribute-with-parameter-element",
                    "%s at stage %s: %s" % (res["exc"], res["stage"], res["msg"][:120]))
        if const_attr(case) and res["msg"].startswith("variable_metadata_function:") and "free" in res["msg"]:
            return ("constant-dependent-attribute-free-variable",
                    "variable_metadata_function cannot be built: %s" % res["msg"][-140:].replace("\n", " "))
        return ("exception", "%s at stage %s: %s" % (res["exc"], res["stage"], res["msg"][:200]))
    loc = locate(case, res)
    E = envs(case, res)
    seen = set()
    for ci, cat in enumerate(CATS):
        row = 0
        for o in res["cats"][cat]:
            key = (cat, o["name"])
            if key not in loc:
                row += o["numel"]
                continue
            v, el = loc[key]
            seen.add(v["name"])
            # a variable turned into a constant by eliminate_constant_assignments gets its value from the equation
            moved = cat == "constants" and v["cat"] not in ("constant",)
            if o["ptype"] != PTYPE[v["type"]]:
                return ("python-type", "%s %s has python_type %s" % (v["type"], o["name"], o["ptype"]))
            n = o["numel"]
            if el is None and n != numel(v):
                return ("shape", "%s has %d elements, declared %d" % (o["name"], n, numel(v)))
            for a in ATTRS:
                if moved and a == "value":
                    continue
                col = ATTRS.index(a)
                ob = o["attrs"][a]
                d = v["attrs"].get(a)
                # Python types of Integer / Boolean attributes
                if d is not None and d["k"] == "lit" and not (v.get("dims") and not d.get("each") and False):
                    if v["type"] == "Integer" and d["t"] == "I" and ob["tag"] != "int":
                        return ("attr-type", "Integer %s.%s = %s is a Python %s" % (o["name"], a, rlit(d), ob["tag"]))
                    if v["type"] == "Boolean" and d["t"] == "B" and ob["tag"] != "bool":
                        return ("attr-type", "Boolean %s.%s = %s is a Python %s" % (o["name"], a, rlit(d), ob["tag"]))
                if d is not None and d["k"] == "exp" and v["type"] == "Integer" and ob["tag"] == "float":
                    return ("attr-type", "Integer %s.%s became a Python float after substitution" % (o["name"], a))
                for pi, env in enumerate(E):
                    for k in range(n):
                        want = expected(v, a, k if el is None else el, env)
                        if want is None:
                            continue
                        got = pnum(ob["vals"][pi][k])
                        if not near(got, want):
                            return ("variable-attribute", "Variable %s.%s element %d = %s at parameter vector %d, declared %s evaluates to %s"
                                    % (o["name"], a, k, got, pi, rdecl(d, False) if d else "(default)", want))
                        mat = res["meta"][pi][ci]
                        if row + k >= len(mat):
                            return ("metadata-shape", "metadata matrix of %s has %d rows, %s needs row %d" % (cat, len(mat), o["name"], row + k))
                        gotm = pnum(mat[row + k][col])
                        if not near(gotm, want):
                            return ("metadata-entry", "variable_metadata_function: %s row %d (%s) column %s = %s at parameter vector %d, declared %s evaluates to %s"
                                    % (cat, row + k, o["name"], a, gotm, pi, rdecl(d, False) if d else "(default)", want))
            row += n
        for pi in range(len(E)):
            if len(res["meta"][pi][ci]) != row:
                return ("metadata-shape", "metadata matrix of %s has %d rows, variables have %d elements" % (cat, len(res["meta"][pi][ci]), row))
    missing = [v["name"] for v in case["vars"] if v["name"] not in seen]
    if missing and not later and not case["opts"].get("replace_constant_values"):
        return ("missing-variable", "declared variables %s are in none of the metadata categories" % missing)
    return None


# =====================================================================================
# Coq encoding
# =====================================================================================
def cq_qc(x):
    x = Fr(x)
    return "(Q2Qc (Qmake (%d)%%Z %d%%positive))" % (x.numerator, x.denominator)


def cq_ext(s):
    return {"nan": "NaN", "inf": "PosInf", "-inf": "NegInf"}.get(s) or "(Fin %s)" % cq_qc(Fr(s))


def cq_tree_(t, slot):
    k = t[0]
    if k == "c":
        return "(Cst %s)" % cq_qc(fr(t[1]))
    if k == "p":
        return "(Par %d%%nat)" % slot[(t[1], t[2])]
    if k == "neg":
        return "(Neg %s)" % cq_tree_(t[1], slot)
    if k == "^":
        return "(Pow %s %d%%nat)" % (cq_tree_(t[1], slot), t[2])
    if k == "if":
        return "(IfB %s %s %s)" % (cq_tree_(t[1], slot), cq_tree_(t[2], slot), cq_tree_(t[3], slot))
    if k == "not":
        return "(NotB %s)" % cq_tree_(t[1], slot)
    if k == "lt":
        return "(LtB %s %s)" % (cq_tree_(t[1], slot), cq_tree_(t[2], slot))
    return "(%s %s %s)" % ({"+": "Add", "-": "Sub", "*": "Mul", "/": "Div"}[k], cq_tree_(t[1], slot), cq_tree_(t[2], slot))


def cq_lit(e):
    _, val, t = e
    if t == "I":
        return "(LInt (%d)%%Z)" % val.numerator
    if t == "B":
        return "(LBool %s)" % core.cq_bool(val != 0)
    return "(LReal %s)" % cq_qc(val)


TAGS = {"int": "GInt", "float": "GFloat", "bool": "GBool", "_DefaultValue": "GDefault", "MX": "GMX", "list": "GList"}
VT = {"float": "TReal", "int": "TInt", "bool": "TBool"}


class NoEncoding(Exception):
    pass


def subst_tree(t, slot, env0):
    """the attribute expression after the implementation eliminated parameters (replace_parameter_values /
    replace_parameter_expressions): a declared literal value or, for a dependent parameter, its declared expression"""
    k = t[0]
    if k == "c":
        return t
    if k == "p":
        key = (t[1], t[2])
        if key in slot:
            return t
        dv = env0["__decl__"].get(t[1])
        if dv is not None and dv["k"] == "exp":
            return subst_tree(dv["e"], slot, env0)
        if env0.get("__roots__"):
            return t                                  # only dependent parameters are unfolded (down to the root parameters)
        if key not in env0:
            raise NoEncoding()
        return ["c", fs(env0[key])]
    return [k] + [subst_tree(x, slot, env0) if isinstance(x, list) else x for x in t[1:]]


def scalar_params_only(t):
    if t[0] == "p":
        return t[2] is None
    return all(scalar_params_only(x) for x in t[1:] if isinstance(x, list))


def slots_of(case, params):
    """observed parameter list -> {(name, veccat index | None): position in veccat(parameters)}"""
    PD = {p["name"]: p for p in case["params"]}
    slot, order, pos = {}, [], 0
    for nm, shape in params:
        cnt = shape[0] * shape[1]
        m = elem_of(nm, PD) if nm not in PD else None
        if m:
            slot[(m[0]["name"], m[1])] = pos
            order.append((m[0]["name"], m[1]))
        elif cnt == 1 and not (PD.get(nm, {}).get("dims")):
            slot[(nm, None)] = pos
            slot[(nm, 0)] = pos
            order.append((nm, None))
        else:
            for i in range(cnt):
                slot[(nm, i)] = pos + i
                order.append((nm, i))
        pos += cnt
    return slot, order


def declared_params(case):
    """virtual stage for models only observed after substitution: all declared parameters, declaration order"""
    return [[p["name"], [numel(p), 1]] for p in case["params"]]


def cq_vexp(d, v, slot):
    """vector / matrix valued declaration -> vexp term (veccat order)"""
    def mat(m, r, c):
        k = m[0]
        if k == "mp":
            return "(VList [%s])" % "; ".join(cq_tree_(["p", m[1], i], slot) for i in range(r * c))
        if k == "mscale":
            return "(VScale %s %s)" % (cq_qc(fr(m[1])), mat(m[2], r, c))
        if k == "mneg":
            return "(VNeg %s)" % mat(m[1], r, c)
        if k == "mfill":
            return "(VFill %s %d%%nat)" % (cq_tree_(m[1], slot), r * c)
        return "(VAdd %s %s)" % (mat(m[1], r, c), mat(m[2], r, c))

    def vec(w):
        k = w[0]
        if k == "vp":
            return "(VList [%s])" % "; ".join(cq_tree_(["p", w[1], i], slot) for i in range(w[2]))
        if k == "vscale":
            return "(VScale %s %s)" % (cq_qc(fr(w[1])), vec(w[2]))
        if k == "vneg":
            return "(VNeg %s)" % vec(w[1])
        return "(VAdd %s %s)" % (vec(w[1]), vec(w[2]))
    if d["k"] == "mexp":
        return mat(d["e"], v["dims"][0], v["dims"][1])
    return vec(d["e"])


def encode(case, res, history=None):
    """history: parameter lists of the earlier observations of the same Model object (sequence cases)"""
    try:
        return encode_(case, res, history)
    except (NoEncoding, KeyError):
        return None


def encode_(case, res, history):
    PD = {p["name"]: p for p in case["params"]}
    if history is None:
        history = [declared_params(case)] if case["opts"].get("replace_parameter_values") else []
    stages = list(history) + [res["params"]]
    slot, _ = slots_of(case, stages[0])                 # the model is written over the FIRST parameter vector
    final_slot, _ = slots_of(case, res["params"])
    subst = len(stages) > 1
    E = envs(case, res)
    decls = {p["name"]: p["attrs"].get("value") for p in case["params"]}
    # the parameter eliminations, one substitution per step (input of the model)
    steps = []
    for a_, b_ in zip(stages, stages[1:]):
        _, old_order = slots_of(case, a_)
        new_slot, _ = slots_of(case, b_)
        env0 = dict(E[0])
        env0["__decl__"] = decls
        steps.append("[%s]" % "; ".join(cq_tree_(subst_tree(["p", k[0], k[1]], new_slot, env0), new_slot) for k in old_order))
    env_f = dict(E[0])
    env_f["__decl__"] = decls
    nonaffine_after = [False]

    def final_tree(t):
        ft = subst_tree(t, final_slot, env_f)
        if not syn_affine(ft):
            nonaffine_after[0] = True
        return ft
    loc = locate(case, res)
    cats, tags = [], []
    for cat in CATS:
        vs, ts = [], []
        for o in res["cats"][cat]:
            key = (cat, o["name"])
            if key not in loc:
                return None
            v, el = loc[key]
            branches, trow = [], []
            moved = cat == "constants" and v["cat"] != "constant"
            for a in ATTRS:
                d = v["attrs"].get(a)
                tg = None
                if moved and a == "value":
                    # turned into a constant by eliminate_constant_assignments: the value comes from the equation
                    vals = o["attrs"][a]["vals"][0]
                    if any(x in ("nan", "inf", "-inf") for x in vals):
                        raise NoEncoding()
                    term = "DElems [%s]" % "; ".join("ELit (LReal %s)" % cq_qc(Fr(x)) for x in vals)
                elif d is None:
                    term = "DNone"
                else:
                    es = decl_elems(d, numel(v), v.get("dims") or [])
                    for e in es:
                        if e[0] == "exp":
                            final_tree(e[1])

                    def cel(e):
                        return "ELit %s" % cq_lit(e) if e[0] == "lit" else "EExp %s" % cq_tree_(e[1], slot)
                    if d["k"] in ("vec", "mexp"):
                        term = ("DVecEl %s %d%%nat" % (cq_vexp(d, v, slot), el)) if el is not None else "DVec %s" % cq_vexp(d, v, slot)
                    elif el is not None and d["k"] in ("elems", "mat"):
                        term = "DElems [%s]" % cel(es[el])
                    elif d["k"] == "lit":
                        term = "DLit %s" % cq_lit(es[0])
                        tg = TAGS.get(o["attrs"][a]["tag"], "GList")
                    elif d["k"] == "exp":
                        term = "DExp %s" % cq_tree_(d["e"], slot)
                        if not subst or (not has_param(subst_tree(d["e"], final_slot, env_f))
                                         and scalar_params_only(subst_tree(d["e"], {}, {"__decl__": decls, "__roots__": True}))):
                            # symbolic (MX) without substitution; a Python number of the variable's type when the
                            # substitution made it constant.  (In between CasADi may or may not fold 0*x, and an
                            # element pa[k] of a substituted array parameter is not folded to a constant.)
                            tg = TAGS.get(o["attrs"][a]["tag"], "GList")
                    else:
                        term = "DElems [%s]" % "; ".join(cel(e) for e in es)
                branches.append("| %s => %s" % (COQ_ATTR[a], term))
                trow.append("None" if tg is None else "(Some %s)" % tg)
            vs.append("(Var %s %d%%nat (fun a => match a with %s end))" % (VT.get(o["ptype"], "TReal"), o["numel"], " ".join(branches)))
            ts.append("(%s, [%s])" % (VT.get(o["ptype"], "TReal"), "; ".join(trow)))
        cats.append("[%s]" % "; ".join(vs))
        tags.append("[%s]" % "; ".join(ts))
    points = []
    for pi, pv in enumerate(case["pvs_exact"]):
        # skip points where the exact evaluation is unsafe (small divisor / large intermediate)
        ok = True
        for v in case["params"] + case["vars"]:
            for a in ATTRS:
                d = v["attrs"].get(a)
                if d is not None:
                    for k in range(numel(v)):
                        if expected(v, a, k, E[pi]) is None:
                            ok = False
        if not ok:
            continue
        vec = []
        for nm, shape in res["params"]:
            m = elem_of(nm, PD) if nm not in PD else None
            if m:
                vec.append(fr(pv[m[0]["name"]][m[1]]))
            else:
                vec += [fr(x) for x in pv[nm]]

        def mats(ms):
            return "[%s]" % "; ".join("[%s]" % "; ".join("[%s]" % "; ".join(cq_ext(x) for x in row) for row in mt) for mt in ms)
        vm = []
        for cat in CATS:
            rows = []
            for o in res["cats"][cat]:
                for k in range(o["numel"]):
                    rows.append([o["attrs"][a]["vals"][pi][k] for a in ATTRS])
            vm.append(rows)
        points.append("([%s], %s, %s)" % ("; ".join(cq_qc(x) for x in vec), mats(res["meta"][pi]), mats(vm)))
    if not points:
        return None
    rebuilt = res["rebuilt"] is True
    if rebuilt and subst and nonaffine_after[0]:
        # after the implementation substituted parameter values CasADi may fold the expression (0*x, 0/x) into an
        # affine one while the substituted tree is still syntactically non-affine: evaluate the model on the
        # direct branch (the observed values must match either way)
        rebuilt = False
    return "(Case [%s] [%s] %s [%s] [%s])" % ("; ".join(cats), "; ".join(steps), core.cq_bool(rebuilt), "; ".join(tags),
                                              ";\n     ".join(points))


# =====================================================================================
# S1: tables from the sources
# =====================================================================================
def gen_tables():
    """fail-closed reader of CASADI_ATTRIBUTES, Variable.__init__ and ast.Symbol.__init__"""
    src = open(core.REPO + "/src/pymoca/backends/casadi/model.py").read()
    tree = pyast.parse(src)
    order, dfl = None, {}
    for node in tree.body:
        if isinstance(node, pyast.Assign) and len(node.targets) == 1 and getattr(node.targets[0], "id", None) == "CASADI_ATTRIBUTES":
            order = [e.value for e in node.value.elts]
        if isinstance(node, pyast.ClassDef) and node.name == "Variable":
            init = next(f for f in node.body if isinstance(f, pyast.FunctionDef) and f.name == "__init__")
            for st in init.body:
                if isinstance(st, pyast.Assign) and len(st.targets) == 1 and isinstance(st.targets[0], pyast.Attribute) \
                        and getattr(st.targets[0].value, "id", None) == "self" and st.targets[0].attr in ATTRS:
                    dfl[st.targets[0].attr] = default_expr(st.value)
    if order is None or sorted(order) != sorted(ATTRS) or sorted(dfl) != sorted(ATTRS):
        raise core.Fail("shape not recognised: CASADI_ATTRIBUTES=%s defaults=%s" % (order, sorted(dfl)))
    src = open(core.REPO + "/src/pymoca/ast.py").read()
    astd = {}
    for node in pyast.parse(src).body:
        if isinstance(node, pyast.ClassDef) and node.name == "Symbol":
            init = next(f for f in node.body if isinstance(f, pyast.FunctionDef) and f.name == "__init__")
            for st in init.body:
                if isinstance(st, pyast.Assign) and isinstance(st.targets[0], pyast.Attribute) and st.targets[0].attr in ATTRS:
                    c = st.value
                    if not (isinstance(c, pyast.Call) and getattr(c.func, "id", None) == "Primary" and len(c.keywords) == 1
                            and c.keywords[0].arg == "value" and isinstance(c.keywords[0].value, pyast.Constant)):
                        raise core.Fail("shape not recognised: ast.Symbol.%s default" % st.targets[0].attr)
                    val = c.keywords[0].value.value
                    if val is None:
                        astd[st.targets[0].attr] = "None"
                    elif isinstance(val, bool):
                        astd[st.targets[0].attr] = "(Some (LBool %s))" % core.cq_bool(val)
                    elif isinstance(val, int):
                        astd[st.targets[0].attr] = "(Some (LInt (%d)%%Z))" % val
                    else:
                        astd[st.targets[0].attr] = "(Some (LReal %s))" % cq_qc(Fr(val))
    if sorted(astd) != sorted(ATTRS):
        raise core.Fail("shape not recognised: ast.Symbol defaults %s" % sorted(astd))
    txt = ("From Coq Require Import QArith Qcanon List ZArith.\nImport ListNotations.\n"
           "From PV Require Import Model.C13_metadata.\n"
           "Definition gen_order : list attr := [%s].\n"
           "Definition gen_defaults : list (attr * (ext * tag)) := [%s].\n"
           "Definition gen_ast_defaults : list (attr * option lit) := [%s].\n"
           % ("; ".join(COQ_ATTR[a] for a in order),
              "; ".join("(%s, %s)" % (COQ_ATTR[a], dfl[a]) for a in ATTRS),
              "; ".join("(%s, %s)" % (COQ_ATTR[a], astd[a]) for a in ATTRS)))
    return txt, {"CASADI_ATTRIBUTES": order, "Variable.__init__": dfl, "ast.Symbol.__init__": astd}


def default_expr(e):
    def is_np(x, name):
        return isinstance(x, pyast.Attribute) and getattr(x.value, "id", None) == "np" and x.attr == name
    if is_np(e, "nan"):
        return "(NaN, GFloat)"
    if is_np(e, "inf"):
        return "(PosInf, GFloat)"
    if isinstance(e, pyast.UnaryOp) and isinstance(e.op, pyast.USub) and is_np(e.operand, "inf"):
        return "(NegInf, GFloat)"
    if isinstance(e, pyast.Constant):
        if isinstance(e.value, bool):
            return "(Fin %s, GBool)" % cq_qc(Fr(int(e.value)))
        if isinstance(e.value, int):
            return "(Fin %s, GInt)" % cq_qc(Fr(e.value))
        if isinstance(e.value, float):
            return "(Fin %s, GFloat)" % cq_qc(Fr(e.value))
    if isinstance(e, pyast.Call) and getattr(e.func, "id", None) == "_DefaultValue" and len(e.args) == 1 \
            and isinstance(e.args[0], pyast.Constant) and isinstance(e.args[0].value, int):
        return "(Fin %s, GDefault)" % cq_qc(Fr(e.args[0].value))
    raise core.Fail("shape not recognised: Variable default %s" % pyast.dump(e))


# =====================================================================================
PREAMBLE = ("From Coq Require Import QArith Qcanon ZArith.\nFrom PV Require Import Model.C13_metadata.\n"
            "Import ListNotations.\n")


def run(ctx):
    core.check_props(ctx, "C13.v", THEOREMS)
    # ---- S1 tables
    try:
        gen, tables = gen_tables()
        ctx.notes["tables"] = tables
        ok, out, err = core.coq_run(ctx, "Gen", gen, timeout=120)
        ok2, out2, err2 = core.coq_run(
            ctx, "Tie_C13", core.HEADER + "From RunC13 Require Import Gen.\nFrom PV Require Import Model.C13_metadata.\n"
            "Eval vm_compute in (tie_ok gen_order gen_defaults gen_ast_defaults).\n", timeout=120) if ok else (False, "", err)
        good = ok and ok2 and core.coq_results(out2)[-1:] == ["true"]
        ctx.oblige("tie:defaults-and-column-order (Gen.v = model tables)", good,
                   "tables read from the sources: %s ; %s" % (json.dumps(tables), (err or err2)[-300:]))
    except core.Fail as e:
        ctx.oblige("tie:defaults-and-column-order (Gen.v = model tables)", False, str(e))
    fp, _ = core.fingerprint(core.REPO + "/src/pymoca/backends/casadi/model.py", {"variable_metadata_function", "Variable", "_substitute_metadata"})
    fp2, _ = core.fingerprint(core.REPO + "/src/pymoca/backends/casadi/generator.py", {"_ast_symbols_to_variables"})
    ctx.notes["source_fingerprint"] = {"model.py": fp, "generator.py": fp2}

    # ---- cases
    mix = [("single_affine", ctx.scaled(6, 120)), ("single_mixed", ctx.scaled(5, 70)), ("single_bilinear", ctx.scaled(6, 60)),
           ("multilinear", ctx.scaled(6, 80)), ("matrix2d", ctx.scaled(5, 70)), ("sequence", ctx.scaled(6, 80)),
           ("switch", ctx.scaled(10, 90)), ("extends", ctx.scaled(6, 60)), ("component", ctx.scaled(5, 40)), ("constattr", ctx.scaled(2, 20)),
           ("multi", ctx.scaled(6, 160)),
           ("none", ctx.scaled(3, 30)), ("subst", ctx.scaled(6, 70)), ("known_shape", ctx.scaled(3, 30))]
    cases = []
    try:
        cases += json.load(open(core.VERIF + "/corpus/C13/cases.json"))
    except OSError:
        pass
    n_corpus = len(cases)
    for kind, cnt in mix:
        for _ in range(cnt):
            cases.append(gen_case(ctx.rng, kind))
    results = core.run_child(ctx, "c13", [child_case(c) for c in cases], timeout=1500)

    # ---- (a) oracle
    dist = {"kinds": {}, "via": {}, "opts": {}, "rebuilt": 0, "decl_kinds": {}, "var_types": {}, "impl_exceptions": 0}
    nontrivial = set()
    enc, idx = [], []
    enc_c, idx_c = [], []
    skipped_points = 0
    for i, (c, r) in enumerate(zip(cases, results)):
        dist["kinds"][c["kind"]] = dist["kinds"].get(c["kind"], 0) + 1
        dist["via"][c["via"]] = dist["via"].get(c["via"], 0) + 1
        ok_ = json.dumps(c["opts"], sort_keys=True) + (" steps=" + json.dumps(c["steps"]) if c.get("steps") else "")
        dist["opts"][ok_] = dist["opts"].get(ok_, 0) + 1
        for v in c["params"] + c["vars"]:
            dist["var_types"][v["type"] + ("[]" if v.get("dims") else "")] = dist["var_types"].get(v["type"] + ("[]" if v.get("dims") else ""), 0) + 1
            for d in v["attrs"].values():
                if d is not None:
                    k = d["k"] + ("-each" if d.get("each") else "") + ("-affine" if d["k"] == "exp" and syn_affine(d["e"]) else "")
                    dist["decl_kinds"][k] = dist["decl_kinds"].get(k, 0) + 1
        verdict = judge(c, r)
        if verdict:
            core.report(ctx, verdict[0], verdict[1], {"input": c, "observed": r if "exc" in r or "crash" in r else {"rebuilt": r.get("rebuilt")}})
        if "exc" in r or "crash" in r:
            dist["impl_exceptions"] += 1
            continue
        if "meta_exc" in r:
            try:
                enc_c.append(encode_const(c, r))
                idx_c.append(i)
            except (NoEncoding, KeyError):
                skipped_points += 1
            continue
        r0 = r
        obs = r["stages"] if "stages" in r else [r]
        if any(o.get("rebuilt") for o in obs):
            dist["rebuilt"] += 1
        if any(d is not None and d["k"] != "lit" for v in c["params"] + c["vars"] for d in v["attrs"].values()):
            nontrivial.add(c["text"] + json.dumps(c.get("steps")))
        for k_, o in enumerate(obs):
            e = encode(c, o, [x["params"] for x in obs[:k_]] if "stages" in r0 else None)
            if e is None:
                skipped_points += 1
                continue
            enc.append(e)
            idx.append(i)
        r = obs[0]
        if r.get("attr_order") != ATTRS and not ctx.violations:
            core.report(ctx, "column-order", "CASADI_ATTRIBUTES is %s, documented column order is %s" % (r.get("attr_order"), ATTRS), {"input": c})

    # ---- (b) correspondence
    bad = core.coq_eval_cases(ctx, "meta", PREAMBLE, "case", enc, "check_case", shard=12, timeout=600)
    mism = [idx[j] for j in bad] if bad is not None else None
    ctx.oblige("correspondence:model-vs-variable_metadata_function", mism == [],
               "mismatching cases: %s" % (mism[:10] if mism is not None else "coqc failed"))
    if mism and not [v for v in ctx.violations if not v["no_input"]]:
        core.violation(ctx, "correspondence-broken",
                       {"correspondence": "Model/C13_metadata.v check_case vs generate()/variable_metadata_function",
                        "input": cases[mism[0]]}, no_input=True)

    if enc_c:
        badc = core.coq_eval_cases(ctx, "const", PREAMBLE + "From PV Require Import Model.C13_const.\n",
                                   "model * list aexp * nat * bool * list (list Qc * list (list (list ext)))",
                                   enc_c, "check_case_const", shard=20, timeout=300)
        ctx.oblige("correspondence:constants-variable-level (check_case_const)", badc == [],
                   "mismatching cases: %s" % ([idx_c[j] for j in badc][:10] if badc is not None else "coqc failed"))
        if badc and not [v for v in ctx.violations if not v["no_input"]]:
            core.violation(ctx, "correspondence-broken", {"correspondence": "check_case_const", "input": cases[idx_c[badc[0]]]},
                           no_input=True)
    dist_const = len(enc_c)
    # ---- S4 known findings
    def still_fails(e):
        c = e["replay"]["input"]
        r = core.run_child(ctx, "c13", [child_case(c)])[0]
        v = judge(c, r)
        return bool(v) and v[0] == e["tag"]
    core.replay_known(ctx, still_fails)

    ctx.cov["evaluations"] = len(cases)
    ctx.cov["distinct_nontrivial"] = len(nontrivial)
    ctx.cov["rule"] = ("generated models: %s (+ %d corpus); 3 parameter vectors each (declared values, two random dyadic); "
                       "non-trivial = distinct Modelica text with at least one non-literal attribute declaration"
                       % (", ".join("%s x%d" % m for m in mix), n_corpus))
    ctx.cov["samples"] = [cases[n_corpus]["text"], cases[-1]["text"]] if len(cases) > n_corpus else []
    dist["correspondence_cases"] = len(enc)
    dist["constant_cases_variable_level"] = dist_const
    dist["not_encoded"] = skipped_points
    ctx.notes["input_distribution"] = dist
    ctx.assumptions += [
        "exact rationals in the model; the implementation's doubles are accepted within 2^-30 (1+|q|) (inputs are small dyadic "
        "rationals, intermediate magnitudes < 2^12, divisors > 1/8; other points are skipped)",
        "which branch variable_metadata_function takes (affine rebuild or direct) is an input of the model observed from the "
        "implementation; the contract 'rebuilt => all cells in the syntactic affine class' is checked per case",
        "which parameters a simplify step eliminates, and by what (declared literal value / declared expression), is an input "
        "of the model derived by the harness from the observed parameter lists; the model applies the substitution, the "
        "constant-to-Python-number conversion and re-evaluates (C13_values_steps)",
        "CasADi's folding of substituted expressions (0*x, elements of a substituted array parameter) is not modelled: Python "
        "type tags of substituted attributes are compared only when scalar parameters alone were substituted, and the "
        "rebuild contract is relaxed to the direct branch when the substituted tree is syntactically non-affine",
    ]


def replay(ctx, path):
    rec = json.load(open(path))
    case = rec.get("input")
    res = core.run_child(ctx, "c13", [child_case(case)])[0]
    v = judge(case, res)
    print("replay:", ("%s: %s" % v) if v else "property holds on this input (oracle); model text:\n" + case["text"])
    return 1 if v else 0
